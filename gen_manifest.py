#!/usr/bin/env python3
"""Writes MANIFEST.json from the table below (kept in one place so it is always valid)."""
import json

CHECKS = {
    "C01": dict(
        text="Theorems (Coq, unbounded): for every pipeline (any length, suffixes, unknown names), every validity oracle, "
             "every number of scales and every history of check/run calls, the model of PandoraMachine accepts exactly the "
             "documented language, runs each step once per scale in order (left then right) and restores the machine; "
             "proved for ANY transition tables passing a boolean well-formedness test, which is re-established by "
             "vm_compute on the tables regenerated from /repo at every run. The hand-written model of check_conf/run/"
             "transitions is tied to the code by a correspondence run (11k+ exhaustive check sequences, random histories "
             "with real runs on images).",
        note="Trusted: Coq kernel, translator/gen_tables.py, extraction (ExtrOcamlBasic) + driver, the harness; modelled not "
             "verified: the transitions library semantics, per-step parameter validity (oracle, C05), effect of each callback.",
        technique="Coq proof (induction over pipelines/scales/histories) + regenerated tables (vm_compute obligations) + "
                  "extracted-model correspondence",
        design="3/C01"),
    "C20": dict(
        text="Theorems (Coq, unbounded): for every accepted pipeline (any length, names, parameter values of the documented "
             "domains, image size, matching-cost step), checking on a fresh machine yields exactly the documented cumulative / "
             "non-cumulative entries in pipeline order; the validation-triggered second round is a no-op; global margins are "
             "per side max(sum cumulative, each non-cumulative); all values are non-negative; inserting a step never decreases "
             "a side. Proved for ANY margin tables passing a decidable test that is re-run (vm_compute) on the tables "
             "regenerated from the descriptors, filter properties and check callbacks of /repo at every run; GlobalMargins "
             "model tied to the code by a correspondence run on random accepted pipelines.",
        note="Trusted: Coq kernel, translator/gen_margins.py (ast), extraction + driver, harness. Modelled not verified: that "
             "the private attributes read by the margin expressions hold the checked parameters (covered by the correspondence); "
             "float evaluation of int(3*sigma_space+1) (sigma values restricted to multiples of 1/8); saved margins are C19.",
        technique="Coq proof (induction over pipelines, ordered-dictionary lemmas) + regenerated margin tables "
                  "(vm_compute obligation) + extracted-model correspondence",
        design="3/C20"),
    "C08": dict(
        text="Theorems (Coq, unbounded, for ARBITRARY step functions and value domain): for every sequence of run-callback "
             "executions (every legal pipeline over the built-in kinds, any number of scales) with right products computed, "
             "every slot of the run on (R, L, [-max,-min]) holds what the exchanged slot of the run on (L, R, [min,max]) holds "
             "(single- and multi-scale run_prepare); without validation the right cost volume / disparity dataset are never "
             "written; left products do not depend on whether right products are computed, hence a cross-checking step "
             "without filling leaves the left disparity map unchanged. Proved for ANY callback table passing three boolean "
             "tests (mirrored + independent blocks, left-closed, right-quiet) re-run by vm_compute on the call structure of "
             "the 11 run callbacks regenerated from /repo by ast. The hand-written in-place-mutation table is audited on "
             "every run (slot hashes before/after each real callback); impl-vs-impl mirrored runs compare products bit for bit.",
        note="Trusted: Coq kernel, translator/gen_callbacks.py, extraction + driver, harness. Hypotheses of the theorem, named "
             "in Props/C08.v: cross-checking returns the checked dataset, reads the other only through its disparity map and "
             "keeps the disparity map (C07), interpolation is unary (C14); step objects depend on images only through "
             "properties equal for both (shape). semantic_segmentation (plugin-only) is outside the theorem. Determinism of "
             "the real kernels is sampled, not proved.",
        technique="Coq proof (commutation of independent blocks with the L<->R exchange, induction over callbacks) + "
                  "regenerated callback structure (vm_compute obligations) + write-set audit + metamorphic mirrored runs",
        design="3/C08"),
}

# further entries: one file manifest.d/Cxx.json per property {"text","note","technique","design"};
# properties without an entry are listed under not_applicable with the reason in manifest.d/pending.json
import glob, os
HERE = os.path.dirname(os.path.abspath(__file__))
for _f in sorted(glob.glob(os.path.join(HERE, "manifest.d", "C[0-9][0-9].json"))):
    CHECKS[os.path.basename(_f)[:3]] = json.load(open(_f))
_pending = json.load(open(os.path.join(HERE, "manifest.d", "pending.json")))
ALL = ["C%02d" % i for i in range(1, 21)]
NOT_APPLICABLE = [{"property_id": p, "reason": _pending.get(p, "no check has been completed for this property yet")}
                  for p in ALL if p not in CHECKS]

def main():
    checks = []
    for pid, c in sorted(CHECKS.items()):
        checks.append({
            "property_id": pid,
            "quick_cmd": f"./check {pid} --tier quick",
            "thorough_cmd": f"./check {pid} --tier thorough",
            "evidence_file": f"/verif/evidence/{pid}.json",
            "replay_cmd_template": f"./check {pid} --replay {{path}}",
            "engine": "coq-proof+correspondence",
            "level_claimed": {"category": "proof", "text": c["text"], "design_ref": c["design"]},
            "level_note": c["note"],
            "technique": c["technique"],
        })
    man = {
        "version": 1,
        "setup_cmd": "./setup.sh",
        "hooks": {
            "guard": "PANDORA_VERIF",
            "enable": "no hook is needed: callbacks are observed by wrapping bound methods of a PandoraMachine instance in the harness",
            "baseline_off_cmd": "cd /repo && /venv/bin/python -m pytest -ra -q -p no:cacheprovider --timeout=900 --continue-on-collection-errors",
            "source_commits": [],
            "add_only": True,
        },
        "engines": [{
            "name": "coq-proof+correspondence",
            "path": "/verif/check",
            "serves_properties": sorted(CHECKS),
            "kind_free_text": "Coq 8.16 theorems over Gallina models; models regenerated from /repo (translator/) or hand-written "
                              "and tied by an extracted-OCaml correspondence run against the real code (harness/)",
        }],
        "checks": checks,
        "notes": "fix: commits in /repo and recorded findings are listed in /verif/known_findings.json; see DESIGN.md section 4",
        "not_applicable": NOT_APPLICABLE,
    }
    with open(os.path.join(HERE, "MANIFEST.json"), "w") as f:
        json.dump(man, f, indent=1)
    print("MANIFEST.json written:", len(checks), "checks")

if __name__ == "__main__":
    main()
