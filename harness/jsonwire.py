"""JSON-like Python values <-> the s-expression wire format of Model/JsonWire.v.

  (0 z) int | (1 num den) float | (2) nan | (3 neg) inf | (4 c1 c2 ...) str | (5 b) bool | (6) None
  (7 e1 ...) list | (8 ((c1 ...) value) ...) dict

A finite float travels as its shortest round-trip decimal (Fraction(repr(f))): the model's
JFloat q stands for "the double nearest to q", comparisons with the integer literals of the
schemas are unaffected (rounding is monotone and the literals are representable)."""
import fractions
import math


class NotJson(Exception):
    pass


def to_wire(v):
    if v is None:
        return [6]
    if isinstance(v, bool):
        return [5, 1 if v else 0]
    if isinstance(v, int):
        return [0, v]
    if isinstance(v, float):
        if math.isnan(v):
            return [2]
        if math.isinf(v):
            return [3, 1 if v < 0 else 0]
        q = fractions.Fraction(repr(v))
        return [1, q.numerator, q.denominator]
    if isinstance(v, str):
        codes = [ord(c) for c in v]
        if any(c < 1 or c > 126 for c in codes):
            raise NotJson(f"non-ASCII string {v!r}")
        return [4] + codes
    if isinstance(v, (list, tuple)):
        return [7] + [to_wire(x) for x in v]
    if isinstance(v, dict):
        out = [8]
        for k, x in v.items():
            if not isinstance(k, str):
                raise NotJson(f"non-string key {k!r}")
            out.append([[ord(c) for c in k], to_wire(x)])
        return out
    if hasattr(v, "item") and getattr(v, "shape", None) == ():
        return to_wire(v.item())
    raise NotJson(f"not a JSON value: {type(v).__name__} {v!r}")


def from_wire(w):
    tag = w[0]
    if tag == 0:
        return w[1]
    if tag == 1:
        return float(fractions.Fraction(w[1], w[2]))
    if tag == 2:
        return float("nan")
    if tag == 3:
        return float("-inf") if w[1] else float("inf")
    if tag == 4:
        return "".join(chr(c) for c in w[1:])
    if tag == 5:
        return bool(w[1])
    if tag == 6:
        return None
    if tag == 7:
        return [from_wire(x) for x in w[1:]]
    if tag == 8:
        return {"".join(chr(c) for c in kv[0]): from_wire(kv[1]) for kv in w[1:]}
    raise ValueError(f"bad wire tag {tag}")


def wire_str(s):
    return [ord(c) for c in s]


def show(v):
    """printable form for samples / replays (nan/inf as strings)"""
    if isinstance(v, float) and (math.isnan(v) or math.isinf(v)):
        return f"<float {v}>"
    if isinstance(v, dict):
        return {k: show(x) for k, x in v.items()}
    if isinstance(v, (list, tuple)):
        return [show(x) for x in v]
    return v


def unshow(v):
    if isinstance(v, str) and v.startswith("<float ") and v.endswith(">"):
        return float(v[7:-1])
    if isinstance(v, dict):
        return {k: unshow(x) for k, x in v.items()}
    if isinstance(v, list):
        return [unshow(x) for x in v]
    return v
