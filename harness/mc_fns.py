"""T-gen tie of the array code of the census and zncc rasters, harness side (C02).

translator/gen_census_zncc_fns.py regenerates coq/Gen/CensusZnccFns.v from the source; Proofs/CensusZnccFnsP.v proves
generated = model.  What is checked HERE, against the real code, is the translator's reading of numpy itself
(Lib/NpArr.v: uint32 wrap-around, Python slices, as_strided views, cumulative sums, scipy's binary_dilation): the
EXTRACTED generated definitions (build/x02f) are run next to the real functions called directly --

* Census.popcount32b on uint32 arrays (as census_cost calls it), against the generated popcount32b, and against the
  number of set bits (the property at that level);
* img_tools.census_transform on image datasets, against the generated census_transform (validity, shape, every value)
  and against the property at that level (the xor / popcount of two transformed pixels = the number of window pixels
  whose 'greater than the centre' bits differ, whatever the bit layout);
* img_tools.compute_mean_raster / compute_std_raster, against the generated rasters (mean: bridging tolerance; standard
  deviation: the zero decision exactly, the value sqrt(var) under the tolerance) and the direct window mean / variance;
* the masks cv_masked obtains from masks_dilatation during a REAL cv_masked run (the staticmethod is wrapped for the
  time of the run, arguments and result recorded), against the generated cv_masked_masks given self._window_size and
  self._subpix, and against the property (NaN iff invalid centre or a no-data pixel in the window; shifted mask = two
  adjacent columns)."""
import math
from fractions import Fraction

import numpy as np

from harness import core
from harness import mc_util as mu
from harness import pandora_util as pu

GEN = ["gen_census_zncc_fns"]
EXTRACT = ["X02F"]
DRIVER = ["x02f"]

OBLIGATIONS = [
    "C02_gen_popcount32b_eq_model / C02_gen_popcount32b_correct: Gen.CensusZnccFns.popcount32b (ast of "
    "Census.popcount32b, every uint32 operation truncated modulo 2^32, regenerated) = Model popcount32b = number of set "
    "bits, for every uint32",
    "C02_gen_census_transform_eq_model: the generated census_transform (as_strided windows, centre slice, the two "
    "loops with the decreasing shift, uint32 accumulation) is valid, of shape (ny-(w-1), nx-(w-1)) and equal to the "
    "model's transform for every image of at least w x w pixels, w odd, 3 <= w, w*w <= 32",
    "C02_gen_census_hamming: C02_census_hamming on the generated census_transform / census_cost / popcount32b",
    "C02_gen_mean_raster_eq_model: the generated compute_mean_raster (cumulative sums, slices, division) is valid, of "
    "shape (ny-(w-1), nx-(w-1)) and = the model's sum_raster / w^2, for every array and 0 < w <= ny, nx",
    "C02_gen_std_raster_eq_model: the generated compute_std_raster = sqrt of (the model's var_raster / w^4, zeroed below "
    "1e-15 |E[x^2]|); the clamp changes nothing while w^2 * sum of squares of the window < 10^15",
    "C02_gen_mean_raster_eq_window_mean: C02_mean_raster_eq_window_mean on the generated rasters",
    "C02_gen_cv_masked_masks_eq_model: the generated masks_dilatation as called by the generated cv_masked (argument "
    "order, self._window_size, self._subpix) = the model's mask_nan (left, right, each with its own mask convention) "
    "and mask_shift (present iff subpix != 1)",
]
ASSUMES = [
    "T-gen reading of the arrays: integer radiometry (the float64 cumulative sums of compute_mean_raster are then exact "
    "and np.nancumsum = np.cumsum); 10 ** (-15) read as the rational 10^-15 (the decision it takes is 0 or >= 1/w^4 "
    "apart, see C02_gen_std_raster_eq_model); the square root of compute_std_raster is outside the rational model",
]
TRUSTED = ["translator/gen_census_zncc_fns.py (ast -> Gallina over Lib/NpArr.v) and Lib/NpArr.v as the reading of numpy "
           "(uint32 wrap-around, slices, as_strided, np.r_/np.c_, cumsum, astype, boolean stores) and of scipy's "
           "binary_dilation with a full odd structure -- validated against the real functions on every run "
           "(harness/mc_fns.py)"]


def _img(rng, rows, cols, style):
    if style == "flat":
        v = rng.randint(0, 255)
        return [[v] * cols for _ in range(rows)]
    amp = {"rand": 255, "few": 3, "big": 1023}[style]
    return [[rng.randint(0, amp) for _ in range(cols)] for _ in range(rows)]


def _census_bits(img, w):
    """per pixel of the transform, the tuple of the w*w bits 'window pixel > centre of the window' (row-major)"""
    rows, cols = len(img), len(img[0])
    off = (w - 1) // 2
    return [[tuple(img[r + a][c + b] > img[r + off][c + off] for a in range(w) for b in range(w))
             for c in range(cols - (w - 1))] for r in range(rows - (w - 1))]


def _census_hamming_failure(realv, bits):
    """the property at the level of the transform: the xor / popcount of two transformed pixels is the number of window
    pixels whose bits differ (whatever the layout of the bits in the word).  Every pixel against the first one and
    against its right neighbour.  Returns None or a description."""
    if [len(realv), len(realv[0]) if realv else 0] != [len(bits), len(bits[0]) if bits else 0]:
        return f"shape {[len(realv), len(realv[0]) if realv else 0]}, one value per window is {[len(bits), len(bits[0])]}"
    nr, nc = len(bits), len(bits[0])
    for r in range(nr):
        for c in range(nc):
            for (r2, c2) in ((0, 0), (r, min(c + 1, nc - 1))):
                d = bin(realv[r][c] ^ realv[r2][c2]).count("1")
                e = sum(x != y for x, y in zip(bits[r][c], bits[r2][c2]))
                if d != e:
                    return (f"transforms {realv[r][c]} at ({r},{c}) and {realv[r2][c2]} at ({r2},{c2}) differ in {d} bits, the two "
                            f"windows differ in {e} 'greater than the centre' bits")
    return None


def _dec_arr(v, dec):
    ok, nr, nc, rows = v
    return bool(ok), nr, nc, [[dec(x) for x in row] for row in rows]


def run(ctx):
    from pandora import matching_cost as mcpkg
    from pandora.matching_cost.census import Census
    from pandora import img_tools

    quick = ctx.tier == "quick"
    rng = ctx.rng
    import os
    if not os.path.exists(os.path.join(core.BUILD, "x02f", "driver")):
        ctx.notes.append("mc_fns: no driver of the generated array functions (extraction failed): generated-code "
                         "correspondence skipped")
        return
    model = core.Model("x02f")

    # ---------------- popcount32b on uint32 arrays
    xs = [0, 1, 2 ** 32 - 1, 2 ** 31, 0x55555555, 0xAAAAAAAA, 0x0F0F0F0F, 0xFFFF0000, 0x80000001]
    xs += [1 << k for k in range(32)] + [(1 << k) - 1 for k in range(1, 33)]
    xs += [rng.getrandbits(32) for _ in range(300 if quick else 5000)]
    xs += [rng.getrandbits(rng.randint(1, 25)) for _ in range(100)]
    try:
        real = [int(v) for v in Census.popcount32b(np.array(xs, dtype=np.uint32))]
    except Exception as exc:  # pylint: disable=broad-except
        ctx.violation("raises_popcount32b", f"Census.popcount32b on a uint32 array raises {type(exc).__name__}: {str(exc)[:120]}",
                      {"kind": "popcount", "x": xs[:8]})
        real = [bin(x).count("1") for x in xs]
    got = model.batch([(1, xs)])[0]
    for x, r, m in zip(xs, real, got):
        ctx.count("gen_popcount_calls")
        ctx.traces += 1
        ctx.case(("gen_popcount", x))
        if r != m:
            ctx.mismatch("gen_popcount32b", {"kind": "popcount", "x": x}, r, m)
        if r != bin(x).count("1"):
            ctx.violation("popcount32b", f"popcount32b({x:#x}) = {r}, the word has {bin(x).count('1')} bits set",
                          {"kind": "popcount", "x": x})
    ctx.sample({"generated_code_case": "popcount32b(0xffffffff)", "real": real[2], "extracted_generated": got[2]})

    # ---------------- census_transform
    jobs, impl = [], []
    for _ in range(40 if quick else 400):
        w = rng.choice([3, 5])
        rows, cols = rng.randint(w, w + 5), rng.randint(w, w + 6)
        img = _img(rng, rows, cols, rng.choice(["rand", "few", "few", "big", "flat"]))
        ds = pu.image_dataset(np.array(img, dtype=np.float32), disp=None)
        try:
            out = img_tools.census_transform(ds, w)["im"].data
        except Exception as exc:  # pylint: disable=broad-except
            ctx.case(None)
            ctx.violation("raises_census_transform", f"census_transform (window {w}) of a {rows}x{cols} image raises "
                          f"{type(exc).__name__}: {str(exc)[:120]}", {"kind": "census_transform", "image": img, "window": w})
            continue
        jobs.append((2, [img, w]))
        impl.append((img, w, out))
    for (img, w, out), m in zip(impl, model.batch(jobs)):
        ctx.count("gen_census_transform_calls")
        ctx.traces += 1
        ok, nr, nc, vals = _dec_arr(m, int)
        case = {"kind": "census_transform", "image": img, "window": w}
        ctx.case(("gen_census", w, str(img)))
        realv = [[int(x) for x in row] for row in out]
        if not ok or [nr, nc] != list(out.shape) or vals != realv:
            ctx.mismatch("gen_census_transform", case, {"shape": list(out.shape), "values": realv},
                         {"valid": ok, "shape": [nr, nc], "values": vals})
        bad = _census_hamming_failure(realv, _census_bits(img, w))
        if bad is None and str(out.dtype) != "uint32":
            bad = f"dtype {out.dtype}"
        if bad:
            ctx.violation("census_transform_bits", f"census_transform (window {w}) of {img}: {bad}", case)

    # ---------------- compute_mean_raster / compute_std_raster
    jobs, impl = [], []
    for _ in range(40 if quick else 400):
        w = rng.choice([1, 3, 3, 5, 7])
        rows, cols = rng.randint(w, w + 5), rng.randint(w, w + 6)
        img = _img(rng, rows, cols, rng.choice(["rand", "few", "big", "flat", "flat"]))
        if rng.random() < 0.3:     # a flat window inside a textured image
            r0, c0 = rng.randint(0, rows - w), rng.randint(0, cols - w)
            for a in range(w):
                for b in range(w):
                    img[r0 + a][c0 + b] = img[r0][c0]
        ds = pu.image_dataset(np.array(img, dtype=np.float32), disp=None)
        try:
            mean = img_tools.compute_mean_raster(ds, w)
            std = img_tools.compute_std_raster(ds, w)
        except Exception as exc:  # pylint: disable=broad-except
            ctx.case(None)
            ctx.violation("raises_rasters", f"compute_mean_raster / compute_std_raster (window {w}) of a {rows}x{cols} image "
                          f"raises {type(exc).__name__}: {str(exc)[:120]}", {"kind": "rasters", "image": img, "window": w})
            continue
        jobs += [(3, [img, w]), (4, [img, w])]
        impl.append((img, w, mean, std))
    res = model.batch(jobs)
    for k, (img, w, mean, std) in enumerate(impl):
        ctx.count("gen_raster_calls")
        ctx.traces += 1
        ctx.case(("gen_raster", w, str(img)))
        case = {"kind": "rasters", "image": img, "window": w}
        okm, nrm, ncm, vm = _dec_arr(res[2 * k], core.q_of)
        okv, nrv, ncv, vv = _dec_arr(res[2 * k + 1], core.q_of)
        want_shape = [len(img) - (w - 1), len(img[0]) - (w - 1)]
        if list(mean.shape) != want_shape or list(std.shape) != want_shape:
            ctx.violation("raster_shape", f"compute_mean_raster / compute_std_raster (window {w}) of a {len(img)}x{len(img[0])} image "
                          f"have shapes {list(mean.shape)} / {list(std.shape)}, one value per window is {want_shape}", case)
        if not okm or [nrm, ncm] != list(mean.shape) or not okv or [nrv, ncv] != list(std.shape):
            ctx.mismatch("gen_raster_shape", case, [list(mean.shape), list(std.shape)], [[okm, nrm, ncm], [okv, nrv, ncv]])
            continue
        if list(mean.shape) != want_shape or list(std.shape) != want_shape:
            continue
        for r in range(nrm):
            for c in range(ncm):
                win = [img[r + a][c + b] for a in range(w) for b in range(w)]
                n = w * w
                em = Fraction(sum(win), n)
                ev = Fraction(n * sum(x * x for x in win) - sum(win) ** 2, n * n)
                fm, fs = float(mean[r, c]), float(std[r, c])
                if not core.close(fm, vm[r][c]):
                    ctx.mismatch("gen_compute_mean_raster", dict(case, at=[r, c]), fm, str(vm[r][c]))
                if (fs == 0.0) != (vv[r][c] == 0) or not core.close(fs, Fraction(math.sqrt(float(vv[r][c])))):
                    ctx.mismatch("gen_compute_std_raster", dict(case, at=[r, c]), fs, "sqrt(%s)" % vv[r][c])
                if not core.close(fm, em):
                    ctx.violation("mean_raster", f"compute_mean_raster (window {w}) at ({r},{c}) = {fm}, the window mean is {em}", case)
                if (fs == 0.0) != (ev == 0) or not core.close(fs, Fraction(math.sqrt(float(ev)))):
                    ctx.violation("std_raster", f"compute_std_raster (window {w}) at ({r},{c}) = {fs}, the window variance is {ev}", case)

    # ---------------- the masks of a real cv_masked run
    AMC = mcpkg.AbstractMatchingCost
    orig = AMC.__dict__["masks_dilatation"]
    seen = []

    def spy(*args):
        out = orig.__func__(*args)
        seen.append((args, out))
        return out
    n_masks = 0
    AMC.masks_dilatation = staticmethod(spy)
    try:
        for _ in range(60 if quick else 500):
            case = mu.gen_case(rng, max_nd=6)
            if case["mask_l"] is None and case["mask_r"] is None and rng.random() < 0.8:
                continue
            del seen[:]
            cv, exc = mu.run_impl(case)
            if exc is not None or len(seen) != 1:
                continue
            n_masks += 1
            (a_left, a_right, a_w, a_s), (ml, (mr, mrs)) = seen[0]
            left, right = mu.datasets(case)
            rows, cols = case["rows"], case["cols"]
            w, s = case["window"], case["subpix"]

            def msk(ds):
                return [[int(x) for x in row] for row in ds["msk"].data] if "msk" in ds.data_vars else None
            mL, mR = msk(left), msk(right)
            arg = [rows, cols, w, s, left.attrs["valid_pixels"], left.attrs["no_data_mask"],
                   1 if mL is not None else 0, mL or [], 1 if mR is not None else 0, mR or [],
                   right.attrs["valid_pixels"], right.attrs["no_data_mask"]]
            g = model.batch([(5, arg)])[0]
            ctx.count("gen_masks_calls")
            ctx.traces += 1
            ctx.case(("gen_masks", w, s, str(mL), str(mR)))
            rc = {"kind": "masks", "case": case}

            def nanpat(a):
                return [[bool(x != x) for x in row] for row in np.asarray(a)]
            rl, rr = nanpat(ml.data), nanpat(mr.data)
            rs = nanpat(mrs.data) if s != 1 else None
            gl, gr = _dec_arr(g[0], bool), _dec_arr(g[1], bool)
            gs = _dec_arr(g[2], bool) if g[2] != [] else None
            if (a_w, a_s) != (w, s) or not gl[0] or not gr[0] or gl[3] != rl or gr[3] != rr \
                    or (rs is None) != (gs is None) or (gs is not None and (not gs[0] or gs[3] != rs)):
                ctx.mismatch("gen_cv_masked_masks", rc, {"args": [int(a_w), int(a_s)], "left": rl, "right": rr, "shift": rs},
                             {"left": gl, "right": gr, "shift": gs})
            # the property at that level
            off = (w - 1) // 2

            def want(m, vp, nd, r, c):
                if m is None:
                    return False
                if m[r][c] not in (vp, nd):
                    return True
                return any(0 <= r + a < rows and 0 <= c + b < cols and m[r + a][c + b] == nd
                           for a in range(-off, off + 1) for b in range(-off, off + 1))
            wl = [[want(mL, arg[4], arg[5], r, c) for c in range(cols)] for r in range(rows)]
            wr = [[want(mR, arg[10], arg[11], r, c) for c in range(cols)] for r in range(rows)]
            ws = [[wr[r][c] or wr[r][c + 1] for c in range(cols - 1)] for r in range(rows)] if s != 1 else None
            if rl != wl or rr != wr or rs != ws or (a_w, a_s) != (w, s):
                ctx.violation("masks_dilatation", f"masks of cv_masked (window {w}, subpix {s}, called with {int(a_w)}, {int(a_s)}): "
                              f"left {rl} right {rr} shifted {rs}; the property gives {wl} / {wr} / {ws}", case)
    finally:
        AMC.masks_dilatation = orig
    ctx.stats["gen_masks_runs"] = n_masks
