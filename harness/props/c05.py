"""C05 -- configuration checking completes, preserves and polices every parameter.

T-gen : Gen/Schemas.v regenerated from every built-in check_conf (translator/gen_schemas.py,
        fail closed); Props/C05.v re-proves on it, at every run, that each generated schema
        accepts exactly the documented domain (Spec/Domains.v), that the defaults match, and the
        completion / idempotence theorems.
T-corr: the hand-written json-checker / update_conf / check_pipeline_section model, extracted,
        against the real code: (a) every parameter of every built-in class x a pool of boundary /
        wrong-type values through the real class constructor (registry dispatch + check_conf);
        (b) the same through check_configuration.check_pipeline_section inside a minimal
        pipeline; (c) random whole pipelines (suffixed steps, multiband images, grids);
        (d) ONE PandoraMachine checking 2-4 different pipelines in sequence (legal reorderings of
        the same step names, with / without validation): each returned configuration against the
        (stateless) model.
        Compared: accept/reject, the returned dictionary WITH key order, non-mutation of the
        user's dictionary (deep copy before/after).
Spec  : the documented domain (Spec/Domains.v, extracted: fid 5/7) applied to the real code's
        accept/reject and returned configuration; idempotence replayed on the real code."""
import copy
import inspect
import json
import os

import numpy as np

from harness import core
from harness import jsonwire as jw
from harness import pandora_util as pu

GEN = ["gen_schemas"]
EXTRACT_FILES = ["X05"]
DRIVERS = ["x05"]
RULE = ("(a)/(b): every (built-in class, parameter) x the value pool {boundary-1, boundary, boundary+1, 0, -1, large, "
        "float twins, bool, str, 'NaN'/'inf' strings, '%d', null, nan, inf, [], [nan], list, dict}, alone, at class level and "
        "inside a minimal pipeline, plus an unknown key, a missing / unknown / non-string method; (c) random legal "
        "pipelines with random subsets of parameters, ~15% out-of-domain values, random suffixes, mono/multiband "
        "images, list/grid disparity sources; (d) sequences of 2-4 pipelines over a common pool of step names (filter / "
        "refinement / validation, with suffixes, in different orders, with and without validation) checked one after "
        "the other by ONE machine object; (e) update_conf(default, user) itself on random nested dictionaries over a common "
        "key pool (depth <= 4; dictionary over scalar / None / list default, empty dictionary over scalar, scalar over "
        "dictionary, new keys, the three strings at any depth).  A case is non-trivial when it sets at least one parameter besides the "
        "method; distinct by (class, parameter, value) or by the whole configuration")
ASSUMES = [
    "json-checker 2.0.0 semantics (And without short circuit, Or's filtering by exact type, the list rule, missing / "
    "extra keys) are hand-modelled in Model/Checker.v and validated by this correspondence on every run",
    "Python's isinstance lattice is what 'type' means: JSON true/false are the integers 1/0 for And(int, ...) parameters "
    "(documented choice, DESIGN 3/C05); Or(int, float) excludes them",
    "a float travels as its shortest round-trip decimal; the schemas only compare floats with integer literals; "
    "'%' is applied to floats/strings only under And(int, ...) where the result cannot matter; `str % int` is modelled "
    "as TypeError (a format string such as '%d' does not raise in Python: every present lambda raises on it anyway "
    "through an order comparison; '%d' is in the value pool)",
    "sequencing of steps is C01's subject: only pipelines of the documented language are generated; streams (a)-(c) "
    "use a fresh PandoraMachine per check, stream (d) reuses one machine object for several pipelines (check_conf "
    "starts from a clean pipeline_cfg since the fix of DESIGN O2: the model of check_pipeline_section is stateless)",
    "pandora2d is not imported (the matching-cost step guard is active)",
    "optimization and semantic_segmentation have no built-in method and are not covered",
]
TRUSTED = ["Gen/Schemas.v produced by translator/gen_schemas.py (ast of every check_conf + class constants by import)",
           "Spec/Domains.v read as the meaning of 'documented domain / documented default'"]

KINDS = [
    ("matching_cost", "pandora.matching_cost", "AbstractMatchingCost", "matching_cost_methods_avail", "matching_cost_method"),
    ("aggregation", "pandora.aggregation", "AbstractAggregation", "aggreg_methods_avail", "aggregation_method"),
    ("disparity", "pandora.disparity", "AbstractDisparity", "disparity_methods_avail", "disparity_method"),
    ("refinement", "pandora.refinement", "AbstractRefinement", "subpixel_methods_avail", "refinement_method"),
    ("filter", "pandora.filter", "AbstractFilter", "filter_methods_avail", "filter_method"),
    ("validation", "pandora.validation", "AbstractValidation", "validation_methods_avail", "validation_method"),
    ("cost_volume_confidence", "pandora.cost_volume_confidence", "AbstractCostVolumeConfidence",
     "confidence_methods_avail", "confidence_method"),
    ("multiscale", "pandora.multiscale", "AbstractMultiscale", "multiscale_methods_avail", "multiscale_method"),
]
METHOD_KEY = {k[0]: k[4] for k in KINDS}
O1 = {("cost_volume_confidence", "ambiguity", "normalization"),
      ("cost_volume_confidence", "interval_bounds", "vertical_depth"),
      ("cost_volume_confidence", "interval_bounds", "quantile_regularization"),
      ("filter", "median_for_intervals", "vertical_depth"),
      ("filter", "median_for_intervals", "quantile_regularization")}

NAN = float("nan")
INF = float("inf")
POOL = [-1, 0, 1, 2, 3, 4, 5, 6, 7, 8, 9, 10 ** 6, 10 ** 6 + 1, 2 ** 70, -9999,
        -1.0, -0.5, 0.0, 1e-9, 0.01, 0.5, 0.7, 0.999, 1.0, 1.0000001, 1.5, 2.0, 3.0, 4.0, 5.0, 30.0, 1e300,
        True, False, "abc", "", "NaN", "inf", "-inf", "%d", "1", "r", None, NAN, INF, -INF,
        [], [1], [NAN], [[NAN]], [3, 5], [1.0], ["a"], {}, {"a": 1},
        "sad", "census", "mc-cnn", "sgm", "mc_cnn", "wta"]


def conv(v):
    """the documented conversion of the three strings"""
    if isinstance(v, str):
        if v == "NaN":
            return NAN
        if v == "inf":
            return INF
        if v == "-inf":
            return -INF
    return v


def builtin_methods():
    import importlib
    out = []
    for kind, modname, absname, reg, mkey in KINDS:
        mod = importlib.import_module(modname)
        abstract = getattr(mod, absname)
        for mname, cls in sorted(getattr(abstract, reg).items()):
            if inspect.getsourcefile(cls).startswith(core.REPO + "/pandora/"):
                out.append((kind, mname, abstract))
    return out


def call_class(kind, abstract, cfg, metaL, metaR):
    """the real constructor as the machine's <kind>_check_conf calls it; returns obj.cfg"""
    if kind == "filter":
        obj = abstract(cfg=cfg, image_shape=(metaL.sizes["row"], metaL.sizes["col"]), step=1)
    elif kind == "multiscale":
        obj = abstract(metaL, metaR, **cfg)
    else:
        obj = abstract(**cfg)
    return obj.cfg


def minimal_pipeline(kind, step_cfg):
    mc = {"matching_cost_method": "sad"}
    dsp = {"disparity_method": "wta"}
    if kind == "matching_cost":
        return {"matching_cost": step_cfg, "disparity": dsp}
    if kind in ("aggregation", "cost_volume_confidence"):
        return {"matching_cost": mc, kind: step_cfg, "disparity": dsp}
    if kind == "disparity":
        return {"matching_cost": mc, "disparity": step_cfg}
    return {"matching_cost": mc, "disparity": dsp, kind: step_cfg}


def images_wire(bandsL, bandsR, srcL, srcR):
    code = {"none": 0, "list": 1, "grid": 2}
    return [jw.to_wire(bandsL), jw.to_wire(bandsR), code[srcL], code[srcR]]


def meta(bands, src):
    ds = pu.meta_dataset(8, 12, (-2, 2), bands=None if bands == [None] else bands)
    ds.attrs["disparity_source"] = {"none": None, "list": [-2, 2], "grid": "/nonexistent/grid.tif"}[src]
    return ds


def band_rule(bands, band):
    """spec side: no band (None, or the empty string) needs a monoband image; a named band must be in the image"""
    if band is None or band == "":
        return len(bands) == 1
    return isinstance(band, str) and band in bands


def run_pipeline(cc, PandoraMachine, user, metaL, metaR):
    try:
        out = cc.check_pipeline_section(user, metaL, metaR, PandoraMachine())
        return True, out, None
    except Exception as exc:  # pylint: disable=broad-except
        return False, None, pu.exc_class(exc)


def run(ctx):
    import sys
    from pandora import check_configuration as cc
    from pandora.state_machine import PandoraMachine

    if "pandora2d" in sys.modules:
        ctx.broken_obligation("assumption:pandora2d", "pandora2d is imported: the step guard is inactive")
    rng = ctx.rng
    quick = ctx.tier == "quick"
    model = core.Model("x05")
    methods = builtin_methods()
    ctx.stats["builtin_methods"] = [f"{k}/{m}" for k, m, _ in methods]
    monoL, monoR = meta([None], "list"), meta([None], "none")
    mono_wire = images_wire([None], [None], "list", "none")

    # parameters of each class: the keys of its completed default configuration (from the real code)
    params = {}
    for kind, mname, abstract in methods:
        done = call_class(kind, abstract, {METHOD_KEY[kind]: mname}, monoL, monoR)
        ps = [k for k in done if k != METHOD_KEY[kind]]
        if kind == "validation":
            ps.append("interpolated_disparity")
        params[(kind, mname)] = ps
    ctx.stats["parameters"] = sum(len(v) for v in params.values())

    replay = getattr(ctx, "replay_case", None)

    # ------------------------------------------------------------------ (a)+(b) one parameter at a time
    single = []   # (kind, mname, abstract, step cfg, what)
    for kind, mname, abstract in methods:
        mkey = METHOD_KEY[kind]
        for p in params[(kind, mname)]:
            for v in POOL:
                single.append((kind, mname, abstract, {mkey: mname, p: v}, (p, v)))
        # unknown key, method problems
        single.append((kind, mname, abstract, {mkey: mname, "foo": 1}, ("foo", 1)))
        single.append((kind, mname, abstract, {mkey: mname}, ("-", None)))
        single.append((kind, mname, abstract, {}, ("<no method>", None)))
        for bad in ("no_such_method", "", 5, None, ["sad"], mname.upper()):
            single.append((kind, mname, abstract, {mkey: bad}, (mkey, bad)))
        # the method first / last: position of user keys
        ps = params[(kind, mname)]
        if ps:
            p0 = ps[0]
            dflt = call_class(kind, abstract, {mkey: mname}, monoL, monoR)
            if p0 in dflt:
                single.append((kind, mname, abstract, {p0: dflt[p0], mkey: mname}, ("<order>", p0)))
    if replay is not None and replay.get("level") in ("class", "pipeline1"):
        kind, mname = replay["kind"], replay["method"]
        abstract = [a for k, m, a in methods if k == kind and m == mname][0]
        single = [(kind, mname, abstract, jw.unshow(replay["cfg"]), ("replay", None))]
    elif replay is not None:
        single = []

    # model + spec, batched
    batch = []
    for kind, mname, abstract, cfg, what in single:
        batch.append((2, [jw.wire_str(kind), 0, jw.to_wire(cfg)]))
        batch.append((6, [mono_wire, jw.to_wire({"pipeline": minimal_pipeline(kind, cfg)})]))
        batch.append((7, [jw.wire_str(kind), jw.wire_str(mname), jw.to_wire({k: conv(v) for k, v in cfg.items()})]))
    res = model.batch(batch)

    for i, (kind, mname, abstract, cfg, what) in enumerate(single):
        m_class, m_pipe, m_spec = res[3 * i], res[3 * i + 1], res[3 * i + 2]
        key = (kind, mname, what[0], repr(what[1])) if len(cfg) >= 2 else None
        # (a) class level
        ctx.case(key)
        user = copy.deepcopy(cfg)
        before = jw.to_wire(user)
        try:
            got = call_class(kind, abstract, copy.deepcopy(user) if kind == "filter" else user, monoL, monoR)
            impl = [1, jw.to_wire(got)]
            ctx.count("class_accepted")
        except Exception as exc:  # pylint: disable=broad-except
            impl = [0]
            ctx.count("class_rejected_" + pu.exc_class(exc))
        ctx.traces += 1
        if impl != m_class:
            ctx.mismatch("class_check", {"level": "class", "kind": kind, "method": mname, "cfg": jw.show(cfg)},
                         impl, m_class)
        if jw.to_wire(user) != before:
            ctx.violation("user_dict_mutated", f"{kind}/{mname} constructor changed the caller's dictionary {jw.show(cfg)}",
                          {"level": "class", "kind": kind, "method": mname, "cfg": jw.show(cfg)})
        # (b) inside a minimal pipeline, through check_pipeline_section
        ctx.case(None)
        user = {"pipeline": minimal_pipeline(kind, copy.deepcopy(cfg))}
        before = jw.to_wire(user)
        ok, out, exc = run_pipeline(cc, PandoraMachine, user, monoL, monoR)
        ctx.traces += 1
        ctx.count("pipeline1_accepted" if ok else "pipeline1_rejected_" + exc)
        impl = [1, jw.to_wire(out)] if ok else [0]
        rp = {"level": "pipeline1", "kind": kind, "method": mname, "cfg": jw.show(cfg)}
        if impl != m_pipe:
            ctx.mismatch("pipeline_check", rp, impl, m_pipe)
        if jw.to_wire(user) != before:
            ctx.violation("user_dict_mutated", f"check_pipeline_section changed the user's dictionary for step {jw.show(cfg)}", rp)
        spec_check_step(ctx, kind, mname, cfg, m_spec, ok, out[("pipeline")][kind] if ok else None, [None], [None], rp)
        if ok:
            ok2, out2, _ = run_pipeline(cc, PandoraMachine, copy.deepcopy(out), monoL, monoR)
            if not ok2 or jw.to_wire(out2) != jw.to_wire(out):
                ctx.violation("not_idempotent", f"checking the returned configuration again gives {jw.show(out2)} "
                              f"instead of {jw.show(out)}", rp)
        if what[0] not in ("-",) and len(ctx.samples) < 6 and rng.random() < 0.002:
            ctx.sample({"class": f"{kind}/{mname}", "step_cfg": jw.show(cfg), "accepted": ok,
                        "returned": jw.show(out["pipeline"][kind]) if ok else None})

    # ------------------------------------------------------------------ (c) random whole pipelines
    if replay is None or replay.get("level") in ("pipeline", "machine_history"):
        random_pipelines(ctx, model, cc, PandoraMachine, methods, params, replay)

    # ------------------------------------------------------------------ (e) update_conf itself
    if replay is None or replay.get("level") == "update_conf":
        update_conf_stream(ctx, model, cc, replay)

    # ------------------------------------------------------------------ (f) the band rule on image FILES
    if replay is None or replay.get("level") == "band_files":
        band_files_stream(ctx, cc, PandoraMachine)

    ctx.gen_obligations = ["every generated parameter schema accepts exactly its documented domain (Props/C05.v, re-proved "
                           "on the regenerated Gen/Schemas.v by lia/lra/case analysis)",
                           "defaults of the generated prologues = documented defaults (vm_compute)"]
    ctx.notes.append("observations (not violations): guide vs code on eta upper bound, ambiguity_threshold end points, "
                     "ambiguity_kernel_size parity, 'mc_cnn' spelling, three defaults (O1): see Spec/Domains.v guide_notes")


def band_files_stream(ctx, cc, PandoraMachine):
    """check_conf(user_cfg, machine) as pandora's main calls it: the band rule is decided on the bands the image
    files hold NOW.  One process checks many configurations; the two image paths stay the same while the files are
    rewritten with another band layout between two checks (a product regenerated in place)."""
    import shutil
    import tempfile

    import rasterio

    rng = ctx.rng
    tmp = tempfile.mkdtemp(prefix="c05_bands_")
    paths = {"left": os.path.join(tmp, "left.tif"), "right": os.path.join(tmp, "right.tif")}

    def write(path, bands):
        arr = np.arange(len(bands) * 8 * 12, dtype=np.float32).reshape(len(bands), 8, 12) % 17
        with rasterio.open(path, "w", driver="GTiff", height=8, width=12, count=len(bands), dtype="float32") as dst:
            dst.write(arr)
            for i, b in enumerate(bands, 1):
                if b is not None:
                    dst.set_band_description(i, b)

    layouts = [[None], ["r", "g", "b"], ["r", "g"], ["r", "g", "nir"]]
    on_disk = {}
    history = []
    try:
        for _ in range(24 if ctx.tier == "quick" else 240):
            for side in ("left", "right"):
                if side not in on_disk or rng.random() < 0.5:
                    on_disk[side] = rng.choice(layouts) if side == "left" or rng.random() < 0.3 else on_disk["left"]
                    write(paths[side], on_disk[side])
            band = rng.choice([None, "r", "g", "b", "nir", "zz"])
            mc = {"matching_cost_method": rng.choice(["zncc", "sad", "census"]), "window_size": 3}
            if band is not None:
                mc["band"] = band
            user = {"input": {"left": {"img": paths["left"], "disp": [-2, 2]}, "right": {"img": paths["right"]}},
                    "pipeline": {"matching_cost": mc, "disparity": {"disparity_method": "wta"}}}
            want = band_rule(on_disk["left"], band) and band_rule(on_disk["right"], band)
            try:
                cc.check_conf(copy.deepcopy(user), PandoraMachine())
                got, why = True, None
            except Exception as exc:  # pylint: disable=broad-except
                got, why = False, pu.exc_class(exc)
            history.append({"left_bands": on_disk["left"], "right_bands": on_disk["right"], "band": band, "accepted": got})
            ctx.count("band_file_checks")
            ctx.count("band_file_checks_" + ("accepted" if got else "refused"))
            ctx.traces += 1
            ctx.case(("band_files", tuple(map(str, on_disk["left"])), tuple(map(str, on_disk["right"])), band))
            if got != want:
                ctx.violation("band_rule_on_files_" + ("accepted_outside_domain" if got else "refused_inside_domain"),
                              f"check_conf on image files holding the bands {on_disk['left']} / {on_disk['right']} (paths "
                              f"checked before with other layouts: see history) and matching_cost band {band!r}: "
                              f"{'accepted' if got else 'refused (' + str(why) + ')'}, the band rule "
                              f"{'accepts' if want else 'refuses'} it", {"level": "band_files", "history": history[-6:]})
                break
    finally:
        shutil.rmtree(tmp, ignore_errors=True)


UC_KEYS = ["input", "left", "nodata", "a", "b", "pipeline"]
UC_LEAVES = [1, -9999, 0, 2.5, None, "x", "NaN", "inf", "-inf", "", True, [1, 2], [], ["NaN"], [{"a": "NaN"}], NAN]


def uc_dict(rng, depth):
    """a random nested dictionary over a small key pool (so that the default and the user one collide)"""
    d = {}
    for k in rng.sample(UC_KEYS, rng.randrange(0, 4)):
        r = rng.random()
        if depth > 0 and r < 0.45:
            d[k] = uc_dict(rng, depth - 1)
        elif r < 0.55:
            d[k] = {}
        else:
            d[k] = copy.deepcopy(rng.choice(UC_LEAVES))
    return d


def uc_collisions(ctx, dflt, user):
    for k, v in user.items():
        if k not in dflt:
            ctx.count("uc_new_key")
        elif isinstance(v, dict) and isinstance(dflt[k], dict):
            ctx.count("uc_dict_over_dict")
            uc_collisions(ctx, dflt[k], v)
        elif isinstance(v, dict):
            ctx.count("uc_empty_dict_over_scalar" if not v else "uc_dict_over_scalar")
        elif isinstance(dflt[k], dict):
            ctx.count("uc_scalar_over_dict")
        else:
            ctx.count("uc_scalar_over_scalar")


def uc_kept(user, out):
    """the property sentence 'every user-supplied key keeps its value' (three strings read as floats), at every
    depth: None when it holds, else the path of the first user key that lost its value"""
    if not isinstance(out, dict):
        return "<not a dictionary>"
    for k, v in user.items():
        if k not in out:
            return k
        if isinstance(v, dict):
            sub = uc_kept(v, out[k])
            if sub is not None:
                return k + "." + sub
        elif jw.to_wire(out[k]) != jw.to_wire(conv(v)):
            return k
    return None


def uc_defaults_kept(dflt, user, out):
    """a default the user did not override is still there, in its position (the defaults' keys come first)"""
    if list(out)[:len(dflt)] != list(dflt):
        return "<order>"
    for k, v in dflt.items():
        if k not in user:
            if jw.to_wire(out[k]) != jw.to_wire(v):
                return k
        elif isinstance(v, dict) and isinstance(user[k], dict):
            sub = uc_defaults_kept(v, user[k], out[k])
            if sub is not None:
                return k + "." + sub
    return None


def update_conf_stream(ctx, model, cc, replay):
    """check_configuration.update_conf(default, user) against Model/Json.v update_conf (fid 3) on random nested
    dictionaries, and the property's 'keeps its value' read on the real result"""
    rng = ctx.rng
    if replay is not None:
        cases = [(jw.unshow(replay["default"]), jw.unshow(replay["user"]))]
    else:
        cases = [({"input": {"left": {"nodata": -9999, "mask": None}, "right": {"nodata": -9999, "disp": None}}},
                  {"input": {"left": {"nodata": {}, "img": "l.tif"}, "right": {"disp": {}, "mask": {"a": "NaN"}}}}),
                 ({"a": 1}, {"a": {}}), ({"a": 1}, {"a": {"b": {}}}), ({"a": None}, {"a": {"b": "inf"}}),
                 ({"a": {"b": 1}}, {"a": 5}), ({"a": {"b": 1}}, {"a": {}}), ({}, {"a": {}}), ({"a": [1]}, {"a": {"b": 2}})]
        for _ in range(400 if ctx.tier == "quick" else 8000):
            cases.append((uc_dict(rng, 3), uc_dict(rng, 3)))
    res = model.batch([(3, [jw.to_wire(d), jw.to_wire(u)]) for d, u in cases])
    for (dflt, user), m in zip(cases, res):
        rp = {"level": "update_conf", "default": jw.show(dflt), "user": jw.show(user)}
        d0, u0 = jw.to_wire(dflt), jw.to_wire(user)
        try:
            out = cc.update_conf(dflt, user)
            impl = [1, jw.to_wire(out)]
        except Exception as exc:  # pylint: disable=broad-except
            out = None
            impl = [0]
            ctx.count("uc_raised_" + pu.exc_class(exc))
        ctx.traces += 1
        ctx.case(("uc", json.dumps([d0, u0])) if user else None)
        ctx.count("update_conf_cases")
        uc_collisions(ctx, dflt, user)
        if impl != m:
            ctx.mismatch("update_conf", rp, impl if out is None else [1, jw.show(out)], m)
        if jw.to_wire(dflt) != d0 or jw.to_wire(user) != u0:
            ctx.violation("user_dict_mutated", "update_conf changed one of its arguments", rp)
        if out is None:
            ctx.violation("update_conf_raises", "update_conf raised on two dictionaries: the user's value is neither "
                          "kept nor left to the schema", rp)
            continue
        lost = uc_kept(user, out)
        if lost is not None:
            ctx.violation("update_conf_user_value_not_kept", f"the user's value at {lost} is not in the merged "
                          "configuration (three strings read as floats apart)", rp)
        gone = uc_defaults_kept(dflt, user, out)
        if gone is not None:
            ctx.violation("update_conf_default_lost", f"the default at {gone} was not overridden by the user but is "
                          "not in the merged configuration / not in its position", rp)


def spec_check_step(ctx, kind, mname, cfg, m_spec, ok, returned, bandsL, bandsR, rp):
    """the PROPERTY on the real code's answer for one step: accepted iff documented, completion = user + defaults"""
    if m_spec == [-1]:
        ctx.violation("undocumented_class", f"{kind}/{mname} has no documented parameter table", rp)
        return
    want = bool(m_spec[0])
    full = jw.from_wire(m_spec[1])
    # unknown / missing method: nothing is documented for it -> must be rejected
    mkey = METHOD_KEY[kind]
    if kind == "matching_cost" and want:
        band = full.get("band")
        want = band_rule(bandsL, band) and band_rule(bandsR, band)
    if kind == "filter" and full.get("filter_method") == "bilateral" and full.get("sigma_space") == INF:
        # the guide gives no range for sigma_space; +inf is a float > 0 for the schema but cannot be used
        # (margins = int(3 * sigma_space + 1)): left unspecified by the spec, only compared with the model
        ctx.count("unspecified_infinite_sigma_space")
        return
    if want != ok:
        pname = [k for k in cfg if k != mkey]
        ctx.violation(("accepted_outside_domain." if ok else "refused_inside_domain.") + f"{kind}.{mname}." + "+".join(pname),
                      f"{kind}/{mname} step {jw.show(cfg)}: documented domain says {'accept' if want else 'reject'}, "
                      f"the code {'accepted' if ok else 'rejected'} it", rp)
        return
    if not ok:
        return
    user_conv = {k: conv(v) for k, v in cfg.items()}
    keys_user = list(user_conv)
    if list(returned)[:len(keys_user)] != keys_user or \
            jw.to_wire({k: returned[k] for k in keys_user}) != jw.to_wire(user_conv):
        ctx.violation("user_key_moved_or_changed", f"{kind}/{mname}: user step {jw.show(cfg)} came back as {jw.show(returned)}", rp)
        return
    tail_got = {k: returned[k] for k in list(returned)[len(keys_user):]}
    tail_want = {k: full[k] for k in list(full)[len(keys_user):]}
    for k in list(tail_want):
        if (kind, mname, k) in O1:
            ctx.count("o1_default_not_compared")
            tail_want.pop(k)
            tail_got.pop(k, None)
    if jw.to_wire(dict(sorted(tail_got.items()))) != jw.to_wire(dict(sorted(tail_want.items()))):
        ctx.violation(f"default_differs.{kind}.{mname}", f"{kind}/{mname}: omitted parameters completed as {jw.show(tail_got)}, "
                      f"documented defaults are {jw.show(tail_want)}", rp)


def random_pipelines(ctx, model, cc, PandoraMachine, methods, params, replay):
    rng = ctx.rng
    quick = ctx.tier == "quick"
    by_kind = {}
    for kind, mname, _ in methods:
        by_kind.setdefault(kind, []).append(mname)
    # in-domain / out-of-domain pool values per parameter, from the extracted SPEC
    batch, idx = [], []
    for (kind, mname), ps in params.items():
        for p in ps:
            for j, v in enumerate(POOL):
                batch.append((5, [jw.wire_str(kind), jw.wire_str(mname), jw.wire_str(p), jw.to_wire(conv(v))]))
                idx.append((kind, mname, p, j))
    good, bad = {}, {}
    for (kind, mname, p, j), r in zip(idx, model.batch(batch)):
        (good if r == 1 else bad).setdefault((kind, mname, p), []).append(POOL[j])

    band_sets = [[None], [None], ["r", "g", "b"], ["red", "green", "nir"], ["r", "g"]]

    def step_cfg(kind, bands, p_bad=0.06):
        mname = rng.choice(by_kind[kind])
        cfg = {}
        valid = True
        items = [(METHOD_KEY[kind], mname)]
        for p in params[(kind, mname)]:
            if p == "interpolated_disparity":
                if rng.random() < 0.3:
                    items.append((p, rng.choice(["mc-cnn", "sgm"])))
                continue
            if p == "band":
                if bands != [None] and rng.random() < 0.9:
                    items.append((p, rng.choice(bands)))
                elif rng.random() < 0.1:
                    items.append((p, rng.choice(["r", "x", None, ""])))
                continue
            if rng.random() < 0.5:
                if rng.random() < p_bad and bad.get((kind, mname, p)):
                    items.append((p, rng.choice(bad[(kind, mname, p)])))
                elif good.get((kind, mname, p)):
                    items.append((p, rng.choice(good[(kind, mname, p)])))
        if rng.random() < p_bad / 3:
            items.append(("unknown_parameter", 3))
        rng.shuffle(items)
        for k, v in items:
            cfg[k] = v
        return mname, cfg

    n = 250 if quick else 3000
    cases = []
    for _ in range(n):
        bandsL = rng.choice(band_sets)
        bandsR = bandsL if rng.random() < 0.9 else rng.choice(band_sets)
        srcL = "list" if rng.random() < 0.85 else "grid"
        srcR = "none" if (srcL == "list" or rng.random() < 0.5) else "grid"
        a = [rng.choice(["aggregation", "cost_volume_confidence"]) for _ in range(rng.randrange(0, 3))]
        b = [rng.choice(["filter", "refinement", "validation", "filter", "multiscale"]) for _ in range(rng.randrange(0, 4))]
        kinds = ["matching_cost"] + a + ["disparity"] + b
        used, pipe, meths = set(), {}, []
        for i, k in enumerate(kinds):
            name = k if (k not in used and rng.random() < 0.7) else f"{k}.{i}"
            used.add(k)
            mname, cfg = step_cfg(k, bandsL)
            pipe[name] = cfg
            meths.append((name, k, mname))
        cases.append((bandsL, bandsR, srcL, srcR, {"pipeline": pipe}, meths))
    if replay is not None and replay.get("level") == "pipeline":
        cases = [(replay["bandsL"], replay["bandsR"], replay["srcL"], replay["srcR"], jw.unshow(replay["user"]),
                  [tuple(m) for m in replay["meths"]])]
    elif replay is not None:
        cases = []

    # ---------------------------------------------------------------- (d) one machine, several pipelines
    POOL_NAMES = ["filter", "filter.b", "refinement", "refinement.1", "validation", "validation.v", "filter.2"]
    hists = []
    for _ in range(60 if quick else 600):
        bands = rng.choice(band_sets)
        seq = []
        for _ in range(rng.randrange(2, 5)):
            a = [rng.choice(["aggregation", "cost_volume_confidence"]) for _ in range(rng.randrange(0, 2))]
            post = [nm for nm in POOL_NAMES if rng.random() < 0.45]
            if rng.random() < 0.35:   # a pipeline without validation after (or before) one with validation
                post = [nm for nm in post if not nm.startswith("validation")]
            rng.shuffle(post)
            names = ["matching_cost"] + [f"{k}.{i}" if rng.random() < 0.3 else k for i, k in enumerate(a)] + ["disparity"] + post
            if len(set(names)) != len(names):
                names = list(dict.fromkeys(names))
            pipe, meths = {}, []
            for nm in names:
                k = nm.split(".")[0]
                mname, cfg = step_cfg(k, bands, 0.006)
                pipe[nm] = cfg
                meths.append((nm, k, mname))
            seq.append(({"pipeline": pipe}, meths))
        hists.append((bands, seq))
    # the demonstration of DESIGN O2 (repaired): A then B = A with filter/refinement swapped and renamed
    mcd = [("matching_cost", {"matching_cost_method": "sad"}), ("disparity", {"disparity_method": "wta"})]
    fA = ("filter", {"filter_method": "median"})
    rA = ("refinement", {"refinement_method": "vfit"})
    fB = ("filter.b", {"filter_method": "median", "filter_size": 5})
    vA = ("validation", {"validation_method": "cross_checking_accurate"})

    def fixed(steps):
        return ({"pipeline": {n: dict(c) for n, c in steps}},
                [(n, n.split(".")[0], c[METHOD_KEY[n.split(".")[0]]]) for n, c in steps])
    hists.insert(0, ([None], [fixed(mcd + [fA, rA]), fixed(mcd + [rA, fB])]))
    hists.insert(1, ([None], [fixed(mcd + [fA, vA, rA]), fixed(mcd + [rA, fA]), fixed(mcd + [vA])]))
    if replay is not None and replay.get("level") == "machine_history":
        hists = [(replay["bands"], [(jw.unshow(u), [tuple(m) for m in ms]) for u, ms in zip(replay["users"], replay["meths"])])]
    elif replay is not None:
        hists = []
    hbatch = []
    for bands, seq in hists:
        for user, meths in seq:
            hbatch.append((6, [images_wire(bands, bands, "list", "none"), jw.to_wire(user)]))
            for name, k, mname in meths:
                hbatch.append((7, [jw.wire_str(k), jw.wire_str(mname),
                                   jw.to_wire({kk: conv(v) for kk, v in user["pipeline"][name].items()})]))
    hres = model.batch(hbatch) if hbatch else []
    hpos = 0
    for bands, seq in hists:
        metaL, metaR = meta(bands, "list"), meta(bands, "none")
        machine = PandoraMachine()          # ONE object for the whole sequence
        rp = {"level": "machine_history", "bands": bands, "users": [jw.show(u) for u, _ in seq],
              "meths": [[list(m) for m in ms] for _, ms in seq]}
        ctx.case(("machine_history", repr(rp["users"]), tuple(map(str, bands))))
        ctx.count("machine_histories")
        if len(ctx.samples) < 14:
            ctx.sample({"machine_history": [list(u["pipeline"]) for u, _ in seq], "bands": bands})
        for idx_call, (user, meths) in enumerate(seq):
            m_pipe = hres[hpos]
            specs = hres[hpos + 1: hpos + 1 + len(meths)]
            hpos += 1 + len(meths)
            mine = copy.deepcopy(user)
            before = jw.to_wire(mine)
            try:
                out = cc.check_pipeline_section(mine, metaL, metaR, machine)
                ok = True
            except Exception as exc:  # pylint: disable=broad-except
                ok, out = False, None
                ctx.count("machine_history_rejected_" + pu.exc_class(exc))
            ctx.traces += 1
            ctx.count("machine_history_checks")
            rpi = dict(rp, call=idx_call)
            impl = [1, jw.to_wire(out)] if ok else [0]
            # the property first (so that a concrete violation names its class), then the correspondence
            if ok:
                got_steps, want_steps = list(out["pipeline"]), list(user["pipeline"])
                stale = [st for st in got_steps if st not in want_steps]
                if stale:
                    ctx.violation("machine_history_stale_step",
                                  f"call {idx_call} on one machine: user steps {want_steps} came back as {got_steps}: "
                                  f"{stale} were not given by the user (left by the pipelines {rp['users'][:idx_call]} "
                                  f"checked before on the same machine object)", rpi)
                elif got_steps != want_steps:
                    ctx.violation("machine_history_step_order",
                                  f"call {idx_call} on one machine: user steps {want_steps} came back as {got_steps}", rpi)
                else:
                    for (name, k, mname), sp in zip(meths, specs):
                        if sp != [-1] and bool(sp[0]):
                            spec_check_step(ctx, k, mname, user["pipeline"][name], sp, True, out["pipeline"][name],
                                            bands, bands, rpi)
            if impl != m_pipe:
                if ok and m_pipe == [0] or (not ok and m_pipe != [0]):
                    ctx.violation("machine_history_accept_differs",
                                  f"call {idx_call}: pipeline {list(user['pipeline'])} is "
                                  f"{'accepted' if m_pipe != [0] else 'refused'} on a fresh machine but "
                                  f"{'accepted' if ok else 'refused'} after {rp['users'][:idx_call]} on the same object", rpi)
                ctx.mismatch("pipeline_check_machine_history", rpi, impl, m_pipe)
            if jw.to_wire(mine) != before:
                ctx.violation("user_dict_mutated", "check_pipeline_section changed the user's dictionary", rpi)
            if not ok:
                # a refused check leaves the machine dirty (C01: outside 'successfully'): next sequence
                for _, ms in seq[idx_call + 1:]:
                    hpos += 1 + len(ms)
                break
    if replay is not None and replay.get("level") == "machine_history":
        return

    batch = []
    for bandsL, bandsR, srcL, srcR, user, meths in cases:
        batch.append((6, [images_wire(bandsL, bandsR, srcL, srcR), jw.to_wire(user)]))
        for name, k, mname in meths:
            batch.append((7, [jw.wire_str(k), jw.wire_str(mname),
                              jw.to_wire({kk: conv(v) for kk, v in user["pipeline"][name].items()})]))
    res = model.batch(batch)
    pos = 0
    for bandsL, bandsR, srcL, srcR, user, meths in cases:
        m_pipe = res[pos]
        specs = res[pos + 1: pos + 1 + len(meths)]
        pos += 1 + len(meths)
        metaL, metaR = meta(bandsL, srcL), meta(bandsR, srcR)
        mine = copy.deepcopy(user)
        before = jw.to_wire(mine)
        ok, out, exc = run_pipeline(cc, PandoraMachine, mine, metaL, metaR)
        ctx.traces += 1
        ctx.case(("pipeline", repr(jw.show(user)), tuple(map(str, bandsL)), srcL, srcR))
        ctx.count("pipelines_accepted" if ok else "pipelines_rejected_" + exc)
        ctx.count(f"pipelines_bands_{len(bandsL)}_{srcL}_{srcR}")
        rp = {"level": "pipeline", "bandsL": bandsL, "bandsR": bandsR, "srcL": srcL, "srcR": srcR,
              "user": jw.show(user), "meths": [list(m) for m in meths]}
        impl = [1, jw.to_wire(out)] if ok else [0]
        if impl != m_pipe:
            ctx.mismatch("pipeline_check", rp, impl, m_pipe)
        if jw.to_wire(mine) != before:
            ctx.violation("user_dict_mutated", "check_pipeline_section changed the user's dictionary", rp)
        if len(meths) >= 5:
            ctx.sample({"pipeline": jw.show(user["pipeline"]), "bands": bandsL, "disparity_sources": [srcL, srcR],
                        "accepted": ok}, limit=8)
        # spec: the pipeline is acceptable iff every step is (and the image-dependent rules hold)
        all_ok = True
        for (name, k, mname), sp in zip(meths, specs):
            want = sp != [-1] and bool(sp[0])
            if want and k == "matching_cost":
                band = jw.from_wire(sp[1]).get("band")
                want = band_rule(bandsL, band) and band_rule(bandsR, band)
            if want and k == "multiscale" and "grid" in (srcL, srcR):
                want = False   # guide: multiscale processing does not accept disparity grids
            if want and k == "validation" and srcL == "grid" and srcR == "none":
                want = False   # guide: cross-checking needs right grids when the left disparity is a grid
            all_ok = all_ok and want
        if any(c.get("filter_method") == "bilateral" and conv(c.get("sigma_space")) == INF for c in user["pipeline"].values()):
            ctx.count("unspecified_infinite_sigma_space")
        elif all_ok != ok:
            ctx.violation("pipeline_accepted_outside_domain" if ok else "pipeline_refused_inside_domain",
                          f"pipeline {jw.show(user['pipeline'])} on bands {bandsL}/{bandsR}, sources {srcL}/{srcR}: every step "
                          f"{'is' if all_ok else 'is not'} inside its documented domain but the code "
                          f"{'accepted' if ok else 'rejected'} it", rp)
        elif ok:
            if list(out["pipeline"]) != list(user["pipeline"]):
                ctx.violation("step_order_changed", f"steps {list(user['pipeline'])} came back as {list(out['pipeline'])}", rp)
            for (name, k, mname), sp in zip(meths, specs):
                spec_check_step(ctx, k, mname, user["pipeline"][name], sp, True, out["pipeline"][name], bandsL, bandsR, rp)
            ok2, out2, _ = run_pipeline(cc, PandoraMachine, copy.deepcopy(out), metaL, metaR)
            if not ok2 or jw.to_wire(out2) != jw.to_wire(out):
                ctx.violation("not_idempotent", "checking the returned configuration again does not return it unchanged", rp)
