"""C17 -- malformed inputs are refused up front; well-formed inputs never are.

T-gen : Gen/Schemas.v (input schemas, default_short_configuration_input; translator gen_schemas)
        and Gen/InputFlow.v (mandatory attribute set, `images` list, call lists of main /
        check_conf; translator gen_inputs).  Per-run obligations in Props/C17.v.
        and Gen/CheckFns.v (the nine small check functions of check_configuration.py and the custom-checking tail of check_input_section
        translated statement by statement over Model/CheckPrims.v; translator gen_check_fns; generated = model proved for all inputs in
        Proofs/CheckGenP.v, headline theorems restated on the generated functions in Props/C17.v).
T-corr: Model/DatasetCheck.v (fid 1) against the real check_configuration.check_datasets on
        in-memory xarray datasets; Model/InputCheck.v (fid 2) against the real
        check_configuration.check_input_section on rasters written by the harness (outcome, class
        of the exception, returned configuration with key order).
Spec  : datasets -- an independent Python statement of the property sentence evaluated on the
        REAL xarray objects; input sections -- Spec/WellFormed.v documented_b (extracted, fid 3)
        on the configuration the real code returned / on the documented completion of the user
        section.  A few sections also go through the real pandora.main with pandora.run spied:
        refusal must come before run is called."""
import copy
import json
import math
import os
import shutil
import tempfile
from fractions import Fraction

import numpy as np
import xarray as xr

from harness import core, jsonwire

GEN = ["gen_schemas", "gen_inputs", "gen_check_fns"]
EXTRACT_FILES = ["X17"]
DRIVERS = ["x17"]
RULE = ("dataset stream: a case = a left/right pair of in-memory xarray datasets described by (image shape 1..5 x "
        "1..6, 1..3 bands or none, fill ramp / some NaN / all NaN / integer dtype / empty; band names str or not; "
        "disparity variable absent or with any label list, with/without band_disp coordinate, on the image grid or "
        "on other dimensions, with min>max or NaN at chosen pixels; other variables on the grid, 3-D on the grid, on "
        "other dimensions of the same or another size, 1-D, scalar; any subset of the five attributes plus extras); "
        "five well-formed base classes x every single violation on either side x random pairs/triples of violations. "
        "input stream: a case = a JSON-like user section checked against 20 rasters written by the harness (sizes, "
        "band counts, min>max grid, junk file, missing path, directory): three base forms (interval, left grid, "
        "left+right grids) x optional keys x every single violation (each key x each JSON type, list lengths 0..4, "
        "wrong sizes, unreadable paths, extra/missing keys, non-dict levels) x random pairs of violations.  "
        "Non-trivial = refused, or accepted with at least one optional key / grid; distinct by content digest")
ASSUMES = [
    "file-system facts are an oracle: whether rasterio opens a path, its width/height/band count and whether band 1 "
    "exceeds band 2 somewhere are read by the harness with its own rasterio calls and given to the model as data; "
    "the file system does not change during a check",
    "json-checker 2.0.0 semantics (And / Or type filter / list rule / dict rule / FunctionChecker catching TypeError "
    "and ValueError) is the hand-written Model/Checker.v shared with C05, validated by this correspondence",
    "a dataset is abstracted to what the checking functions read (shapes, NaN pattern, band-name types, disparity "
    "labels/values, variable shapes, attribute names); xarray Dataset semantics ('in', coords, .sel on distinct "
    "labels, shared dimension sizes) is not modelled beyond that; band_disp labels are distinct",
    "disparity bounds are numbers for the strict reading 'min <= max everywhere'; a NaN bound is not refused by the "
    "code (numpy comparison) -- theorem C17_check_datasets_iff_wellformed states exactly that",
    "JSON booleans inside the interval form ([true, 3]) are outside the property's vocabulary (isinstance(True, int) "
    "makes the [int, int] schema accept them); excluded by the guard interval_bool_free and skipped by the spec check",
    "a dataset is a mapping (py_dataset): its variable names are unique and only the image / disparity variables are "
    "called 'im' / 'disparity' -- the hypothesis of the equalities generated = model on datasets; a raster file is its "
    "width, height and the samples of every band (rfile), of which the model's file oracle is the abstraction finfo_of",
    "user dictionaries have distinct keys (Python dict); paths named 'NaN', 'inf', '-inf' are converted by "
    "update_conf before the check and therefore refused",
]
TRUSTED = ["translator/gen_schemas.py and translator/gen_inputs.py (Gen/Schemas.v, Gen/InputFlow.v)",
           "translator/gen_check_fns.py (Gen/CheckFns.v) and the primitives of coq/Model/CheckPrims.v it translates into "
           "(xarray Dataset as a name -> variable mapping, .coords / .sel on the band_disp index, numpy isnan / all / any / "
           "elementwise >, Python len / [] / < / in on configuration values, rasterio width / height / count / read(k))",
           "harness/jsonwire.py (JSON <-> wire), the dataset abstraction function of harness/props/c17.py"]

FIVE = ["no_data_img", "valid_pixels", "no_data_mask", "crs", "transform"]
EXC_CODES = {"AttributeError": 1, "TypeError": 2, "ValueError": 3, "KeyError": 4, "IndexError": 5}


def exc_code(exc):
    n = type(exc).__name__
    if n in EXC_CODES:
        return EXC_CODES[n]
    mod = type(exc).__module__ or ""
    if mod.startswith("json_checker"):
        return 6
    if mod.startswith("rasterio"):
        return 7
    return "other:" + n


# =============================================================================== datasets


def q_of_float(x):
    x = float(x)
    if math.isnan(x):
        return None
    return Fraction(*x.as_integer_ratio())


def build_dataset(desc):
    """desc (JSON-able) -> (xarray.Dataset, wire encoding for the model)"""
    rows, cols = desc["grid"]
    coords = {"row": np.arange(rows), "col": np.arange(cols)}
    data_vars = {}
    order = desc.get("order", ["im", "disparity", "vars"])
    w_im, w_band, w_disp, w_vars = [], [], [], []
    im = desc.get("im")
    if im is not None:
        bands = im["bands"]
        nb = 1 if bands is None else len(bands)
        n = nb * rows * cols
        if im["fill"] == "int":
            arr = (np.arange(n, dtype=np.int32) % 7) - 3
        else:
            arr = (np.arange(n, dtype=np.float32) % 11) / 4 - 1
            if im["fill"] == "allnan":
                arr[:] = np.nan
            elif im["fill"] == "somenan":
                arr[::2] = np.nan
            elif im["fill"] == "onenumber":
                arr[:] = np.nan
                if n:
                    arr[n // 2] = 2.5
        if bands is None:
            arr = arr.reshape(rows, cols)
            data_vars["im"] = (["row", "col"], arr)
        else:
            arr = arr.reshape(nb, rows, cols)
            data_vars["im"] = (["band_im", "row", "col"], arr)
            if all(isinstance(b, str) for b in bands) and not im.get("object_names"):
                coords["band_im"] = np.array(bands, dtype=str) if bands else np.array([], dtype=str)
            else:
                coords["band_im"] = np.array(bands, dtype=object)
        w_im = [list(arr.shape), [q_of_float(v) for v in arr.reshape(-1)]]
    elif desc.get("band_coord_without_im") is not None:
        coords["band_im"] = np.array(desc["band_coord_without_im"], dtype=object)
    if "band_im" in coords:
        w_band = [[1 if isinstance(b, str) else 0 for b in list(coords["band_im"])]]
    disp = desc.get("disp")
    disp_da = None
    if disp is not None:
        labels = disp["labels"]
        nl = len(labels)
        if disp["dims"] == "grid":
            dr, dc, dims = rows, cols, ["band_disp", "row", "col"]
        else:
            dr, dc = disp["shape"]
            dims = ["band_disp", "y_d", "x_d"]
        arr = np.zeros((nl, dr, dc), dtype=np.float32)
        for k, lab in enumerate(labels):
            arr[k] = disp["hi"] if lab == "max" else (disp["lo"] if lab == "min" else 7.0 + k)
        imin = labels.index("min") if "min" in labels else None
        for (i, j) in disp.get("bad", []):
            if imin is not None and i < dr and j < dc:
                arr[imin, i, j] = disp["hi"] + 1.5
        for (k, i, j) in disp.get("nan", []):
            if k < nl and i < dr and j < dc:
                arr[k, i, j] = np.nan
        if disp["coord"]:
            disp_da = xr.DataArray(arr, dims=dims, coords={"band_disp": np.array(labels, dtype=str)})
        else:
            disp_da = xr.DataArray(arr, dims=dims)
        codes = [0 if lab == "min" else 1 if lab == "max" else 2 + k for k, lab in enumerate(labels)]
        pixels = [[q_of_float(arr[k, i, j]) for k in range(nl)] for i in range(dr) for j in range(dc)]
        w_disp = [[list(arr.shape), 1 if disp["coord"] else 0, codes, pixels]]
    extra = {}
    for v in desc.get("vars", []):
        kind = v["kind"]
        if kind == "rc":
            da = xr.DataArray(np.zeros((rows, cols), dtype=np.int16), dims=["row", "col"])
        elif kind == "brc":
            da = xr.DataArray(np.zeros((v["n"], rows, cols), dtype=np.int16), dims=["band_" + v["name"], "row", "col"])
        elif kind == "yx":
            da = xr.DataArray(np.zeros(tuple(v["shape"]), dtype=np.int16), dims=["y_" + v["name"], "x_" + v["name"]])
        elif kind == "cr":
            da = xr.DataArray(np.zeros((cols, rows), dtype=np.int16), dims=["col", "row"])
        elif kind == "col":
            da = xr.DataArray(np.zeros((cols,), dtype=np.int16), dims=["col"])
        elif kind == "scalar":
            da = xr.DataArray(np.int16(3))
        else:
            raise ValueError(kind)
        extra[v["name"]] = da
        w_vars.append([jsonwire.wire_str(v["name"]), list(da.shape)])
    ds = xr.Dataset(data_vars, coords=coords)
    for part in order:
        if part == "disparity" and disp_da is not None:
            ds["disparity"] = disp_da
        elif part == "vars":
            for name, da in extra.items():
                ds[name] = da
    ds.attrs = {a: 0 for a in desc["attrs"]}
    if "disparity_source" in ds.attrs and desc.get("source") is not None:
        # what add_disparity records: the interval as given (a list / tuple) or the path of the grid file; it is
        # information, the check reads the disparity DATA
        src = desc["source"]
        ds.attrs["disparity_source"] = tuple(src["value"]) if src.get("tuple") else src["value"]
    wire = [w_im, w_band, w_disp[0] if w_disp else [], w_vars, [jsonwire.wire_str(a) for a in desc["attrs"]]]
    # the model's option encoding: () for None, ((..)) handled by the decoders
    wire[0] = w_im if w_im else []
    wire[1] = w_band if w_band else []
    return ds, wire


def spec_dataset(ds, strict):
    """the property sentence on ONE real dataset (independent of the model and of the code)"""
    if "im" not in ds.data_vars:
        return False, "no_image"
    im = ds["im"].values
    if not (~np.isnan(im.astype(float))).any():
        return False, "image_all_nan"
    if "band_im" in ds.coords and not all(isinstance(b, str) for b in ds.coords["band_im"].values.tolist()):
        return False, "band_name_not_str"
    grid = tuple(im.shape[-2:])
    for name in ds.data_vars:
        if name != "im" and tuple(ds[name].values.shape[-2:]) != grid:
            return False, "variable_off_grid"
    if not set(FIVE) <= set(ds.attrs):
        return False, "attribute_missing"
    if "disparity" in ds.data_vars:
        d = ds["disparity"]
        if "band_disp" not in d.coords:
            return False, "disparity_without_bands"
        labels = [str(x) for x in d.coords["band_disp"].values.tolist()]
        if "min" not in labels or "max" not in labels:
            return False, "disparity_without_min_max"
        lo = d.values[labels.index("min")].astype(float)
        hi = d.values[labels.index("max")].astype(float)
        both = ~np.isnan(lo) & ~np.isnan(hi)
        if (lo[both] > hi[both]).any():
            return False, "disparity_min_gt_max"
        if strict and not both.all():
            return False, "disparity_nan"
    return True, None


def spec_pair(left, right, strict=False):
    ok, why = spec_dataset(left, strict)
    if not ok:
        return False, "left_" + why
    ok, why = spec_dataset(right, strict)
    if not ok:
        return False, "right_" + why
    if "disparity" not in left.data_vars:
        return False, "left_without_disparity"
    if tuple(left["im"].values.shape[-2:]) != tuple(right["im"].values.shape[-2:]):
        return False, "images_of_different_size"
    return True, None


def base_dataset(rng, cls, grid):
    rows, cols = grid
    d = {"grid": [rows, cols], "im": {"bands": None, "fill": "ramp"},
         "disp": {"labels": ["min", "max"], "coord": True, "dims": "grid", "lo": -2.0, "hi": 2.0},
         "vars": [], "attrs": list(FIVE)}
    if cls == "multiband":
        d["im"]["bands"] = rng.choice([["r", "g", "b"], ["red", "nir"], ["p"]])
        # string names held in an object-typed coordinate (pandas Index, netCDF read-back ...) are string names
        d["im"]["object_names"] = rng.random() < 0.4
    elif cls == "grids":
        d["disp"]["labels"] = rng.choice([["min", "max"], ["max", "min"], ["min", "max", "other"], ["x", "max", "min"]])
        d["disp"]["lo"], d["disp"]["hi"] = rng.choice([(-3.0, 1.5), (0.0, 0.0), (-1.25, 4.0)])
    elif cls == "vars":
        d["vars"] = [{"name": "msk", "kind": "rc"}, {"name": "classif", "kind": "brc", "n": 2},
                     {"name": "segm", "kind": "rc"}][: rng.randrange(1, 4)]
        d["attrs"] = list(FIVE) + ["disparity_source"]
    if rng.random() < 0.3:
        d["im"]["fill"] = rng.choice(["somenan", "int", "onenumber"])
    if rng.random() < 0.55:
        if "disparity_source" not in d["attrs"]:
            d["attrs"].append("disparity_source")
        d["source"] = rng.choice([{"value": [-2, 2]}, {"value": [-2, 2], "tuple": True}, {"value": [-3, 4]},
                                  {"value": "grids/disp_left.tif"}, {"value": [2, -2]}, {"value": [0, 0]}])
    rng.shuffle(d["attrs"])
    return d


DS_VIOLATIONS = ["no_im", "all_nan", "empty", "band_int", "band_none", "no_coord", "no_min", "no_max", "no_minmax",
                 "min_gt_max", "disp_off_grid", "var_yx_other", "var_1d", "var_scalar", "var_transposed",
                 "attr_missing", "attr_two_missing", "no_attrs"]
DS_BENIGN = ["nan_bound", "var_yx_same", "extra_attr", "extra_label", "int_image"]


def apply_ds_violation(rng, d, v):
    rows, cols = d["grid"]
    if v == "no_im":
        if d["im"] is not None and d["im"]["bands"] is not None and rng.random() < 0.5:
            d["band_coord_without_im"] = d["im"]["bands"]
        d["im"] = None
    elif v == "all_nan" and d["im"]:
        d["im"]["fill"] = "allnan"
    elif v == "empty":
        d["grid"] = [0, cols] if rng.random() < 0.5 else [rows, 0]
    elif v == "band_int" and d["im"]:
        d["im"]["bands"] = ["r", 1] if rng.random() < 0.5 else [2]
    elif v == "band_none" and d["im"]:
        d["im"]["bands"] = [None]
    elif v == "no_coord" and d["disp"]:
        d["disp"]["coord"] = False
    elif v == "no_min" and d["disp"]:
        d["disp"]["labels"] = ["lo", "max"]
    elif v == "no_max" and d["disp"]:
        d["disp"]["labels"] = ["min"]
    elif v == "no_minmax" and d["disp"]:
        d["disp"]["labels"] = rng.choice([[], ["a", "b"]])
    elif v == "min_gt_max" and d["disp"]:
        if rng.random() < 0.4:
            d["disp"]["lo"], d["disp"]["hi"] = 3.0, 2.0
        else:
            d["disp"]["bad"] = [[rng.randrange(max(rows, 1)), rng.randrange(max(cols, 1))]]
    elif v == "disp_off_grid" and d["disp"]:
        d["disp"]["dims"] = "other"
        d["disp"]["shape"] = [rows + 1, cols] if rng.random() < 0.5 else [rows, cols + 2]
    elif v == "var_yx_other":
        d["vars"].append({"name": "msk2", "kind": "yx", "shape": [rows, cols + 1] if rng.random() < 0.5 else [rows + 2, cols]})
    elif v == "var_1d":
        d["vars"].append({"name": "line", "kind": "col"})
    elif v == "var_scalar":
        d["vars"].append({"name": "s", "kind": "scalar"})
    elif v == "var_transposed":
        d["vars"].append({"name": "t", "kind": "cr"})     # a violation only when rows != cols
    elif v == "attr_missing":
        a = rng.choice(FIVE)
        d["attrs"] = [x for x in d["attrs"] if x != a]
    elif v == "attr_two_missing":
        gone = rng.sample(FIVE, 2)
        d["attrs"] = [x for x in d["attrs"] if x not in gone]
    elif v == "no_attrs":
        d["attrs"] = [a for a in d["attrs"] if a not in FIVE]
    elif v == "nan_bound" and d["disp"]:
        d["disp"]["nan"] = [[rng.randrange(len(d["disp"]["labels"]) or 1), 0, 0]]
    elif v == "var_yx_same":
        d["vars"].append({"name": "other", "kind": "yx", "shape": [rows, cols]})
    elif v == "extra_attr":
        d["attrs"].append("foo")
    elif v == "extra_label" and d["disp"]:
        d["disp"]["labels"] = d["disp"]["labels"] + ["zzz"]
    elif v == "int_image" and d["im"]:
        d["im"]["fill"] = "int"
    return d


def gen_dataset_cases(rng, n_random):
    cases = []
    classes = ["mono", "multiband", "grids", "nodisp_right", "vars"]

    def pair(cls):
        grid = [rng.randrange(1, 6), rng.randrange(1, 7)]
        left = base_dataset(rng, cls, grid)
        right = base_dataset(rng, cls if cls != "nodisp_right" else "mono", grid)
        if cls == "nodisp_right" or rng.random() < 0.3:
            right["disp"] = None
        return left, right

    for cls in classes:
        left, right = pair(cls)
        cases.append({"kind": "base-" + cls, "left": left, "right": right})
        for v in DS_VIOLATIONS + DS_BENIGN:
            for side in ("left", "right"):
                left, right = pair(cls)
                tgt = left if side == "left" else right
                if side == "right" and tgt["disp"] is None and v in ("no_coord", "no_min", "no_max", "no_minmax",
                                                                      "min_gt_max", "disp_off_grid", "nan_bound",
                                                                      "extra_label"):
                    tgt["disp"] = {"labels": ["min", "max"], "coord": True, "dims": "grid", "lo": -2.0, "hi": 2.0}
                apply_ds_violation(rng, tgt, v)
                cases.append({"kind": f"single-{v}", "left": left, "right": right})
    # left without disparity, images of different size
    for cls in classes:
        left, right = pair(cls)
        left["disp"] = None
        cases.append({"kind": "single-left_no_disp", "left": left, "right": right})
        left, right = pair(cls)
        right["grid"] = [left["grid"][0] + rng.choice([0, 1]), left["grid"][1] + 1]
        cases.append({"kind": "single-size", "left": left, "right": right})
    for _ in range(n_random):
        cls = rng.choice(classes)
        left, right = pair(cls)
        k = rng.choice([2, 2, 3])
        for v in rng.sample(DS_VIOLATIONS + DS_BENIGN, k):
            apply_ds_violation(rng, left if rng.random() < 0.5 else right, v)
        if rng.random() < 0.15:
            left["disp"] = None
        if rng.random() < 0.15:
            right["grid"] = [right["grid"][0], right["grid"][1] + 1]
        if rng.random() < 0.2:
            left["order"] = rng.choice([["vars", "disparity"], ["disparity", "vars"]])
        cases.append({"kind": "combined", "left": left, "right": right})
    return cases


def run_datasets(ctx, model, cases):
    from pandora import check_configuration as cc

    built = []
    margs = []
    for cs in cases:
        left, wl = build_dataset(cs["left"])
        right, wr = build_dataset(cs["right"])
        built.append((left, right))
        margs.append((1, [wl, wr]))
    mres = model.batch(margs)
    for cs, (left, right), m in zip(cases, built, mres):
        ctx.count("dataset_" + cs["kind"].split("-")[0])
        try:
            cc.check_datasets(left, right)
            impl = [0]
        except Exception as exc:  # pylint: disable=broad-except
            impl = [1, exc_code(exc)]
        ctx.traces += 1
        replay = {"stream": "dataset", "case": cs}
        if impl != m:
            ctx.mismatch("check_datasets", replay, impl, m)
        ok, why = spec_pair(left, right)
        digest = json.dumps(cs, sort_keys=True, default=str)
        ctx.case(("ds", hash(digest)) if impl != [0] or cs["left"]["vars"] or cs["kind"] != "base-mono" else None)
        if ok and impl != [0]:
            ctx.violation("wellformed_datasets_refused", f"check_datasets raised (class {impl[1]}) on a well-formed pair "
                          f"({cs['kind']})", replay)
        if not ok and impl == [0]:
            ctx.violation("malformed_datasets_accepted." + why, f"check_datasets accepted a pair violating the contract "
                          f"({why}; {cs['kind']})", replay)
        ctx.count("dataset_accepted" if impl == [0] else "dataset_refused")
        if impl == [0] or cs["kind"].startswith("single-min_gt_max"):
            ctx.sample({"stream": "dataset", "kind": cs["kind"], "impl": impl, "model": m, "spec": [ok, why]}, limit=4)


# =============================================================================== input sections


class Files:
    """rasters written once per run; file-system facts read back with independent rasterio calls"""

    def __init__(self):
        import rasterio

        self.dir = tempfile.mkdtemp(prefix="c17_")
        self.rio = rasterio
        self.facts = {}
        r, c = 4, 5
        ramp = np.arange(r * c, dtype=np.float32).reshape(r, c)
        self.p = {}
        self.write("l.tif", ramp)
        self.write("r.tif", ramp + 1)
        self.write("l3.tif", np.stack([ramp, ramp + 1, ramp + 2]))
        self.write("r3.tif", np.stack([ramp, ramp + 1, ramp + 2]))
        self.write("r_wide.tif", np.zeros((r, c + 1), dtype=np.float32))
        self.write("r_tall.tif", np.zeros((r + 2, c), dtype=np.float32))
        self.write("g_ok.tif", np.stack([np.full((r, c), -2.0), np.full((r, c), 2.0)]))
        g = np.stack([np.full((r, c), -2.0), np.full((r, c), 2.0)])
        g[0, 2, 3] = 5.0
        self.write("g_bad.tif", g)
        self.write("g_eq.tif", np.stack([np.full((r, c), 1.0), np.full((r, c), 1.0)]))
        # grids stored in small integer types: well-formed when min <= max as NUMBERS, whatever the sample type does
        # to their difference (int8: 100 - (-100) wraps; uint8/uint16: a difference is never negative)
        self.write("g_i8.tif", np.stack([np.full((r, c), -100), np.full((r, c), 100)]), dtype="int8")
        gu = np.stack([np.full((r, c), 3), np.full((r, c), 9)])
        gu[0, 1, 2] = 200
        self.write("g_u8_bad.tif", gu, dtype="uint8")
        self.write("g_u16_bad.tif", np.stack([np.full((r, c), 40000), np.full((r, c), 7)]), dtype="uint16")
        self.write("g_1.tif", np.full((r, c), 1.0))
        self.write("g_3.tif", np.stack([np.full((r, c), -1.0), np.full((r, c), 1.0), np.full((r, c), 2.0)]))
        self.write("g_wide.tif", np.stack([np.full((r, c + 1), -2.0), np.full((r, c + 1), 2.0)]))
        self.write("g_right.tif", np.stack([np.full((r, c), -2.0), np.full((r, c), 2.0)]))
        self.write("m_ok.tif", np.zeros((r, c)), dtype="int16")
        self.write("m_small.tif", np.zeros((r - 1, c)), dtype="int16")
        self.write("m_wide.tif", np.zeros((r, c + 1)), dtype="int16")
        self.write("c_ok.tif", np.zeros((2, r, c)), dtype="int16")
        self.write("s_ok.tif", np.ones((r, c)), dtype="int16")
        with open(os.path.join(self.dir, "junk.tif"), "w") as f:
            f.write("this is not a raster\n")
        self.p["junk.tif"] = os.path.join(self.dir, "junk.tif")
        self.p["missing.tif"] = os.path.join(self.dir, "missing.tif")
        os.makedirs(os.path.join(self.dir, "adir"))
        self.p["adir"] = os.path.join(self.dir, "adir")
        self.p["none"] = "none"
        self.p["empty"] = ""

    def write(self, name, arr, dtype="float32"):
        arr = np.asarray(arr, dtype=dtype)
        if arr.ndim == 2:
            arr = arr[None]
        path = os.path.join(self.dir, name)
        with self.rio.open(path, "w", driver="GTiff", height=arr.shape[1], width=arr.shape[2], count=arr.shape[0],
                           dtype=dtype) as f:
            f.write(arr)
        self.p[name] = path

    def fact(self, path):
        """None when rasterio cannot open the path, else (w, h, count, band1 > band2 somewhere)"""
        if path not in self.facts:
            try:
                with self.rio.open(path) as f:
                    gt = bool((f.read(1) > f.read(2)).any()) if f.count >= 2 else False
                    self.facts[path] = (f.width, f.height, f.count, gt)
            except Exception:  # pylint: disable=broad-except
                self.facts[path] = None
        return self.facts[path]

    def table(self, value):
        """file-system table (wire) for every string occurring in a JSON value"""
        names = set()

        def walk(v):
            if isinstance(v, str):
                names.add(v)
            elif isinstance(v, dict):
                for x in v.values():
                    walk(x)
            elif isinstance(v, list):
                for x in v:
                    walk(x)

        walk(value)
        names.add("none")
        out = []
        for s in sorted(names):
            if any(ord(ch) < 1 or ord(ch) > 126 for ch in s):
                continue
            f = self.fact(s) if s else None
            out.append([jsonwire.wire_str(s)] + ([[f[0], f[1], f[2], 1 if f[3] else 0]] if f else []))
        return out

    def sym(self, v):
        """replay form: the scratch directory written as <FILES> (it changes from run to run)"""
        if isinstance(v, str):
            return v.replace(self.dir, "<FILES>")
        if isinstance(v, dict):
            return {k: self.sym(x) for k, x in v.items()}
        if isinstance(v, list):
            return [self.sym(x) for x in v]
        return v

    def unsym(self, v):
        if isinstance(v, str):
            return v.replace("<FILES>", self.dir)
        if isinstance(v, dict):
            return {k: self.unsym(x) for k, x in v.items()}
        if isinstance(v, list):
            return [self.unsym(x) for x in v]
        return v

    def close(self):
        shutil.rmtree(self.dir, ignore_errors=True)


NAN = float("nan")


def base_input(files, form, rng, optional=True):
    p = files.p
    multiband = rng.random() < 0.25
    left = {"img": p["l3.tif" if multiband else "l.tif"]}
    right = {"img": p["r3.tif" if multiband else "r.tif"]}
    if form == "interval":
        left["disp"] = rng.choice([[-2, 2], [0, 0], [-60, -3], [1, 10]])
    elif form == "grid":
        left["disp"] = p[rng.choice(["g_ok.tif", "g_eq.tif", "g_i8.tif"])]
    else:
        left["disp"] = p["g_ok.tif"]
        right["disp"] = p[rng.choice(["g_right.tif", "g_eq.tif"])]
    if optional:
        for side in (left, right):
            if rng.random() < 0.4:
                side["nodata"] = rng.choice([0, -9999, 255, "NaN", NAN])
            if rng.random() < 0.3:
                side["mask"] = rng.choice([p["m_ok.tif"], None])
            if rng.random() < 0.2:
                side["classif"] = rng.choice([p["c_ok.tif"], None])
            if rng.random() < 0.2:
                side["segm"] = rng.choice([p["s_ok.tif"], None])
        if form != "gridgrid" and rng.random() < 0.2:
            right["disp"] = None
    items = list(left.items())
    rng.shuffle(items)
    return {"left": dict(items), "right": right} if rng.random() < 0.8 else {"right": right, "left": dict(items)}


def json_oddities(files):
    p = files.p
    return [None, True, False, 0, 7, -3, 2.5, 1.0, NAN, float("inf"), "NaN", "inf", "", "abc", "none", p["missing.tif"],
            p["junk.tif"], p["adir"], p["l.tif"], p["g_ok.tif"], p["m_small.tif"], [], [1], [1, 2], [2, 1], [-2, 2, 7],
            [1, 2, 3, 4], [1.0, 2], [1, "2"], [True, 3], [None, 1], [[1, 2]], [NAN], [[NAN]], {}, {"a": 1}, {"a": {}},
            {"a": "NaN", "b": {"c": "inf"}}]


def input_violations(files):
    """(name, function(rng, section) -> None) : each edits a well-formed section"""
    p = files.p
    out = []

    def setter(side, key, value):
        def f(_rng, s):
            if isinstance(s.get(side), dict):
                s[side][key] = copy.deepcopy(value)
        return f

    for side in ("left", "right"):
        for key in ("img", "nodata", "mask", "classif", "segm", "disp"):
            for k, odd in enumerate(json_oddities(files)):
                out.append((f"{side}.{key}=odd{k}", setter(side, key, odd)))
        for key, names in (("img", ["r_wide.tif", "r_tall.tif", "l3.tif", "g_ok.tif"]),
                           ("mask", ["m_small.tif", "m_wide.tif", "m_ok.tif", "c_ok.tif"]),
                           ("classif", ["m_small.tif", "m_wide.tif", "c_ok.tif"]),
                           ("segm", ["m_small.tif", "m_wide.tif", "s_ok.tif"]),
                           ("disp", ["g_bad.tif", "g_1.tif", "g_3.tif", "g_wide.tif", "g_ok.tif", "g_eq.tif", "l.tif",
                                     "g_i8.tif", "g_u8_bad.tif", "g_u16_bad.tif"])):
            for nm in names:
                out.append((f"{side}.{key}={nm}", setter(side, key, p[nm])))
        out.append((f"{side}.extra", setter(side, "foo", 1)))
        for key in ("img", "disp", "nodata"):
            def dropper(_rng, s, side=side, key=key):
                if isinstance(s.get(side), dict):
                    s[side].pop(key, None)
            out.append((f"{side}.drop.{key}", dropper))
        for k, odd in enumerate([None, 5, "abc", [], [1], {}, p["l.tif"]]):
            def whole(_rng, s, side=side, odd=odd):
                s[side] = copy.deepcopy(odd)
            out.append((f"{side}=odd{k}", whole))

        def drop_side(_rng, s, side=side):
            s.pop(side, None)
        out.append((f"drop.{side}", drop_side))

    def extra_top(_rng, s):
        s["middle"] = {"img": p["l.tif"]}
    out.append(("input.extra", extra_top))
    return out


def gen_input_cases(files, rng, n_random):
    cases = []
    forms = ["interval", "grid", "gridgrid"]
    viols = input_violations(files)
    for form in forms:
        for _ in range(8):
            cases.append({"kind": "base-" + form, "user": {"input": base_input(files, form, rng)}})
        for name, f in viols:
            s = base_input(files, form, rng, optional=rng.random() < 0.3)
            f(rng, s)
            cases.append({"kind": "single-" + name.split("=")[0], "what": name, "user": {"input": s}})
    for _ in range(n_random):
        s = base_input(files, rng.choice(forms), rng)
        names = []
        for name, f in rng.sample(viols, rng.choice([2, 2, 3])):
            f(rng, s)
            names.append(name)
        cases.append({"kind": "combined", "what": names, "user": {"input": s}})
    # the user configuration itself is odd
    for odd in [{}, {"input": 5}, {"input": None}, {"input": []}, {"input": {}}, {"input": "abc"},
                {"input": {"left": {"img": files.p["l.tif"], "disp": [-2, 2]}, "right": {"img": files.p["r.tif"]}},
                 "pipeline": {}}]:
        cases.append({"kind": "top", "user": odd})
    return cases


def documented_completion(user):
    """the user section with the documented defaults of the omitted optional keys and "NaN"/"inf" strings read as
    numbers -- None when the section does not even have the documented outline"""
    if not (isinstance(user, dict) and set(user) == {"input"} and isinstance(user["input"], dict)):
        return None
    inp = user["input"]
    if not (set(inp) == {"left", "right"} and isinstance(inp["left"], dict) and isinstance(inp["right"], dict)):
        return None

    def conv(v):
        return {"NaN": NAN, "inf": float("inf"), "-inf": float("-inf")}.get(v, v) if isinstance(v, str) else v

    out = {}
    for side in ("left", "right"):
        d = {"nodata": -9999, "mask": None, "classif": None, "segm": None}
        if side == "right":
            d["disp"] = None
        for k, v in inp[side].items():
            d[k] = conv(v)
        out[side] = d
    return {"input": out}


def has_bool_interval(user):
    try:
        d = user["input"]["left"]["disp"]
    except Exception:  # pylint: disable=broad-except
        return False
    return isinstance(d, list) and any(isinstance(x, bool) for x in d)


def undocumented_class(out):
    """structural class of an accepted configuration that is not a documented form"""
    try:
        sides = out["input"]
        d = sides["left"]["disp"]
        if isinstance(d, list) and len(d) != 2:
            return "interval_length"
        if isinstance(d, list) and d[0] > d[1]:
            return "interval_reversed"
        for side in ("left", "right"):
            nd = sides[side]["nodata"]
            if not ((isinstance(nd, int) and not isinstance(nd, bool)) or (isinstance(nd, float) and math.isnan(nd))):
                return "nodata_type"
        for side in ("left", "right"):
            for k in ("mask", "classif", "segm"):
                if not (sides[side][k] is None or isinstance(sides[side][k], str)):
                    return "optional_type"
        if isinstance(d, list) and sides["right"]["disp"] is not None:
            return "right_disp_with_interval"
    except Exception:  # pylint: disable=broad-except
        return "outline"
    return "sizes_or_files"


def same_json(a, b):
    return jsonwire.to_wire(a) == jsonwire.to_wire(b)


def unordered(v):
    if isinstance(v, dict):
        return sorted((k, json.dumps(jsonwire.to_wire(x))) for k, x in v.items())
    return v


def run_inputs(ctx, model, files, cases):
    from pandora import check_configuration as cc

    margs, keep = [], []
    for cs in cases:
        user = cs["user"]
        try:
            wuser = jsonwire.to_wire(user)
        except jsonwire.NotJson:
            continue
        comp = documented_completion(user)
        margs.append((2, [files.table(user), wuser]))
        margs.append((3, [files.table(comp), jsonwire.to_wire(comp)]) if comp is not None else (3, [[], [6]]))
        keep.append((cs, comp))
    mres = model.batch(margs)
    spec_args, spec_idx = [], []
    outcomes = []
    for i, (cs, comp) in enumerate(keep):
        user = cs["user"]
        before = copy.deepcopy(user)
        try:
            out = cc.check_input_section(copy.deepcopy(user))
            impl = [0, jsonwire.to_wire(out)]
        except Exception as exc:  # pylint: disable=broad-except
            out = None
            impl = [1, exc_code(exc)]
        ctx.traces += 1
        m = mres[2 * i]
        replay = {"stream": "input", "case": {"kind": cs["kind"], "what": cs.get("what"),
                                              "user": files.sym(jsonwire.show(before))},
                  "files": "<FILES> = the rasters written by harness/props/c17.py Files() (l.tif r.tif 4x5, g_*.tif grids, ...)"}
        if impl != m:
            ctx.mismatch("check_input_section", replay, impl if impl[0] else [0, jsonwire.show(out)],
                         m if m[0] else [0, jsonwire.show(jsonwire.from_wire(m[1]))])
        outcomes.append((cs, comp, out, impl, replay))
        if out is not None:
            spec_idx.append(i)
            spec_args.append((3, [files.table(out), jsonwire.to_wire(out)]))
    sres = model.batch(spec_args)
    spec_of_out = dict(zip(spec_idx, sres))
    for i, (cs, comp, out, impl, replay) in enumerate(outcomes):
        ctx.count("input_" + cs["kind"].split("-")[0])
        user = cs["user"]
        doc_user = comp is not None and mres[2 * i + 1] == 1
        accepted = out is not None
        nontrivial = (not accepted) or any(k in json.dumps(jsonwire.show(user)) for k in ("mask", "classif", "segm", "g_"))
        ctx.case(("in", hash(json.dumps(jsonwire.show(user), sort_keys=True))) if nontrivial else None)
        ctx.count("input_accepted" if accepted else "input_refused")
        if has_bool_interval(user):
            ctx.count("input_bool_interval_skipped")
            continue
        if accepted:
            if spec_of_out[i] != 1:
                ctx.violation("undocumented_input_accepted." + undocumented_class(out),
                              "check_input_section returned a configuration that is not a "
                              f"documented form ({cs['kind']} {cs.get('what')})", replay)
            elif comp is None or unordered(out.get("input", {}).get("left")) != unordered(comp["input"]["left"]) \
                    or unordered(out["input"].get("right")) != unordered(comp["input"]["right"]):
                # accepted, but what was accepted is not what the user wrote (completed with the documented defaults)
                lost = []
                if comp is not None:
                    for side in ("left", "right"):
                        for k, v in comp["input"][side].items():
                            if not same_json(out["input"][side].get(k, "<absent>"), v):
                                lost.append((side, k, v))
                ctx.violation("user_value_not_kept", f"accepted configuration differs from the user's section "
                              f"completed with the documented defaults: {lost}", replay)
        elif doc_user:
            ctx.violation("documented_input_refused", f"check_input_section raised (class {impl[1]}) on a documented "
                          f"section ({cs['kind']} {cs.get('what')})", replay)
        if accepted or cs["kind"].startswith("single-left.disp"):
            ctx.sample({"stream": "input", "kind": cs["kind"], "what": cs.get("what"), "user": jsonwire.show(user),
                        "impl": "accepted" if accepted else impl, "documented": bool(doc_user)}, limit=8)


def run_rewritten_files(ctx, model, files, rng):
    """The same PATHS, checked earlier in this process, now hold rasters of another size: the checks must look at the
    files as they are now (a verdict remembered per path would accept malformed sections and refuse well-formed ones).
    The model receives the file-system facts re-read after each rewriting."""
    r, c = 4, 5

    def rewrite(name, arr, dtype="float32"):
        files.write(name, arr, dtype=dtype)
        files.facts.pop(files.p[name], None)

    def batch(tag, n=6):
        cases = []
        for form in ("interval", "grid", "gridgrid"):
            for _ in range(n):
                cases.append({"kind": "rewritten-" + tag + "-" + form, "user": {"input": base_input(files, form, rng)}})
        run_inputs(ctx, model, files, cases)
        ctx.count("rewritten_file_sections", len(cases))

    # 1. the right images become one column wider: every section is malformed now
    rewrite("r.tif", np.zeros((r, c + 1), dtype=np.float32))
    rewrite("r3.tif", np.zeros((3, r, c + 1), dtype=np.float32))
    batch("right_wider")
    # 2. the left images, masks, classif, segm and grids follow: well-formed again, at the new size
    ramp = np.arange(r * (c + 1), dtype=np.float32).reshape(r, c + 1)
    rewrite("l.tif", ramp)
    rewrite("l3.tif", np.stack([ramp, ramp + 1, ramp + 2]))
    for g, lo, hi in (("g_ok.tif", -2.0, 2.0), ("g_eq.tif", 1.0, 1.0), ("g_right.tif", -2.0, 2.0)):
        rewrite(g, np.stack([np.full((r, c + 1), lo), np.full((r, c + 1), hi)]))
    rewrite("m_ok.tif", np.zeros((r, c + 1)), dtype="int16")
    rewrite("c_ok.tif", np.zeros((2, r, c + 1)), dtype="int16")
    rewrite("s_ok.tif", np.ones((r, c + 1)), dtype="int16")
    batch("all_wider")
    # 3. back to the original rasters (the streams that follow use them)
    ramp = np.arange(r * c, dtype=np.float32).reshape(r, c)
    rewrite("l.tif", ramp)
    rewrite("r.tif", ramp + 1)
    rewrite("l3.tif", np.stack([ramp, ramp + 1, ramp + 2]))
    rewrite("r3.tif", np.stack([ramp, ramp + 1, ramp + 2]))
    for g, lo, hi in (("g_ok.tif", -2.0, 2.0), ("g_eq.tif", 1.0, 1.0), ("g_right.tif", -2.0, 2.0)):
        rewrite(g, np.stack([np.full((r, c), lo), np.full((r, c), hi)]))
    rewrite("m_ok.tif", np.zeros((r, c)), dtype="int16")
    rewrite("c_ok.tif", np.zeros((2, r, c)), dtype="int16")
    rewrite("s_ok.tif", np.ones((r, c)), dtype="int16")
    batch("restored", n=3)


def run_conf_inputs(ctx, model, files, rng):
    """check_input_section(get_config_input(user_cfg)): what check_conf does first (fid 6)"""
    from pandora import check_configuration as cc

    ok = base_input(files, "interval", rng, optional=False)
    pipeline = {"matching_cost": {"matching_cost_method": "sad"}}
    users = [{"input": ok}, {"input": ok, "pipeline": pipeline}, {"pipeline": pipeline, "input": ok}, {"pipeline": pipeline},
             {}, {"input": ok, "extra": 1}, {"Input": ok}, {"input": None}, {"input": {}}, {"input": 3, "pipeline": {}},
             [], ["input"], ["a", 3], "input", "my input file", "abc", "", 5, None, 2.5, True]
    res = model.batch([(6, [files.table(u), jsonwire.to_wire(u)]) for u in users])
    for u, m in zip(users, res):
        try:
            out = cc.check_input_section(cc.get_config_input(copy.deepcopy(u)))
            impl = [0, jsonwire.to_wire(out)]
        except Exception as exc:  # pylint: disable=broad-except
            impl = [1, exc_code(exc)]
        ctx.traces += 1
        ctx.case(("conf", json.dumps(jsonwire.show(u), sort_keys=True)))
        ctx.count("conf_input_cases")
        if impl != m:
            ctx.mismatch("get_config_input+check_input_section", {"stream": "conf", "user": jsonwire.show(u)}, impl, m)


# =============================================================================== through pandora.main


class _Reached(Exception):
    pass


def run_main_cases(ctx, files):
    """refusal happens before pandora.run is called (and acceptance reaches it)"""
    import pandora

    p = files.p
    pipeline = {"matching_cost": {"matching_cost_method": "sad", "window_size": 1, "subpix": 1},
                "disparity": {"disparity_method": "wta"}}
    nan_img = os.path.join(files.dir, "l_nan.tif")
    if not os.path.exists(nan_img):
        files.write("l_nan.tif", np.full((4, 5), np.nan, dtype=np.float32))
    ok = {"left": {"img": p["l.tif"], "disp": [-1, 1]}, "right": {"img": p["r.tif"]}}
    cases = [
        ("wellformed", ok, False),
        ("wellformed_grids", {"left": {"img": p["l.tif"], "disp": p["g_ok.tif"]}, "right": {"img": p["r.tif"]}}, False),
        ("interval_three_values", {"left": {"img": p["l.tif"], "disp": [-1, 1, 7]}, "right": {"img": p["r.tif"]}}, True),
        ("interval_reversed", {"left": {"img": p["l.tif"], "disp": [1, -1]}, "right": {"img": p["r.tif"]}}, True),
        ("missing_image", {"left": {"img": p["missing.tif"], "disp": [-1, 1]}, "right": {"img": p["r.tif"]}}, True),
        ("mask_of_other_size", {"left": {"img": p["l.tif"], "disp": [-1, 1], "mask": p["m_small.tif"]},
                                "right": {"img": p["r.tif"]}}, True),
        ("right_image_wider", {"left": {"img": p["l.tif"], "disp": [-1, 1]}, "right": {"img": p["r_wide.tif"]}}, True),
        ("grid_min_gt_max", {"left": {"img": p["l.tif"], "disp": p["g_bad.tif"]}, "right": {"img": p["r.tif"]}}, True),
        ("image_all_nan", {"left": {"img": files.p["l_nan.tif"], "disp": [-1, 1]}, "right": {"img": p["r.tif"]}}, True),
    ]
    if ctx.replay_case is not None:
        cases = [c for c in cases if c[0] == ctx.replay_case["case"]["name"]]
    orig_run = pandora.run
    for name, inp, malformed in cases:
        calls = []

        def spy(*a, **k):
            calls.append(1)
            raise _Reached()

        pandora.run = spy
        outdir = tempfile.mkdtemp(prefix="c17_out_", dir=files.dir)
        cfg_path = os.path.join(outdir, "cfg.json")
        with open(cfg_path, "w") as f:
            json.dump({"input": inp, "pipeline": pipeline}, f)
        raised = None
        try:
            pandora.main(cfg_path, outdir, False)
        except _Reached:
            pass
        except Exception as exc:  # pylint: disable=broad-except
            raised = type(exc).__name__
        finally:
            pandora.run = orig_run
        ctx.traces += 1
        ctx.case(("main", name))
        ctx.count("main_cases")
        replay = {"stream": "main", "case": {"name": name, "input": files.sym(jsonwire.show(inp))}}
        if malformed and (calls or raised is None):
            ctx.violation("malformed_input_reaches_matching", f"pandora.main on a malformed input ({name}) "
                          f"{'called pandora.run' if calls else 'returned without an exception'}", replay)
        if not malformed and (raised is not None or not calls):
            ctx.violation("wellformed_input_refused_by_main", f"pandora.main refused a well-formed input ({name}): "
                          f"{raised}", replay)
        ctx.sample({"stream": "main", "name": name, "raised": raised, "run_called": bool(calls)}, limit=12)


# =============================================================================== entry point


def run(ctx):
    quick = ctx.tier == "quick"
    rng = ctx.rng
    model = core.Model("x17")
    ctx.gen_obligations = [
        "C17_mandatory_attributes_match: Gen.InputFlow.mandatory_attributes = the five attributes of the Spec (as sets)",
        "C17_schemas_as_modelled: chosen_schema Gen.Schemas.* b1 b2 = ref_schema b1 b2 for the 4 selections (vm_compute)",
        "C17_schema_history_free: 9 + 9 equalities on the regenerated schemas (vm_compute)",
        "C17_input_completion: evaluated on the regenerated default_short_configuration_input",
        "C17_refusal_before_matching / C17_input_checked_first: positions in Gen.InputFlow.calls_main / calls_check_conf",
        "C17_gen_check_dataset_eq / C17_gen_check_datasets_eq: Gen.CheckFns.check_dataset / check_datasets (regenerated, "
        "statement by statement) = Model.DatasetCheck.check_dataset / check_datasets for every dataset that is a mapping",
        "C17_gen_dataset_helpers_eq: Gen.CheckFns.check_shape / check_attributes / check_band_names / "
        "check_disparities_from_dataset (regenerated) = their models, all inputs",
        "C17_gen_check_disparities_from_input_eq: Gen.CheckFns.check_disparities_from_input (regenerated) = the model "
        "on the abstraction of the files, for every configuration value and every file system of rasters",
        "C17_gen_check_images_eq / C17_gen_check_image_dimension_eq: Gen.CheckFns.check_images / check_image_dimension "
        "(regenerated; order of the reads, the loop over mask / classif / segm, both sides) = the model, all inputs",
        "C17_gen_check_input_section_custom_eq: the statements of check_input_section after checker.validate(cfg) "
        "(regenerated: which custom check on which values of the completed configuration, in which order) = the tail of "
        "the model; C17_check_completed_is_validation_then_custom: the model is its validation part then that tail",
        "C17_gen_check_datasets_iff_wellformed / C17_gen_interval_length_checked / C17_gen_check_completed_iff_documented: "
        "the three headline theorems restated on the regenerated functions",
        "translator gen_check_fns: the nine names, rasterio_open, np, xr are bound once at module level the expected way "
        "and img_tools.rasterio_open is the plain rasterio.open wrapper (fail closed otherwise)",
    ]
    files = Files()
    try:
        rp = ctx.replay_case
        if rp is not None:
            if rp["stream"] == "dataset":
                run_datasets(ctx, model, [rp["case"]])
            elif rp["stream"] == "input" and str(rp["case"].get("kind", "")).startswith("rewritten-"):
                # the failing section needs its history: the paths checked once, then rewritten at another size
                run_inputs(ctx, model, files, gen_input_cases(files, rng, 0))
                run_rewritten_files(ctx, model, files, rng)
            elif rp["stream"] == "input":
                run_inputs(ctx, model, files, [{"kind": rp["case"]["kind"], "what": rp["case"].get("what"),
                                                "user": jsonwire.unshow(files.unsym(rp["case"]["user"]))}])
            else:
                run_main_cases(ctx, files)
            return
        ds_cases = gen_dataset_cases(rng, 300 if quick else 6000)
        if not quick:
            for _ in range(9):
                ds_cases += gen_dataset_cases(rng, 0)
        run_datasets(ctx, model, ds_cases)
        in_cases = gen_input_cases(files, rng, 250 if quick else 5000)
        if not quick:
            for _ in range(4):
                in_cases += gen_input_cases(files, rng, 0)
        run_inputs(ctx, model, files, in_cases)
        run_conf_inputs(ctx, model, files, rng)
        run_rewritten_files(ctx, model, files, rng)
        run_main_cases(ctx, files)
        ctx.stats["rasters_written"] = len(files.p)
    finally:
        files.close()
