"""C09 -- the requested disparity interval is honoured and does not leak into costs.

The theorems (Props/C09.v) are about the C02 matching-cost model, C03's WTA model and C11's cbca model.
This module ties them to the code and searches failing inputs by running the REAL code twice or more on
the same image pair with different intervals (the only way to see a shift between the disparity axis and
the per-disparity loops):

  family = one image pair (+ masks, window, measure, subpix) and
      J  a scalar interval,                       I  a scalar interval inside J,
      G  per-pixel grids inside J (min <= max),    C  the interval I given as two constant grids
         (for a share of the families C goes through img_tools.add_disparity with a GeoTIFF grid file and
         the scalar through add_disparity with the [min, max] list: the two code paths of the anchor)
  each run = allocate_cost_volume / validity_mask / compute_cost_volume / cv_masked exactly as
  PandoraMachine.matching_cost_prepare/_run call them, optionally cbca aggregation, then WTA.

  impl-vs-impl oracles (exact, NaN-aware, no tolerance: the same floating-point operations are executed)
      nested      : coords(I) = slice of coords(J), volume(I) = slice of volume(J)          (with / without cbca)
      constant    : volume(C) = volume(I), same axis, same disparity map                    (with / without cbca)
      grids       : volume(G)[p, d] = volume(J)[p, d] inside [gmin(p), gmax(p)], NaN outside (without cbca);
                    with cbca: NaN pattern as above, equality on the planes no pixel of which is masked by
                    its interval; a value difference on a plane with masked pixels is the recorded finding
                    cbca_grid_neighbour_interval_leak (C09_cbca_grid_inside_refuted)
      disparity   : disparity_interval = [first, last coordinate] = requested interval (hull of the grids);
                    a pixel with a computable cost gets a coordinate of the axis inside its own interval,
                    a pixel without gets invalid_disparity; restriction: if the winner of the J run lies in
                    the pixel's interval of the I / G run, that run has the same winner
      refinement  : right after disparity + refinement (vfit / quadratic) every valid pixel stays inside
                    its own interval
      pipelines   : random legal single-scale pipelines through pandora.run (the old fixed shapes, and free tails:
                    0..5 refinement / filter / validation steps in any order, repetitions with suffixes), the left
                    products observed after the disparity step and after EVERY later step: every valid pixel holds a
                    finite disparity of the global interval (C09_step_preserves_interval /
                    C09_final_disp_in_global_interval), no pixel carries both bit 8 and bit 9 (the second half of the
                    invariant of those theorems), a pixel is inside its OWN interval after the disparity step and after
                    a refinement that directly follows it (C09_wta_then_refinement_within_pixel_interval); stored
                    disparity_interval
  T-corr : the extracted model (build/x02, Model/MatchingCost.v) against the real volume of the I and G runs
           (every cost), so that the model the theorems speak about is the code's computation."""
import math
import os
import tempfile

import numpy as np

from harness import core
from harness import mc_gen
from harness import mc_util as mu
from harness import pandora_util as pu
from harness.props import c02

GEN = ["gen_constants", "gen_refine_consts", "gen_valconst", "gen_callbacks"] + mc_gen.GEN
EXTRACT_FILES = ["X02"] + mc_gen.EXTRACT
DRIVERS = ["x02"] + mc_gen.DRIVER
RULE = ("one family = one image pair 5..12 x 7..16 (integer radiometry, masks with valid/nodata/invalid cells on "
        "none/left/right/both sides), measure sad/ssd/census/zncc x window x subpix 1/2/4 (every measure x subpix at "
        "least once), a scalar interval J, a scalar interval I inside J (shared bound, strictly inside, one point), "
        "per-pixel grids inside J with min <= max, I again as constant grids (through a GeoTIFF + add_disparity for a "
        "share); every family is run without and (for 60%) with cbca aggregation, then WTA, then refinement. One "
        "evaluation = one comparison of two real runs (a volume pair, an axis pair, a disparity-map pair) or one "
        "pipeline run (matching cost, optional cbca, WTA, then either one of the fixed shapes refinement/filter/validation/"
        "filter.last/refinement.last or a free tail of 0..5 refinement / filter / validation steps in any order with "
        "suffixed repetitions; scalar interval or per-pixel grids; the left products are observed after every step); non-trivial when the compared volumes hold both NaN and finite costs and the two intervals "
        "differ; distinct by (relation, measure, window, subpix, aggregation, the two intervals, image hash)")
ASSUMES = [
    "integer radiometry and integer disparity grids (exact domain of the C02 correspondence); both images have the "
    "same size",
    "impl-vs-impl comparisons are exact: for a given disparity the code executes the same floating-point operations "
    "whatever the interval (this is what the theorems say of the model: the cell is a function of the sample)",
    "zncc: the model cell is the exact triple (cov, varL, varR); the float value is compared with "
    "cov/sqrt(varL*varR) under the bridging tolerance in the T-corr part only",
    "last clause: the theorems compose the step models of C06 / C10 / C07 / C14 (Model/IntervalPipeline.v); each of "
    "those models is tied to the code by its own property's correspondence, the composition (which products each "
    "callback of the state machine hands to which step) by the pipeline sweep of this module, which observes the real "
    "left products after every step",
    "the bilateral kernels have no negative weight and a positive self-weight (kernel_ok: hypothesis of "
    "step_ok, checked on the kernels of every real run by harness/props/c10.py); filter_size is odd (check_conf)",
]
TRUSTED = ["numpy / xarray slicing semantics used by the oracles (np.array_equal with equal_nan)",
           "rasterio GeoTIFF write/read of the grid files (decoding is C16's)"] + mc_gen.TRUSTED
ASSUMES += mc_gen.ASSUMES

INVALID_BITS = 0b01111000011


# ---------------------------------------------------------------- generation


def gen_family(rng, measure=None, subpix=None, tall=False):
    measure = measure or rng.choice(mu.MEASURES)
    subpix = subpix or rng.choice([1, 1, 2, 4])
    window = rng.choice([3, 5]) if measure == "census" else rng.choice([1, 3, 3, 5])
    rows, cols = rng.randrange(max(5, window + 2), 13), rng.randrange(max(7, window + 3), 17)
    if tall:
        # a few hundred rows, a handful of columns: any row-blocked rewriting of the masking loops (blocks of ~100
        # rows, remainders) has to show on the per-pixel grids of the last rows
        measure, subpix, window = rng.choice(["sad", "ssd"]), 1, 1     # window 1: no border hides the last rows
        rows, cols = rng.choice([203, 251, 302, 407]) + rng.randrange(0, 3), rng.randrange(5, 8)
    amp = {"sad": 255, "ssd": 60, "census": 255, "zncc": 255}[measure]
    style = rng.choice(["rand", "rand", "rand", "small"])
    left = mu.gen_image(rng, rows, cols, amp, style)
    if rng.random() < 0.6:
        sh = rng.randrange(-2, 3)
        right = [[left[r][(c + sh) % cols] + (rng.randrange(-3, 4) if rng.random() < 0.3 else 0) for c in range(cols)]
                 for r in range(rows)]
    else:
        right = mu.gen_image(rng, rows, cols, amp, style)
    mask_l = mu.gen_mask(rng, rows, cols) if rng.random() < 0.4 else None
    mask_r = mu.gen_mask(rng, rows, cols) if rng.random() < 0.4 else None
    # J, then I inside J
    max_span = max(2, 10 // subpix)
    a2 = rng.randrange(-4, 3)
    b2 = a2 + rng.randrange(2, max_span + 1)
    k = rng.random()
    if k < 0.2:
        a, b = a2, rng.randrange(a2, b2)            # shares the lower bound
    elif k < 0.4:
        a = rng.randrange(a2 + 1, b2 + 1)
        b = b2                                       # shares the upper bound
    elif k < 0.55:
        a = b = rng.randrange(a2, b2 + 1)            # one point
    else:
        a = rng.randrange(a2, b2 + 1)
        b = rng.randrange(a, b2 + 1)
    gmin = [[rng.randrange(a2, b2 + 1) for _ in range(cols)] for _ in range(rows)]
    gmax = [[rng.randrange(gmin[r][c], b2 + 1) for c in range(cols)] for r in range(rows)]
    shape = rng.random()
    if shape < 0.15:                                 # only the upper bound varies from pixel to pixel
        gmin = [[a2] * cols for _ in range(rows)]
        gmax = [[rng.randrange(a2, b2 + 1) for _ in range(cols)] for _ in range(rows)]
    elif shape < 0.3:                                # only the lower bound varies
        gmax = [[b2] * cols for _ in range(rows)]
        gmin = [[rng.randrange(a2, b2 + 1) for _ in range(cols)] for _ in range(rows)]
    elif rng.random() < 0.3:                         # grids whose hull is strictly inside J
        lo, hi = min(a2 + 1, b2), b2
        gmin = [[min(max(v, lo), hi) for v in row] for row in gmin]
        gmax = [[max(gmax[r][c], gmin[r][c]) for c in range(cols)] for r in range(rows)]
    return {"measure": measure, "window": window, "subpix": subpix, "rows": rows, "cols": cols,
            "left": left, "right": right, "mask_l": mask_l, "mask_r": mask_r,
            "J": [a2, b2], "I": [a, b], "grids": [gmin, gmax],
            "agg": (not tall) and rng.random() < 0.6, "cbca": [rng.choice([2, 3, 5]), rng.choice([3.0, 10.0, 40.0])],
            "via_file": (not tall) and rng.random() < 0.25,
            "invalid_disparity": rng.choice([-9999, -9999, 0, "NaN"]),
            "refinement": rng.choice(["vfit", "quadratic"])}


def as_case(fam, disp=None, grids=None):
    """the mc_util case (shared with C02) of one run of the family"""
    return {"measure": fam["measure"], "window": fam["window"], "subpix": fam["subpix"], "rows": fam["rows"],
            "cols": fam["cols"], "left": [fam["left"]], "right": [fam["right"]], "bands": None, "band": None,
            "mask_l": fam["mask_l"], "mask_r": fam["mask_r"], "disp": list(disp) if disp is not None else None,
            "grids": grids}


# ---------------------------------------------------------------- the real code


def datasets_via_add_disparity(fam, disp, tmpdir, as_grid_file):
    """left dataset whose disparity goes through img_tools.add_disparity: a [min, max] list, or a 2-band
    GeoTIFF grid file holding the two constant grids"""
    from pandora import img_tools

    case = as_case(fam, disp=disp)
    left = pu.image_dataset(np.array(fam["left"], dtype=np.float32), disp=None, mask=fam["mask_l"])
    right = pu.image_dataset(np.array(fam["right"], dtype=np.float32), disp=None, mask=fam["mask_r"])
    if as_grid_file:
        import rasterio

        path = os.path.join(tmpdir, "grid.tif")
        arr = np.array([np.full((fam["rows"], fam["cols"]), disp[0]), np.full((fam["rows"], fam["cols"]), disp[1])],
                       dtype=np.float32)
        with rasterio.open(path, "w", driver="GTiff", height=fam["rows"], width=fam["cols"], count=2,
                           dtype="float32") as dst:
            dst.write(arr)
        left = img_tools.add_disparity(left, path, None)
    else:
        left = img_tools.add_disparity(left, list(disp), None)
    return case, left, right


def run_steps(fam, case, left=None, right=None, agg=False):
    """matching cost (as the state machine runs it), optional cbca, WTA, refinement.
    Returns dict(coords, pre, vol, disp, interval, vmask, refined, rmask)"""
    from pandora import matching_cost, aggregation, disparity, refinement
    from pandora.criteria import validity_mask

    if left is None:
        left, right = mu.datasets(case)
    cfg = mu.mc_cfg(case)
    mc = matching_cost.AbstractMatchingCost(**cfg)
    dmin = left["disparity"].sel(band_disp="min").data
    dmax = left["disparity"].sel(band_disp="max").data
    cv = mc.allocate_cost_volume(left, (dmin, dmax), {"pipeline": {"matching_cost": cfg}})
    cv = validity_mask(left, right, cv)
    cv = mc.compute_cost_volume(left, right, cv)
    mc.cv_masked(left, right, cv, dmin, dmax)
    out = {"coords": np.array(cv.coords["disp"].data, dtype=np.float64), "pre": cv["cost_volume"].data.copy(),
           "cv_pre": cv}
    if agg:
        import copy

        cv = copy.deepcopy(cv)
        a = aggregation.AbstractAggregation(aggregation_method="cbca", cbca_distance=fam["cbca"][0],
                                            cbca_intensity=fam["cbca"][1])
        a.cost_volume_aggregation(left, right, cv)
    out["vol"] = cv["cost_volume"].data.copy()
    d = disparity.AbstractDisparity(disparity_method="wta", invalid_disparity=fam["invalid_disparity"])
    dm = d.to_disp(cv, left, right)
    out["disp"] = dm["disparity_map"].data.copy()
    out["interval"] = [float(x) for x in dm["disparity_interval"].data]
    out["vmask"] = dm["validity_mask"].data.copy()
    out["vol_after_wta"] = cv["cost_volume"].data.copy()
    r = refinement.AbstractRefinement(refinement_method=fam["refinement"])
    r.subpixel_refinement(cv, dm)
    out["refined"] = dm["disparity_map"].data.copy()
    out["rmask"] = dm["validity_mask"].data.copy()
    return out


def eqnan(a, b):
    return a.shape == b.shape and bool(np.array_equal(a, b, equal_nan=True))


def first_diff(a, b):
    if a.shape != b.shape:
        return ["shape", list(a.shape), list(b.shape)]
    bad = ~((a == b) | (np.isnan(a) & np.isnan(b)))
    idx = np.argwhere(bad)[0]
    return [[int(i) for i in idx], _f(a[tuple(idx)]), _f(b[tuple(idx)])]


def _f(x):
    x = float(x)
    return None if math.isnan(x) else x


# ---------------------------------------------------------------- oracles


def slice_of(fam, small, large):
    """index of the first sample of the small axis on the large axis, or None"""
    s = fam["subpix"]
    sh = (small[0] - large[0]) * s
    return int(round(sh))


def key_of(fam, rel, agg, i1, i2):
    return (rel, fam["measure"], fam["window"], fam["subpix"], agg, tuple(i1), tuple(i2),
            hash(str(fam["left"]) + str(fam["right"])))


def nontrivial(v1, differ):
    n1 = int(np.isnan(v1).sum())
    return 0 < n1 < v1.size and differ


def check_axis(ctx, fam, run, lo, hi, tag, replay):
    """the axis and the stored interval are the requested interval"""
    s = fam["subpix"]
    want = np.array([lo + k / s for k in range((hi - lo) * s + 1)], dtype=np.float64)
    ctx.case(None)
    if run["coords"].shape != want.shape or not np.array_equal(run["coords"], want):
        ctx.violation("axis_not_requested_interval",
                      f"{tag}: requested [{lo},{hi}] subpix {s}, disparity axis {run['coords'].tolist()[:6]}... "
                      f"({len(run['coords'])} samples) instead of {len(want)} samples from {lo} to {hi}", replay)
    if run["interval"] != [float(lo), float(hi)] or run["interval"] != [float(run["coords"][0]), float(run["coords"][-1])]:
        ctx.violation("stored_interval", f"{tag}: stored disparity_interval {run['interval']}, searched "
                      f"[{run['coords'][0]},{run['coords'][-1]}], requested [{lo},{hi}]", replay)


def check_wta(ctx, fam, run, gmin, gmax, tag, replay):
    """winner inside the pixel's interval / invalid_disparity exactly when no cost"""
    vol, disp = run["vol"], run["disp"]
    ctx.case(None)
    if not eqnan(vol, run["vol_after_wta"]):
        ctx.violation("wta_changed_volume", f"{tag}: the disparity step changed the cost volume", replay)
    has = ~np.isnan(vol).all(axis=2)
    inv = fam["invalid_disparity"]
    gmin, gmax = np.asarray(gmin, dtype=np.float64), np.asarray(gmax, dtype=np.float64)
    inside = (disp >= gmin) & (disp <= gmax) & np.isin(disp, run["coords"])
    bad = has & ~inside
    if bad.any():
        r, c = [int(x) for x in np.argwhere(bad)[0]]
        ctx.violation("wta_outside_pixel_interval",
                      f"{tag}: pixel ({r},{c}) has a computable cost and interval [{gmin[r, c]},{gmax[r, c]}] but "
                      f"receives disparity {_f(disp[r, c])}", replay)
    nocost = ~has
    if nocost.any():
        got = disp[nocost]
        ok = np.isnan(got).all() if inv == "NaN" else bool((got == float(inv)).all())
        if not ok:
            ctx.violation("wta_no_cost_not_invalid", f"{tag}: a pixel without computable cost does not receive "
                          f"invalid_disparity {inv}", replay)
    # right after disparity + refinement: valid pixels stay inside their own interval
    ref, rmask = run["refined"], run["rmask"]
    valid = ((rmask & INVALID_BITS) == 0) & has
    out = valid & ~((ref >= gmin) & (ref <= gmax))
    ctx.count("refined_pixels_checked", int(valid.sum()))
    if out.any():
        r, c = [int(x) for x in np.argwhere(out)[0]]
        ctx.violation("refinement_outside_pixel_interval",
                      f"{tag}: after disparity + {fam['refinement']} refinement the valid pixel ({r},{c}), interval "
                      f"[{gmin[r, c]},{gmax[r, c]}], has disparity {_f(ref[r, c])} (winner {_f(disp[r, c])})", replay)


def check_restriction(ctx, fam, small, large, gmin, gmax, tag, replay):
    """if the winner of the large run lies in the pixel's interval of the small run, the small run has it too"""
    gmin, gmax = np.asarray(gmin, dtype=np.float64), np.asarray(gmax, dtype=np.float64)
    dl, ds = large["disp"], small["disp"]
    has_l = ~np.isnan(large["vol"]).all(axis=2)
    sel = has_l & (dl >= gmin) & (dl <= gmax)
    ctx.case(None)
    ctx.count("restriction_pixels", int(sel.sum()))
    bad = sel & ~(ds == dl)
    if bad.any():
        r, c = [int(x) for x in np.argwhere(bad)[0]]
        ctx.violation("wta_restriction",
                      f"{tag}: pixel ({r},{c}): the winner of the larger interval is {_f(dl[r, c])}, inside the smaller "
                      f"interval [{gmin[r, c]},{gmax[r, c]}], but the smaller run gives {_f(ds[r, c])}", replay)


def check_family(ctx, fam, model_jobs):
    m, s = fam["measure"], fam["subpix"]
    J, I = fam["J"], fam["I"]
    gmin, gmax = fam["grids"]
    rows, cols = fam["rows"], fam["cols"]
    g_lo, g_hi = min(min(r) for r in gmin), max(max(r) for r in gmax)
    ctx.count("families")
    ctx.count(f"families_{m}_subpix{s}")
    ctx.count("families_masks_%d%d" % (fam["mask_l"] is not None, fam["mask_r"] is not None))
    aggs = [False, True] if fam["agg"] else [False]
    case_j, case_i = as_case(fam, disp=J), as_case(fam, disp=I)
    case_g = as_case(fam, grids=(gmin, gmax))
    const = ([[I[0]] * cols for _ in range(rows)], [[I[1]] * cols for _ in range(rows)])
    case_c = as_case(fam, grids=const)
    full = lambda v: [[v] * cols for _ in range(rows)]
    for agg in aggs:
        tagb = f"{m} window {fam['window']} subpix {s}{' + cbca' if agg else ''} on {rows}x{cols}"
        replay = dict(fam, agg=agg)
        try:
            rj = run_steps(fam, case_j, agg=agg)
            ri = run_steps(fam, case_i, agg=agg)
            rg = run_steps(fam, case_g, agg=agg)
            if fam["via_file"]:
                with tempfile.TemporaryDirectory(prefix="c09_") as tmp:
                    _, l1, r1 = datasets_via_add_disparity(fam, I, tmp, True)
                    rc = run_steps(fam, case_c, l1, r1, agg=agg)
                    _, l2, r2 = datasets_via_add_disparity(fam, I, tmp, False)
                    ri2 = run_steps(fam, case_i, l2, r2, agg=agg)
                ctx.count("constant_grid_through_add_disparity_file")
            else:
                rc = run_steps(fam, case_c, agg=agg)
                ri2 = None
        except Exception as exc:  # pylint: disable=broad-except
            ctx.case(None)
            ctx.count("run_raised_" + type(exc).__name__)
            ctx.violation("run_raises", f"{tagb}, intervals {I} in {J}: {type(exc).__name__}: {str(exc)[:120]}", replay)
            continue
        ctx.traces += 4 + (1 if ri2 is not None else 0)
        ctx.count("runs_cbca" if agg else "runs_plain", 4)
        # ---- axes and stored intervals
        check_axis(ctx, fam, rj, J[0], J[1], tagb + f" scalar {J}", replay)
        check_axis(ctx, fam, ri, I[0], I[1], tagb + f" scalar {I}", replay)
        check_axis(ctx, fam, rg, g_lo, g_hi, tagb + f" grids with hull [{g_lo},{g_hi}]", replay)
        check_axis(ctx, fam, rc, I[0], I[1], tagb + f" constant grids {I}", replay)
        # ---- nested intervals
        sh = slice_of(fam, I, J)
        n_i = len(ri["coords"])
        ctx.case(key_of(fam, "nested", agg, I, J) if nontrivial(ri["vol"], list(I) != list(J)) else None)
        ctx.count("costs_compared", int(ri["vol"].size))
        sl = rj["vol"][:, :, sh:sh + n_i]
        if not np.array_equal(ri["coords"], rj["coords"][sh:sh + n_i]):
            ctx.violation("nested_axis", f"{tagb}: the axis of {I} is not the slice [{sh}:{sh + n_i}] of the axis of {J}",
                          replay)
        elif not eqnan(ri["vol"], sl):
            d = first_diff(ri["vol"], sl)
            ctx.violation("nested_slice" + ("_cbca" if agg else ""),
                          f"{tagb}: cost at (row, col, index) {d[0]} is {d[1]} for the interval {I} and {d[2]} in the "
                          f"slice [{sh}:{sh + n_i}] of the volume of {J} (disparity {ri['coords'][d[0][2]] if d[0] != 'shape' else '?'})",
                          replay)
        ctx.sample({"relation": "nested", "measure": m, "window": fam["window"], "subpix": s, "cbca": agg,
                    "size": [rows, cols], "I": I, "J": J, "costs": int(ri["vol"].size),
                    "nan": int(np.isnan(ri["vol"]).sum())}, limit=6)
        # ---- constant grids vs scalar
        ctx.case(key_of(fam, "constant", agg, I, I) if 0 < int(np.isnan(ri["vol"]).sum()) < ri["vol"].size else None)
        for other, what in ((rc, "two constant grids"), (ri2, "add_disparity([min, max])")):
            if other is None:
                continue
            if not (np.array_equal(ri["coords"], other["coords"]) and eqnan(ri["vol"], other["vol"])
                    and eqnan(ri["disp"], other["disp"]) and np.array_equal(ri["vmask"], other["vmask"])):
                ctx.violation("constant_grid_vs_scalar",
                              f"{tagb}: the scalar interval {I} and the same interval given as {what} give different "
                              f"axes / cost volumes / disparity maps / validity masks", replay)
        # ---- per-pixel grids: inside = wide run, outside = NaN
        shg = slice_of(fam, [g_lo, g_hi], J)
        n_g = len(rg["coords"])
        ctx.case(key_of(fam, "grids", agg, [g_lo, g_hi], J) if nontrivial(rg["vol"], True) else None)
        ctx.count("costs_compared", int(rg["vol"].size))
        if not np.array_equal(rg["coords"], rj["coords"][shg:shg + n_g]):
            ctx.violation("grid_axis", f"{tagb}: the axis of the grids (hull [{g_lo},{g_hi}]) is not a slice of the axis "
                          f"of {J}", replay)
        else:
            gm, gx = np.asarray(gmin, dtype=np.float64), np.asarray(gmax, dtype=np.float64)
            for k in range(n_g):
                d = rg["coords"][k]
                inside = (gm <= d) & (d <= gx)
                pg, pj = rg["vol"][:, :, k], rj["vol"][:, :, shg + k]
                want = np.where(inside, pj, np.nan)
                if eqnan(pg, want):
                    continue
                nanpat_ok = bool(np.array_equal(np.isnan(pg), np.isnan(want)))
                if agg and nanpat_ok and not inside.all():
                    ctx.count("cbca_grid_planes_with_leak")
                    dd = first_diff(pg, want)
                    ctx.violation("cbca_grid_neighbour_interval_leak",
                                  f"{tagb}: aggregated cost at (row, col) {dd[0]} disparity {d}, inside the pixel's "
                                  f"interval, is {dd[1]} with the grids and {dd[2]} with the scalar interval {J}: a "
                                  f"neighbour whose own interval excludes {d} was masked before the aggregation", replay)
                    continue
                dd = first_diff(pg, want)
                kind = "grid_nan_pattern" if not nanpat_ok else "grid_inside_value"
                ctx.violation(kind + ("_cbca" if agg else ""),
                              f"{tagb}: grids with hull [{g_lo},{g_hi}] against the scalar interval {J}, disparity {d} "
                              f"(plane {k} / {shg + k}): cost at (row, col) {dd[0]} is {dd[1]}, the property gives {dd[2]} "
                              f"(pixel interval [{gmin[dd[0][0]][dd[0][1]]},{gmax[dd[0][0]][dd[0][1]]}])", replay)
                break
        # ---- disparity
        check_wta(ctx, fam, rj, full(J[0]), full(J[1]), tagb + f" scalar {J}", replay)
        check_wta(ctx, fam, ri, full(I[0]), full(I[1]), tagb + f" scalar {I}", replay)
        check_wta(ctx, fam, rg, gmin, gmax, tagb + " grids", replay)
        check_restriction(ctx, fam, ri, rj, full(I[0]), full(I[1]), tagb + f" {I} in {J}", replay)
        if not agg:
            check_restriction(ctx, fam, rg, rj, gmin, gmax, tagb + f" grids in {J}", replay)
        # ---- T-corr jobs (pre-aggregation volumes of the I and G runs), once per family
        if not agg:
            model_jobs.append((fam, case_i, ri["cv_pre"]))
            model_jobs.append((fam, case_g, rg["cv_pre"]))


def run_model_jobs(ctx, model, jobs):
    if not jobs:
        return
    res = model.batch([(1, c02.wire(case)) for _, case, _ in jobs])
    for (fam, case, cv), mr in zip(jobs, res):
        ctx.case(None)
        ctx.traces += 1
        ctx.count("model_volumes")
        hdr, mvol = mr
        coords = cv.coords["disp"].data
        impl_hdr = [int(math.floor(coords[0])), int(math.ceil(coords[-1])), len(coords)]
        if impl_hdr != hdr[:3]:
            ctx.mismatch("axis", c02.describe(case), impl_hdr, hdr[:3])
            continue
        diffs = c02.compare_volume(case, cv["cost_volume"].data, mvol)
        ctx.count("model_costs_compared", int(cv["cost_volume"].data.size))
        if diffs:
            ctx.mismatch("cost_volume_" + case["measure"], {"case": case, "diffs": diffs},
                         [d[3] for d in diffs], [d[4] for d in diffs])


# ---------------------------------------------------------------- whole pipelines


def gen_pipeline(rng, measure, subpix):
    win = rng.choice([3, 5]) if measure == "census" else rng.choice([1, 3, 5])
    p = [["matching_cost", {"matching_cost_method": measure, "window_size": win, "subpix": subpix}]]
    if rng.random() < 0.3:
        p.append(["aggregation", {"aggregation_method": "cbca", "cbca_intensity": 5.0, "cbca_distance": 3}])
    p.append(["disparity", {"disparity_method": "wta", "invalid_disparity": rng.choice([-9999, "NaN"])}])
    filt = lambda: rng.choice([{"filter_method": "median", "filter_size": 3},
                               {"filter_method": "bilateral", "sigma_color": 2.0, "sigma_space": 1.0}])
    r = rng.random()
    if r < 0.35:
        p.append(["refinement", {"refinement_method": rng.choice(["vfit", "quadratic"])}])
        if rng.random() < 0.6:
            p.append(["filter", filt()])
    elif r < 0.7:
        p.append(["filter", filt()])
        if rng.random() < 0.5:
            p.append(["refinement", {"refinement_method": rng.choice(["vfit", "quadratic"])}])
    if rng.random() < 0.6:
        v = {"validation_method": "cross_checking_accurate", "cross_checking_threshold": rng.choice([0.0, 1.0])}
        if rng.random() < 0.7:
            v["interpolated_disparity"] = rng.choice(["mc-cnn", "sgm"])
        p.append(["validation", v])
        if rng.random() < 0.3:
            p.append(["filter.last", filt()])
        if rng.random() < 0.25:
            p.append(["refinement.last", {"refinement_method": rng.choice(["vfit", "quadratic"])}])
    return p


def gen_free_pipeline(rng, measure, subpix):
    """matching cost, optional cbca, WTA, then a FREE tail: 0..5 refinement / filter / validation steps in any order,
    repetitions included (suffixed names), any method: the quantifier of C09_final_disp_in_global_interval"""
    win = rng.choice([3, 5]) if measure == "census" else rng.choice([1, 3, 5])
    p = [["matching_cost", {"matching_cost_method": measure, "window_size": win, "subpix": subpix}]]
    if rng.random() < 0.25:
        p.append(["aggregation", {"aggregation_method": "cbca", "cbca_intensity": 5.0, "cbca_distance": 3}])
    p.append(["disparity", {"disparity_method": "wta", "invalid_disparity": rng.choice([-9999, "NaN"])}])
    seen = {}
    for _ in range(rng.randrange(0, 6)):
        kind = rng.choice(["refinement", "refinement", "filter", "filter", "validation"])
        if kind == "refinement":
            c = {"refinement_method": rng.choice(["vfit", "quadratic"])}
        elif kind == "filter":
            c = rng.choice([{"filter_method": "median", "filter_size": rng.choice([3, 3, 5])},
                            {"filter_method": "bilateral", "sigma_color": rng.choice([1.0, 2.0, 4.0]),
                             "sigma_space": rng.choice([0.5, 1.0, 1.5])}])
        else:
            c = {"validation_method": "cross_checking_accurate", "cross_checking_threshold": rng.choice([0.0, 1.0, 1.0])}
            if rng.random() < 0.7:
                c["interpolated_disparity"] = rng.choice(["mc-cnn", "sgm"])
        n = seen.get(kind, 0)
        seen[kind] = n + 1
        p.append([kind if n == 0 else f"{kind}.{n}", c])
    return p


def off_grid_refinement(pipeline):
    """a refinement step that runs after a filter or a validation step (the disparities it refines are no
    longer coordinates of the axis): the class of the recorded finding"""
    seen = False
    for name, _ in pipeline:
        kind = name.split(".")[0]
        if kind in ("filter", "validation"):
            seen = True
        if kind == "refinement" and seen:
            return True
    return False


def gen_pipeline_case(rng, free=False):
    fam = gen_family(rng)
    fam["rows"], fam["cols"] = max(fam["rows"], 7), max(fam["cols"], 9)
    rows, cols = fam["rows"], fam["cols"]
    fam["left"] = mu.gen_image(rng, rows, cols, 60, "rand")
    sh = rng.randrange(-2, 3)
    fam["right"] = [[fam["left"][r][(c + sh) % cols] + rng.randrange(-2, 3) for c in range(cols)] for r in range(rows)]
    fam["mask_l"] = mu.gen_mask(rng, rows, cols) if rng.random() < 0.4 else None
    fam["mask_r"] = mu.gen_mask(rng, rows, cols) if rng.random() < 0.4 else None
    a = -rng.randrange(0, 4)
    b = a + rng.randrange(1, 6)
    grids = None
    if rng.random() < 0.4:
        gmin = [[rng.randrange(a, b + 1) for _ in range(cols)] for _ in range(rows)]
        gmax = [[rng.randrange(gmin[r][c], b + 1) for c in range(cols)] for r in range(rows)]
        grids = [gmin, gmax]
    gen = gen_free_pipeline if free else gen_pipeline
    return {"kind": "pipeline", "fam": {k: fam[k] for k in ("measure", "window", "subpix", "rows", "cols", "left", "right",
                                                          "mask_l", "mask_r")},
            "disp": [a, b], "grids": grids, "pipeline": gen(rng, fam["measure"], fam["subpix"]),
            "bd_rev": rng.random() < 0.3}


def gen_strip_pipeline_case(rng):
    """a strip (a few lines x many columns, or the converse) whose two images are unrelated, with a request that
    does not contain 0 and a validation step that fills the pixels it rejects: long runs of rejected pixels along
    the long side, filling paths longer than the short side"""
    short, long_ = rng.randrange(3, 6), rng.randrange(24, 44)
    rows, cols = (short, long_) if rng.random() < 0.6 else (long_, short)
    measure = rng.choice(["sad", "ssd", "census", "zncc"])
    win = 3 if measure == "census" else rng.choice([1, 3])
    fam = {"measure": measure, "window": win, "subpix": 1, "rows": rows, "cols": cols,
           "left": mu.gen_image(rng, rows, cols, 60, "rand"), "right": mu.gen_image(rng, rows, cols, 60, "rand"),
           "mask_l": mu.gen_mask(rng, rows, cols) if rng.random() < 0.3 else None, "mask_r": None}
    a = rng.choice([1, 2, -3, -4])
    b = a + rng.randrange(1, 3)
    p = [["matching_cost", {"matching_cost_method": measure, "window_size": win, "subpix": 1}],
         ["disparity", {"disparity_method": "wta", "invalid_disparity": rng.choice([-9999, "NaN"])}],
         ["validation", {"validation_method": "cross_checking_accurate", "cross_checking_threshold": rng.choice([0.0, 1.0]),
                         "interpolated_disparity": rng.choice(["sgm", "sgm", "mc-cnn"])}]]
    if rng.random() < 0.3:
        p.append(["filter", {"filter_method": "median", "filter_size": 3}])
    return {"kind": "pipeline", "fam": fam, "disp": [a, b], "grids": None, "pipeline": p, "bd_rev": False}


def run_fractional_grid_family(ctx, rng):
    """per-pixel intervals whose bounds are multiples of 1/4 pixel (float grids: the grids of the multiscale step
    after a refinement, grid files), smallest bound fractional half of the time: inside a pixel's own interval the
    cost is the one obtained with the whole-pixel scalar interval that contains every grid value, outside it is NaN"""
    case = mu.fractional_grids(rng, mu.gen_case(rng, max_nd=24, small=True))
    gmin, gmax = case["grids"]
    lo = math.floor(min(min(r) for r in gmin))
    hi = math.ceil(max(max(r) for r in gmax))
    cvg, e1 = mu.run_impl(case)
    cvs, e2 = mu.run_impl(dict(case, grids=None, disp=[lo, hi], fractional=False))
    ctx.count("fractional_grid_families")
    if e1 is not None or e2 is not None:
        ctx.case(None)
        if (e1 is None) != (e2 is None):
            ctx.violation("fractional_grids_raise", f"{case['measure']} window {case['window']} subpix {case['subpix']}: "
                          f"quarter-pixel grids inside [{lo},{hi}] -> {type(e1).__name__ if e1 else 'runs'}, scalar interval -> "
                          f"{type(e2).__name__ if e2 else 'runs'}", dict(case, kind="fractional_family"))
        return
    ctx.traces += 2
    ctx.case(("frac_family", case["measure"], case["window"], case["subpix"], hash(str(case["grids"]) + str(case["left"]))))
    dg = [float(x) for x in cvg.coords["disp"].data]
    ds_ = [float(x) for x in cvs.coords["disp"].data]
    vg, vs = cvg["cost_volume"].data, cvs["cost_volume"].data
    for k, d in enumerate(dg):
        if d not in ds_:
            ctx.violation("fractional_grids_axis", f"sample {d} of the axis built from quarter-pixel grids is not a sample "
                          f"of the axis of [{lo},{hi}]", dict(case, kind="fractional_family"))
            return
        j = ds_.index(d)
        inside = (np.array(gmin) <= d) & (d <= np.array(gmax))
        want = np.where(inside, vs[:, :, j], np.nan)
        if not eqnan(vg[:, :, k], want):
            r, c = [int(x) for x in np.argwhere(~((vg[:, :, k] == want) | (np.isnan(vg[:, :, k]) & np.isnan(want))))[0]]
            ctx.violation("fractional_grids_differ",
                          f"{case['measure']} window {case['window']} subpix {case['subpix']}: pixel ({r},{c}) with its own "
                          f"interval [{gmin[r][c]}, {gmax[r][c]}] "
                          f"({'inside' if inside[r, c] else 'outside'}), disparity {d}: cost {_f(vg[r, c, k])}, with the scalar "
                          f"interval [{lo},{hi}] {_f(vs[r, c, j])}", dict(case, kind="fractional_family"))
            return


POST_KINDS = ("disparity", "refinement", "filter", "validation")


def observing_machine():
    """a PandoraMachine that records the LEFT disparity products (map, mask) after the disparity step and after
    every later step (callbacks wrapped on the instance, nothing changed in /repo)"""
    from pandora.state_machine import PandoraMachine

    m = PandoraMachine()
    m.snaps = []
    m.rsnaps = []
    for kind in POST_KINDS:
        cb = kind + "_run"
        orig = getattr(m, cb)

        def wrapper(cfg, input_step, _orig=orig, _m=m):
            res = _orig(cfg, input_step)
            ld = _m.left_disparity
            _m.snaps.append((input_step, ld["disparity_map"].data.copy(), ld["validity_mask"].data.copy()))
            rd = _m.right_disparity
            if rd is not None and "disparity_map" in rd and "validity_mask" in rd:
                _m.rsnaps.append((input_step, rd["disparity_map"].data.copy(), rd["validity_mask"].data.copy()))
            return res

        setattr(m, cb, wrapper)
    return m


def check_snapshots(ctx, pc, names, snaps, dmin, dmax, gmin, gmax, fam, side="left"):
    """the invariant of C09_step_preserves_interval after every step, the per-pixel clause where it applies.
    side = "right": the right products (cross_checking_accurate), whose steps are the same functions applied to the
    right map with the left one as reference: the same theorems with the interval [-dmax, -dmin] of the right volume"""
    gmin, gmax = np.array(gmin, dtype=np.float64), np.array(gmax, dtype=np.float64)
    prev = None
    for step, d, vm in snaps:
        kind = ("right_" if side == "right" else "") + step.split(".")[0]
        ctx.count("pipeline_states_checked" if side == "left" else "pipeline_right_states_checked")
        valid = (vm & INVALID_BITS) == 0
        with np.errstate(invalid="ignore"):
            inside = np.isfinite(d) & (d >= dmin) & (d <= dmax)
        out = valid & ~inside
        head = (f"pipeline {names} ({fam['measure']}, subpix {fam['subpix']}) on {fam['rows']}x{fam['cols']}, interval "
                f"[{dmin},{dmax}]: {side} products after step '{step}' ")
        if out.any():
            r, c = [int(x) for x in np.argwhere(out)[0]]
            ctx.violation("step_leaves_interval_" + kind,
                          head + f"the valid pixel ({r},{c}) (flags {int(vm[r, c])}) holds {_f(d[r, c])}", pc)
        both = ((vm & 256) != 0) & ((vm & 512) != 0)
        if both.any():
            r, c = [int(x) for x in np.argwhere(both)[0]]
            ctx.violation("occlusion_and_mismatch_" + kind, head + f"pixel ({r},{c}) carries both bit 8 and bit 9 "
                          f"(flags {int(vm[r, c])})", pc)
        if side == "left" and (kind == "disparity" or (kind == "refinement" and prev == "disparity")):
            with np.errstate(invalid="ignore"):
                own = valid & ~((d >= gmin) & (d <= gmax))
            ctx.count("pipeline_own_interval_checked")
            if own.any():
                r, c = [int(x) for x in np.argwhere(own)[0]]
                ctx.violation("outside_own_interval_after_" + kind,
                              head + f"the valid pixel ({r},{c}) holds {_f(d[r, c])}, outside its own interval "
                              f"[{_f(gmin[r, c])},{_f(gmax[r, c])}]", pc)
        prev = kind


def run_pipeline_case(ctx, pc):
    import pandora
    import xarray as xr
    from pandora.state_machine import PandoraMachine

    fam = pc["fam"]
    case = as_case(fam, disp=pc["disp"], grids=None if pc["grids"] is None else tuple(pc["grids"]))
    case["window"] = pc["pipeline"][0][1]["window_size"]
    left, right = mu.datasets(case)
    gmin, gmax = mu.case_grids(case)
    names = [n for n, _ in pc["pipeline"]]
    if any(n.split(".")[0] == "validation" for n in names):
        right.coords["band_disp"] = ["min", "max"]
        right["disparity"] = xr.DataArray(np.array([-np.array(gmax, dtype=np.float32), -np.array(gmin, dtype=np.float32)]),
                                          dims=["band_disp", "row", "col"])
    if pc.get("bd_rev"):
        # the same labelled request stored with its two bands in the other order (["max", "min"]): datasets are read
        # by LABEL (check_datasets selects by label), never by position
        left = left.isel(band_disp=[1, 0])
        if "disparity" in right:
            right = right.isel(band_disp=[1, 0])
        ctx.count("pipelines_with_band_disp_stored_max_min")
    cfg = {"pipeline": {n: dict(c) for n, c in pc["pipeline"]}}
    ctx.count("pipelines")
    for n in names:
        ctx.count("pipeline_step_" + n.split(".")[0])
    machine = observing_machine()
    try:
        l, _ = pandora.run(machine, left, right, cfg)
    except Exception as exc:  # pylint: disable=broad-except
        ctx.case(None)
        ctx.count("pipeline_raised_" + type(exc).__name__)
        ctx.notes.append(f"pipeline {names} raised {type(exc).__name__}: {str(exc)[:100]}")
        # a legal pipeline on a well-formed pair with a well-formed request: the request is not honoured at all
        ctx.violation("pipeline_raises", f"pipeline {names} ({fam['measure']}, subpix {fam['subpix']}) on {fam['rows']}x"
                      f"{fam['cols']}, interval {pc['disp']}{' / per-pixel grids' if pc['grids'] else ''}"
                      f"{', band_disp stored [max, min]' if pc.get('bd_rev') else ''}: pandora.run raised "
                      f"{type(exc).__name__}: {str(exc)[:120]}", pc)
        return
    ctx.traces += 1
    dmin, dmax = mu.case_global_interval(case)
    d, vm = l["disparity_map"].data, l["validity_mask"].data
    valid = (vm & INVALID_BITS) == 0
    ctx.case(("pipeline", tuple(names), fam["measure"], fam["subpix"], dmin, dmax, hash(str(fam["left"])))
             if valid.any() and len(names) > 2 else None)
    ctx.count("pipeline_valid_pixels", int(valid.sum()))
    check_snapshots(ctx, pc, names, machine.snaps, dmin, dmax, gmin, gmax, fam)
    if machine.rsnaps:
        check_snapshots(ctx, pc, names, machine.rsnaps, -dmax, -dmin, gmin, gmax, fam, side="right")
    iv = [float(x) for x in l["disparity_interval"].data]
    if iv != [float(dmin), float(dmax)]:
        ctx.violation("stored_interval", f"pipeline {names}: stored disparity_interval {iv}, requested [{dmin},{dmax}]", pc)
    out = valid & ~((d >= dmin) & (d <= dmax))
    if out.any():
        r, c = [int(x) for x in np.argwhere(out)[0]]
        what = (f"pipeline {names} ({fam['measure']}, subpix {fam['subpix']}) on {fam['rows']}x{fam['cols']}, interval "
                f"[{dmin},{dmax}]: the valid pixel ({r},{c}) (flags {int(vm[r, c])}) has final disparity {_f(d[r, c])}")
        if off_grid_refinement(pc["pipeline"]):
            ctx.violation("refinement_after_filter_leaves_interval", what, pc)
        else:
            ctx.violation("final_disparity_outside_interval", what, pc)


# ---------------------------------------------------------------- entry point


def run(ctx):
    quick = ctx.tier == "quick"
    ctx.gen_obligations = ["C09_pipeline_constants: the invalid-bits / stopped-interpolation / interval-regularized "
                           "constants of Gen.RefineConsts, Gen.Constants, Gen.ValConst are those the composed step models "
                           "use, 1 <= median_block, 1 <= bilateral_block (reflexivity / vm_compute on the regenerated files)",
                           "C09_callbacks_as_composed: Gen.Callbacks.gen_callback of filter_run / refinement_run / validation_run "
                           "(ast of state_machine.py) is the call structure run_step composes (reflexivity)"] \
        + mc_gen.OBLIGATIONS_C09
    rng = ctx.rng
    model = core.Model("x02")
    if ctx.replay_case is not None:
        rc = ctx.replay_case
        if rc.get("kind") == "point_interval":
            mc_gen.replay_one(ctx, rc)
        elif rc.get("kind") in ("statements", "min_max"):
            mc_gen.run(ctx)
        elif rc.get("kind") == "pipeline":
            run_pipeline_case(ctx, rc)
        elif rc.get("kind") == "fractional_family":
            import random as _random
            _orig = mu.fractional_grids
            mu.fractional_grids = lambda _rng, _case: rc      # replay: the stored case as it is
            mu_gen, mu.gen_case = mu.gen_case, (lambda *_a, **_k: rc)
            try:
                run_fractional_grid_family(ctx, _random.Random(0))
            finally:
                mu.fractional_grids, mu.gen_case = _orig, mu_gen
        else:
            jobs = []
            fam = dict(rc)
            fam["agg"] = bool(rc.get("agg"))
            check_family(ctx, fam, jobs)
            run_model_jobs(ctx, model, jobs)
        return
    # the generated index arithmetic against the real functions / statements; it draws from its own copy of the
    # generator state, so that the families below are the same whether or not the translation succeeded
    state = rng.getstate()
    mc_gen.run(ctx)
    rng.setstate(state)
    n_fam = 44 if quick else 2500
    fams = [gen_family(rng, measure=m, subpix=s) for m in mu.MEASURES for s in (1, 2, 4)]
    for i, f in enumerate(fams):                      # every measure x subpix with and without aggregation
        f["agg"] = True
    for _ in range(2 if quick else 12):
        fams.append(gen_family(rng, tall=True))
    while len(fams) < n_fam:
        fams.append(gen_family(rng))
    jobs = []
    for fam in fams:
        check_family(ctx, fam, jobs)
        if len(jobs) >= 60:
            run_model_jobs(ctx, model, jobs)
            jobs = []
    run_model_jobs(ctx, model, jobs)
    corpus = os.path.join(core.VERIF, "corpus", "C09", "pipelines.json")
    if os.path.exists(corpus):                        # inputs that showed a violation once, first
        import json

        for pc in json.load(open(corpus)):
            ctx.count("corpus_pipelines")
            run_pipeline_case(ctx, pc)
    for i in range(44 if quick else 3000):
        run_pipeline_case(ctx, gen_pipeline_case(rng, free=(i % 2 == 1)))
    for _ in range(30 if quick else 600):
        run_fractional_grid_family(ctx, rng)
    for _ in range(12 if quick else 400):
        ctx.count("strip_pipelines")
        run_pipeline_case(ctx, gen_strip_pipeline_case(rng))
    ctx.stats["model_calls"] = model.calls
