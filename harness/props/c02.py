"""C02 -- the cost volume holds the configured similarity measure, NaN where not computable.

T-corr: the extracted model of the matching-cost step (Model/MatchingCost.v: shifted right images,
        point_interval, pixel-wise costs, strided window sums, border re-NaN, census transform + xor +
        popcount, mean/std rasters by cumulative sums, the early all-NaN return of census / zncc on images
        smaller than the window, masks_dilatation, cv_masked) against the REAL
        code driven through the entry points the state machine uses (AbstractMatchingCost,
        allocate_cost_volume, validity_mask, compute_cost_volume, cv_masked).
Spec  : the boolean `computable` and the textbook `*_spec` of Spec/Cost.v, extracted from Coq, applied
        to the real code's cost volume (plus, on a fraction of the cases, a short independent python
        oracle as a second opinion on the extracted spec itself)."""
import math
from fractions import Fraction

import numpy as np

from harness import core
from harness import mc_gen
from harness import mc_fns
from harness import mc_util as mu

GEN = list(mc_gen.GEN) + list(mc_fns.GEN)
EXTRACT_FILES = ["X02"] + mc_gen.EXTRACT + mc_fns.EXTRACT
DRIVERS = ["x02"] + mc_gen.DRIVER + mc_fns.DRIVER
RULE = ("random image pairs 3..14 x 4..18 (mono / 2-3 bands with band selection; random, few-grey-level and "
        "nearly flat radiometry; right = shifted left + noise or independent), masks with valid/nodata/invalid "
        "cells (40% next to a border), intervals: one point, all negative, all positive, wider than the image, "
        "beyond one side, ordinary; 35% per-pixel grids with min <= max; measure x window {1,3,5,7} (census "
        "{3,5}) x subpix {1,2,4}; plus images smaller than the window, 1..w+2 rows/columns (census / zncc return "
        "early there: all NaN expected, any exception is a violation). One case = one cost volume (every "
        "cost compared). Non-trivial: the volume holds both NaN and non-NaN costs; distinct by (measure, "
        "window, subpix, size, interval/grid, masks present, hash of the images). "
        "PLUS the generated-code cases of harness/mc_gen.py (counted in the same totals; see stats gen_*): every "
        "(subpix 1/2/4, left width 1..7, right width in {same, -1, +2}, disparity up to 3 columns beyond the image) "
        "for the real point_interval against the extracted generated one (non-trivial: non-empty range), 40 random "
        "grid pairs for get_min_max_from_grid, and every sample of the real axis of 6 (subpix, width) settings for the "
        "translated statements of the four loops executed on real objects (distinct by function, subpix, width, "
        "disparity). "
        "PLUS the generated array functions of harness/mc_fns.py (stats gen_popcount_calls, gen_census_transform_calls, "
        "gen_raster_calls, gen_masks_calls): ~500 uint32 words (all single bits, all low-bit runs, random) for "
        "popcount32b; 40 random images w..w+5 x w..w+6 (random / 4 grey levels / flat / 10-bit) for census_transform "
        "(window 3, 5) and 40 for the mean / std rasters (window 1..7, flat windows planted); the masks of up to 60 real "
        "cv_masked runs (distinct by function and input)")
ASSUMES = [
    "integer radiometry (|v| <= 1023 sad/census, <= 255 zncc, <= 60 ssd so that every float32 intermediate is "
    "exact); float32 rounding on real-valued radiometry is outside the model",
    "scipy.ndimage.zoom(order=1) = linear interpolation at k/subpix and binary_dilation with a full w x w "
    "structure = window maximum: modelled, validated by this correspondence (their outputs feed the costs)",
    "both images have the same size (enforced by the input checks, C17); integer disparity grids in the model (quarter-pixel grids are run against the independent python oracle of the property only)",
    "zncc: the model and the spec are exact rationals (covariance, variances); the float value is compared "
    "with cov/sqrt(varL*varR) under the bridging tolerance, the NaN pattern and the zero-variance decision "
    "exactly; the 1e-15 relative variance guard of compute_std_raster coincides with 'variance = 0' on "
    "integer radiometry",
]
ASSUMES += mc_gen.ASSUMES + mc_fns.ASSUMES
TRUSTED = ["numpy slicing / as_strided / np.sum / nancumsum semantics as modelled in Model/MatchingCost.v "
           "(validated by the correspondence on every run)"] + mc_gen.TRUSTED + mc_fns.TRUSTED


def wire(case):
    gmin, gmax = mu.case_grids(case)
    dmin, dmax = mu.case_global_interval(case)
    return [mu.MCODE[case["measure"]], case["window"], case["subpix"], case["left"], case["right"],
            mu.band_index(case), case["mask_l"] or [], case["mask_r"] or [], gmin, gmax, dmin, dmax]


def input_class(case):
    """structural class of an input on which the real code raises"""
    w, s = case["window"], case["subpix"]
    if case["rows"] < w or case["cols"] < w + (1 if s > 1 else 0):
        return "image_smaller_than_window"
    dmin, dmax = mu.case_global_interval(case)
    if max(abs(dmin), abs(dmax)) + w > case["cols"]:
        return "disparity_beyond_image"
    if case["bands"] is not None and s > 1:
        return "multiband_subpix"
    return "other"


def describe(case):
    return {"measure": case["measure"], "window": case["window"], "subpix": case["subpix"],
            "size": [case["rows"], case["cols"]], "bands": case["bands"], "band": case["band"],
            "interval": case["disp"] if case["grids"] is None else "grids in %s" % (list(mu.case_global_interval(case)),),
            "mask_left": case["mask_l"] is not None, "mask_right": case["mask_r"] is not None}


def decode_cell(measure, cell):
    """model / spec cell -> None | Fraction | (cov, vl, vr)"""
    if cell == []:
        return None
    if measure == "zncc":
        return tuple(core.q_of(x) for x in cell)
    return core.q_of(cell)


def cell_agrees(measure, f, m):
    """float of the implementation against an exact cell"""
    if m is None:
        return math.isnan(f)
    if math.isnan(f):
        return False
    if measure == "zncc":
        cov, vl, vr = m
        if vl * vr <= 0:
            return f == 0.0           # decision compared exactly
        return core.close(f, mu.zncc_value(cov, vl, vr))
    return core.to_q(f) == m


def compare_volume(case, vol, cells, limit=3):
    """vol: numpy (rows, cols, nd); cells: decoded nested lists.  Returns list of differing (r, c, k, impl, exact)"""
    diffs = []
    m = case["measure"]
    rows, cols = case["rows"], case["cols"]
    if len(cells) != rows or (rows and len(cells[0]) != cols) or (rows and cols and len(cells[0][0]) != vol.shape[2]):
        return [("shape", list(vol.shape), [len(cells), len(cells[0]) if cells else 0])]
    for r in range(rows):
        for c in range(cols):
            vr, cr = vol[r, c], cells[r][c]
            for k in range(len(cr)):
                f = float(vr[k])
                e = decode_cell(m, cr[k])
                if not cell_agrees(m, f, e):
                    diffs.append((r, c, k, None if math.isnan(f) else f, None if e is None else str(e)))
                    if len(diffs) >= limit:
                        return diffs
    return diffs


def gen_cases(ctx, n):
    rng = ctx.rng
    cases = []
    # every measure x window x subpix at least once
    combos = [(m, w, s) for m in mu.MEASURES for w in ([3, 5] if m == "census" else [1, 3, 5, 7]) for s in (1, 2, 4)]
    combos = [c for c in combos if c[0] in SUPPORTED]
    for m, w, s in combos:
        cases.append(mu.gen_case(rng, measure=m, window=w, subpix=s, max_nd=40))
    # images smaller than / as small as the window (no or one cost is computable; census / zncc return early,
    # all NaN, when min(rows, cols) < window -- they raised there before the repair)
    for m in SUPPORTED:
        for _ in range(6 if ctx.tier == "quick" else 24):
            w = rng.choice([3, 5]) if m == "census" else rng.choice([3, 5, 7])
            c = mu.gen_case(rng, measure=m, window=w, max_nd=12)
            if rng.random() < 0.5:
                rows, cols = rng.randrange(1, w), rng.randrange(w - 2, w + 3)
            else:
                rows, cols = rng.randrange(w - 2, w + 3), rng.randrange(1, w + 1)
            rows, cols = max(rows, 1), max(cols, 1)
            small = mu.gen_case(rng, measure=m, window=w, subpix=c["subpix"], max_nd=12)
            small.update(rows=rows, cols=cols, grids=None, mask_l=None, mask_r=None, bands=None, band=None, perm_r=None,
                         left=[mu.gen_image(rng, rows, cols, 50, "rand")],
                         right=[mu.gen_image(rng, rows, cols, 50, "rand")])
            small["disp"] = [max(small["disp"][0], -3), min(max(small["disp"][1], -3), 3)]
            if small["disp"][0] > small["disp"][1]:
                small["disp"] = [small["disp"][1], small["disp"][1]]
            cases.append(small)
    while len(cases) < n:
        cases.append(mu.gen_case(rng, measure=rng.choice(SUPPORTED), max_nd=40))
    return cases


SUPPORTED = list(mu.MEASURES)


def run(ctx):
    quick = ctx.tier == "quick"
    model = core.Model("x02")
    ctx.gen_obligations = list(mc_gen.OBLIGATIONS) + list(mc_fns.OBLIGATIONS)
    if ctx.replay_case is not None and ctx.replay_case.get("kind") == "point_interval":
        mc_gen.replay_one(ctx, ctx.replay_case)
        return
    if ctx.replay_case is not None and ctx.replay_case.get("kind") in ("statements", "min_max"):
        mc_gen.run(ctx)        # statement-level cases are cheap: the whole generated-code correspondence is re-run
        return
    if ctx.replay_case is not None and ctx.replay_case.get("kind") in ("popcount", "census_transform", "rasters", "masks"):
        mc_fns.run(ctx)        # the generated-code correspondence of the array functions is cheap: re-run whole
        return
    if ctx.replay_case is not None:
        cases = [ctx.replay_case]
    else:
        state = ctx.rng.getstate()     # the volumes below are the same whether or not a translation succeeded
        mc_gen.run(ctx)
        mc_fns.run(ctx)
        ctx.rng.setstate(state)
        cases = gen_cases(ctx, 260 if quick else 4000)
    if ctx.replay_case is None:
        frac = [mu.fractional_grids(ctx.rng, mu.gen_case(ctx.rng, measure=ctx.rng.choice(SUPPORTED), max_nd=24, small=True))
                for _ in range(40 if quick else 600)]
    else:
        frac = [c for c in cases if c.get("fractional")]
        cases = [c for c in cases if not c.get("fractional")]
    if ctx.replay_case is None:
        quarter = [mu.gen_case(ctx.rng, measure=SUPPORTED[i % len(SUPPORTED)], subpix=1, max_nd=16, small=True)
                   for i in range(16 if quick else 240)]
    else:
        quarter = [dict(c, left=[[[int(round(4 * v)) for v in row] for row in b] for b in c["left"]],
                        right=[[[int(round(4 * v)) for v in row] for row in b] for b in c["right"]])
                   for c in cases if c.get("quarter_radiometry")]
        cases = [c for c in cases if not c.get("quarter_radiometry")]
    for start in range(0, len(cases), 200):
        run_chunk(ctx, model, cases[start:start + 200])
    run_fractional(ctx, frac)
    run_quarter_radiometry(ctx, model, quarter)
    ctx.stats["model_calls"] = model.calls


def run_fractional(ctx, cases):
    """per-pixel intervals whose bounds are not whole pixels (the grids of the multiscale step after a refinement,
    float grid files): the model's grids are integers, so these volumes are compared with the independent exact
    oracle of the property only (harness/mc_util.py: computable / cost_oracle) - 'NaN exactly when ... the disparity
    lies outside the pixel's [min, max] interval'"""
    for case in cases:
        m = case["measure"]
        ctx.count("fractional_grid_volumes")
        cv, exc = mu.run_impl(case)
        if exc is not None:
            ctx.case(None)
            ctx.violation("raises_fractional_grids",
                          f"{m} window {case['window']} subpix {case['subpix']} with quarter-pixel interval grids: "
                          f"{type(exc).__name__} ({str(exc)[:80]})", case)
            continue
        vol = cv["cost_volume"].data
        ctx.traces += 1
        ctx.case(("frac", m, case["window"], case["subpix"], case["rows"], case["cols"],
                  hash(str(case["grids"]) + str(case["left"]))))
        orc = mu.oracle_volume(case)
        bad = None
        if vol.shape != (case["rows"], case["cols"], len(mu.disparities(case))):
            bad = ("shape", list(vol.shape), len(mu.disparities(case)))
        else:
            for r in range(case["rows"]):
                for c in range(case["cols"]):
                    for k in range(vol.shape[2]):
                        if bad is None and not cell_agrees(m, float(vol[r, c, k]), orc[r][c][k]):
                            bad = (r, c, k, float(vol[r, c, k]), orc[r][c][k])
        ctx.count("costs_compared", int(vol.size))
        if bad is not None and bad[0] == "shape":
            ctx.violation(f"{m}_fractional_grid_axis", f"{m}: disparity axis of {bad[1]} for the interval "
                          f"{list(mu.case_global_interval(case))} at subpix {case['subpix']}", case)
        elif bad is not None:
            r, c, k, f, e = bad
            D = mu.disparities(case)[k]
            kind = "nan_pattern" if math.isnan(f) != (e is None) else "value"
            ctx.violation(f"{m}_{kind}_fractional_grid",
                          f"{m} window {case['window']} subpix {case['subpix']}: cost at row {r} col {c} disparity "
                          f"{D / case['subpix']} is {f}; the pixel's interval is [{case['grids'][0][r][c]}, "
                          f"{case['grids'][1][r][c]}] and the property gives {None if e is None else str(e)}", case)


def run_quarter_radiometry(ctx, model, cases):
    """radiometry that is not whole (calibrated / normalised images): the real code runs on image/4 (multiples of
    1/4, exact in float32), the model on the integer image; the measure is homogeneous, so a sad cost is the model's
    /4, an ssd cost the model's /16, census and zncc costs are the model's, and the reported maximal cost is
    int(d w^2) (sad), int(d^2 w^2) (ssd) of the largest radiometric difference d - i.e. the integer part of the
    model's cmax /4, /16"""
    wires = [wire(c) for c in cases]
    mres = model.batch([(1, w) for w in wires])
    for case, (hdr, mvol) in zip(cases, mres):
        m = case["measure"]
        scale = {"sad": 4, "ssd": 16, "census": 1, "zncc": 1}[m]
        qcase = dict(case, left=[[[v / 4.0 for v in row] for row in b] for b in case["left"]],
                     right=[[[v / 4.0 for v in row] for row in b] for b in case["right"]], quarter_radiometry=True)
        ctx.count("quarter_radiometry_volumes")
        cv, exc = mu.run_impl(qcase)
        if exc is not None:
            ctx.case(None)
            ctx.violation("raises_quarter_radiometry", f"{m} window {case['window']}: {type(exc).__name__} ({str(exc)[:80]}) "
                          f"on an image pair whose values are multiples of 1/4", qcase)
            continue
        ctx.traces += 1
        vol = cv["cost_volume"].data
        ctx.case(("quarter", m, case["window"], case["rows"], case["cols"], hash(str(case["left"]))))
        want_cmax = hdr[4] // scale
        if int(cv.attrs["cmax"]) != want_cmax:
            ctx.violation(f"{m}_cmax_quarter_radiometry",
                          f"{m} window {case['window']} on images with values k/4: reported cmax {cv.attrs['cmax']}, the "
                          f"measure's maximal cost on these images has integer part {want_cmax} (largest cost present: "
                          f"{float(np.nanmax(vol)) if np.isfinite(vol).any() else None})", qcase)
        bad = None
        rows, cols = case["rows"], case["cols"]
        if len(mvol) == rows and (not rows or len(mvol[0]) == cols):
            for r in range(rows):
                for c in range(cols):
                    for k in range(min(vol.shape[2], len(mvol[r][c]))):
                        e = decode_cell(m, mvol[r][c][k])
                        f = float(vol[r, c, k])
                        if m in ("sad", "ssd") and e is not None:
                            e = e / scale
                        if bad is None and not cell_agrees(m, f, e):
                            bad = (r, c, k, f, e)
        ctx.count("costs_compared", int(vol.size))
        if bad is not None:
            r, c, k, f, e = bad
            ctx.violation(f"{m}_value_quarter_radiometry",
                          f"{m} window {case['window']} subpix 1 on images with values k/4: cost at row {r} col {c} "
                          f"disparity index {k} is {f}, the measure gives {None if e is None else str(e)}", qcase)


def run_chunk(ctx, model, cases):
    wires = [wire(c) for c in cases]
    mres = model.batch([(1, w) for w in wires])
    sres = model.batch([(2, w) for w in wires])
    rres = model.batch([(3, [mu.MCODE[c["measure"]], c["rows"], c["cols"], c["window"], c["subpix"]]) for c in cases])
    for case, mr, sr, rr in zip(cases, mres, sres, rres):
        m = case["measure"]
        ctx.count("volumes_" + m)
        ctx.count("window_%d" % case["window"])
        ctx.count("subpix_%d" % case["subpix"])
        ctx.count("grids" if case["grids"] is not None else "scalar_interval")
        ctx.count("bands_%d" % (1 if case["bands"] is None else len(case["bands"])))
        ctx.count("masks_%d%d" % (case["mask_l"] is not None, case["mask_r"] is not None))
        cv, exc = mu.run_impl(case)
        if (exc is not None) != bool(rr):
            ctx.mismatch("raises", describe(case), None if exc is None else type(exc).__name__, rr)
        if exc is not None:
            ctx.case(None)
            ctx.count("impl_raises_" + type(exc).__name__)
            ctx.violation("raises_" + input_class(case),
                          f"{m} window {case['window']} subpix {case['subpix']} on a {case['rows']}x{case['cols']} "
                          f"image, interval {list(mu.case_global_interval(case))}: {type(exc).__name__} "
                          f"({str(exc)[:80]}) instead of a cost volume with NaN where not computable", case)
            continue
        vol = cv["cost_volume"].data
        ctx.traces += 1
        n_nan = int((vol != vol).sum())
        ctx.count("costs_compared", int(vol.size))
        ctx.count("costs_nan", n_nan)
        key = None
        if 0 < n_nan < vol.size:
            key = (m, case["window"], case["subpix"], case["rows"], case["cols"], tuple(mu.case_global_interval(case)),
                   case["grids"] is not None, case["mask_l"] is not None, case["mask_r"] is not None,
                   hash(str(case["left"]) + str(case["right"])))
        ctx.case(key)
        if key is not None and vol.size > 600:
            d = describe(case)
            d.update(costs=int(vol.size), nan=n_nan)
            ctx.sample(d, limit=8)
        # ---- correspondence: header + every cost
        hdr, mvol = mr
        coords = cv.coords["disp"].data
        impl_hdr = [int(math.floor(coords[0])), int(math.ceil(coords[-1])), len(coords),
                    1 if cv.attrs["type_measure"] == "min" else 0, int(cv.attrs["cmax"])]
        s = case["subpix"]
        if impl_hdr != hdr or any(float(x) != (hdr[0] * s + k) / s for k, x in enumerate(coords)):
            ctx.mismatch("cost_volume_header", describe(case), impl_hdr + [[float(x) for x in coords[:4]]], hdr)
        diffs = compare_volume(case, vol, mvol)
        if diffs:
            ctx.mismatch("cost_volume_" + m, {"case": case, "diffs": diffs}, [d[3] for d in diffs], [d[4] for d in diffs])
        # ---- spec check on the real code's output
        sd = compare_volume(case, vol, sr)
        if sd:
            r, c, k = sd[0][:3] if sd[0][0] != "shape" else (0, 0, 0)
            kind = "nan_pattern" if (sd[0][3] is None) != (sd[0][4] is None) else "value"
            ctx.violation(f"{m}_{kind}",
                          f"{m} window {case['window']} subpix {case['subpix']}: cost at row {r} col {c} disparity index "
                          f"{k} is {sd[0][3]}, the property gives {sd[0][4]}", case)
        # second opinion on the extracted spec (independent python oracle), every 8th case
        if ctx.evaluations % 8 == 0:
            orc = mu.oracle_volume(case)
            ctx.count("oracle_cross_checks")
            for r in range(case["rows"]):
                for c in range(case["cols"]):
                    for k in range(vol.shape[2]):
                        if decode_cell(m, sr[r][c][k]) != orc[r][c][k]:
                            ctx.broken_obligation("extracted-spec-vs-python-oracle",
                                                  {"case": describe(case), "at": [r, c, k]})
                            return
