"""C04 -- validity flags, NaN costs and invalid disparities tell one coherent story.

T-gen : Gen/Flags.v regenerated from pandora/constants.py (imported values) and from an `ast` scan of EVERY
        write to a validity mask in the anchored modules (operator, constant, syntactic guard); obligation
        wf_env Gen = true re-proved by vm_compute on every run.
        Gen/CriteriaFns.v regenerated from pandora/criteria.py (`ast`, statement by statement over the numpy combinators of
        Lib/NpCrit.v, fail closed): validity_mask, allocate_left_mask, allocate_right_mask (the loop), mask_invalid_variable_
        disparity_range, mask_border, binary_dilation_msk; obligations "generated = Model/Criteria.v, element by element, on
        every layout and ROI origin, err = false" (Proofs/CriteriaGenP.v, C04_gen_*), re-proved on every run.
T-corr: (A) the real criteria functions (criteria.validity_mask, then compute_cost_volume + cv_masked, called
        as PandoraMachine.matching_cost_prepare/_run call them) against the extracted Model/Criteria.v on
        generated (masks, interval or grids, window, subpix) layouts, exact;
        (B) random legal pipelines (repeated refinement / filter / validation, mc-cnn and sgm interpolation,
        median_for_intervals with regularization) run for real through pandora.run on a fresh machine; the left
        and right masks are captured after every step by wrapping the machine callbacks; every per-pixel flag
        change must be one the extracted Model/FlagSteps.v can produce for SOME decision of the step (exact,
        existential over the 1024 decisions).
Spec  : the boolean spec of Spec/Validity.v (extracted) applied to the implementation's masks after the
        matching cost; per step: only documented bits, < 4096, only the step's own bits change, border
        pixels bit 0 only, invalid flag <-> all costs NaN <-> invalid disparity before validation."""
import hashlib
import json
import os

import numpy as np

from harness import core
from harness import pandora_util as pu

GEN = ["gen_flags", "gen_criteria_fns"]
EXTRACT_FILES = ["X04"]
DRIVERS = ["x04"]
RULE = ("(A) layouts = (rows, cols, window, interval or grids, subpix, measure in sad/ssd/census/zncc, left/right masks over "
        "{valid, no-data, masked}); random layouts, layouts SMALLER than the window (rows or cols < window, window 3/5, "
        "every measure), plus 1-row layouts enumerated exhaustively (thorough: both "
        "masks x all intervals within [-3,3] x window {1,3} up to width 3, one mask exhaustive against sampled "
        "other masks up to width 7; quick: sampled); a layout is non-trivial when some pixel carries a flag "
        "other than 0 and the border value; distinct by full content. (B) pipelines = random legal words "
        "MC (A|C)* D (F|R|V)* with repeated refinement / filter / validation steps and interpolation, run on "
        "6..9 x 9..13 masked images (window 1/3/5, sad/ssd/census/zncc, subpix 1/2, invalid_disparity -9999 / NaN / 77); non-trivial when some flag changes after the disparity step; distinct by "
        "(step list, image seed)")
ASSUMES = [
    "cv.coords['col'] consecutive integers with step 1 (step_col = 1) starting anywhere (ROI: the T-gen theorems "
    "C04_gen_* hold for every origin (r0, c0) of the coordinates; the hand-written model itself works on 0-based positions), "
    "odd window sizes, integer global interval; both images carry the coordinates of the cost volume (xr.align is then the "
    "identity; other coordinates raise the error flag of the generated code and are outside the theorems)",
    "Lib/NpCrit.v: the meaning of the numpy / xarray / scipy constructs criteria.py uses (column fancy indexing with distinct "
    "non-negative indices, np.where, np.setdiff1d of an increasing array, .astype(np.uint16) = mod 65536, unbounded integers "
    "for the int64 arrays, Python slices, the cost volume seen through its NaN pattern); the three-line composition "
    "validity_mask -> mask_invalid_variable_disparity_range -> mask_border if offset > 0 (gen_after_mc) is hand-written after "
    "state_machine.matching_cost_prepare / matching_cost.cv_masked",
    "scipy.ndimage.binary_dilation by ones((w,w)) is modelled by its index contract (validated by this "
    "correspondence on every run)",
    "the 0/1 factors of the flag writes (dil, comp, msk[arg_valid]) are 0/1 (modelled as booleans)",
    "flag-level model of refinement / cross-checking / interpolation / median_for_intervals: which pixel is "
    "stopped, inconsistent, filled, regularised is an arbitrary decision (numeric side: C06, C07, C14, C10)",
    "'all costs NaN <-> no computable disparity of the global interval' is PROVED for the cost-volume models of the four "
    "built-in measures of C02 (C04_nan_pattern_sad/_census/_zncc/_every_measure, C04_invalid_iff_allnan_sad/ssd/census/"
    "zncc/every_measure; census for the windows with w*w <= 32, i.e. 1, 3, 5, as C02_census_model_eq_spec; images smaller "
    "than the window included: C04_smaller_than_window_all_invalid); the theorems that take an arbitrary NaN pattern keep "
    "the hypothesis nan_pattern_ok. For the REAL cost volumes (float32 numba / numpy kernels, tied to the models by C02's "
    "correspondence, not by this one) the pattern is observed on every volume of the run: 'invalid flag <-> all costs NaN' "
    "is checked on the implementation's own mask and volume, and all-costs-NaN is compared with the extracted "
    "'no computable disparity' spec (counter allnan_differs_from_computable_spec)",
    "the border invariant of the pipeline theorem is 'flag 1, or 2049 after a regularising median_for_intervals' (recorded "
    "finding border_regularized); own-bits of a step is proved for pixels whose flag is 1 when on the border",
    "plugin steps (optimization, semantic_segmentation), multiscale pyramids and the dead functions "
    "approximate_right_disparity / approximate_subpixel_refinement are outside the pipeline theorem",
]
TRUSTED = ["Gen/Flags.v produced by translator/gen_flags.py (constants by import, flag writes by ast)",
           "Gen/CriteriaFns.v produced by translator/gen_criteria_fns.py (ast, statement by statement, fail closed) over the "
           "combinators of Lib/NpCrit.v"]

INVALID_BEFORE_VALIDATION = 0b11000011

# proposed known findings of this worktree (merged into known_findings.json by the integrator)
_EXTRA_KNOWN = os.path.join(core.VERIF, "known_findings.b5.json")
if os.path.exists(_EXTRA_KNOWN) and not getattr(core, "_c04_known_patched", False):
    _orig_load_known = core.load_known

    def _load_known_with_proposed():
        out = list(_orig_load_known())
        have = {(k["property"], k["key"]) for k in out}
        for k in json.load(open(_EXTRA_KNOWN)).get("findings", []):
            if (k["property"], k["key"]) not in have:
                out.append(k)
        return out

    core.load_known = _load_known_with_proposed
    core._c04_known_patched = True


# --------------------------------------------------------------------------- (A) criteria layouts

MASK_VALUES = {0: 0, 1: 1, 2: 2}  # class -> raw mask value (valid_pixels = 0, no_data_mask = 1, anything else masked)


def make_images(rng, rows, cols, lcls, rcls, disp, grids=None, masked_value=2, conv_r=None):
    """integer radiometry images + masks built from class matrices (None = no `msk` variable); conv_r = the right
    dataset's own (valid_pixels, no_data_mask) codes (each dataset carries its convention in its attributes)"""
    left = np.array([[rng.randrange(0, 40) for _ in range(cols)] for _ in range(rows)])
    right = np.array([[rng.randrange(0, 40) for _ in range(cols)] for _ in range(rows)])

    def raw(cls, conv=(0, 1)):
        if cls is None:
            return None
        m = np.array(cls, dtype=np.int16)
        out = np.full_like(m, conv[0])
        out[m == 1] = conv[1]
        out[m == 2] = masked_value
        return out

    L = pu.image_dataset(left, disp=disp, mask=raw(lcls), grids=grids)
    R = pu.image_dataset(right, disp=None, mask=raw(rcls, conv_r or (0, 1)))
    if conv_r:
        R.attrs["valid_pixels"], R.attrs["no_data_mask"] = conv_r
    return L, R


def run_matching_cost(L, R, cfg):
    """the calls of PandoraMachine.matching_cost_prepare + matching_cost_run (left side)"""
    from pandora import matching_cost
    from pandora.criteria import validity_mask

    mc = matching_cost.AbstractMatchingCost(**cfg)
    dmin = L["disparity"].sel(band_disp="min").data
    dmax = L["disparity"].sel(band_disp="max").data
    cv = mc.allocate_cost_volume(L, (dmin, dmax), None)
    cv = validity_mask(L, R, cv)
    stage0 = np.array(cv["validity_mask"].data).astype(np.int64)
    cv = mc.compute_cost_volume(L, R, cv)
    mc.cv_masked(L, R, cv, dmin, dmax)
    stage1 = np.array(cv["validity_mask"].data).astype(np.int64)
    allnan = np.all(np.isnan(cv["cost_volume"].data), axis=2)
    return stage0, stage1, allnan, cv


def criteria_only(L, R, cfg):
    """criteria.validity_mask alone on an allocated cost volume"""
    from pandora import matching_cost
    from pandora.criteria import validity_mask

    mc = matching_cost.AbstractMatchingCost(**cfg)
    dmin = L["disparity"].sel(band_disp="min").data
    dmax = L["disparity"].sel(band_disp="max").data
    cv = mc.allocate_cost_volume(L, (dmin, dmax), None)
    cv = validity_mask(L, R, cv)
    return np.array(cv["validity_mask"].data).astype(np.int64)


def cls_or_zero(cls, rows, cols):
    return [[0] * cols for _ in range(rows)] if cls is None else [list(map(int, r)) for r in cls]


def model_args_criteria(rows, cols, off, dmin, dmax, lcls, rcls, allnan, stage, masked_value=2):
    def raw(cls):
        return [[{0: 0, 1: 1, 2: masked_value}[v] for v in r] for r in cls_or_zero(cls, rows, cols)]

    an = [[1 if x else 0 for x in r] for r in allnan] if allnan is not None else [[0] * cols for _ in range(rows)]
    return [rows, cols, off, dmin, dmax, lcls is not None, rcls is not None, raw(lcls), raw(rcls), 1, 0, 1, 0, an, stage]


def spec_args(rows, cols, off, dmin, dmax, lcls, rcls, gmin, gmax):
    return [rows, cols, off, dmin, dmax, cls_or_zero(lcls, rows, cols), cls_or_zero(rcls, rows, cols),
            [list(map(int, r)) for r in gmin], [list(map(int, r)) for r in gmax]]


def random_cls(rng, rows, cols, p_nd, p_inv):
    return [[(1 if (x := rng.random()) < p_nd else (2 if x < p_nd + p_inv else 0)) for _ in range(cols)]
            for _ in range(rows)]


def gen_random_layout(rng):
    w = rng.choice([1, 3, 3, 5])
    off = (w - 1) // 2
    rows = rng.randrange(max(1, w), w + 5)
    cols = rng.randrange(max(2, w + 1), w + 9)
    a, b = rng.randrange(-4, 5), rng.randrange(-4, 5)
    dmin, dmax = min(a, b), max(a, b)
    if rng.random() < 0.15:
        # intervals that leave the image entirely for some / all columns
        s = rng.choice([-1, 1]) * rng.randrange(cols - 2, cols + 3)
        dmin, dmax = dmin + s, dmax + s
    p_nd, p_inv = rng.choice([(0.0, 0.0), (0.1, 0.1), (0.25, 0.1), (0.1, 0.3), (0.5, 0.3)])
    lcls = random_cls(rng, rows, cols, p_nd, p_inv) if rng.random() < 0.85 else None
    rcls = random_cls(rng, rows, cols, p_nd, p_inv) if rng.random() < 0.85 else None
    subpix = rng.choice([1, 1, 2, 4])
    method = rng.choice(["sad", "ssd", "census", "zncc"]) if w in (3, 5) else rng.choice(["sad", "ssd", "zncc"])
    grids = None
    if rng.random() < 0.3:
        gmin = [[rng.randrange(dmin, dmax + 1) for _ in range(cols)] for _ in range(rows)]
        gmax = [[rng.randrange(g, dmax + 1) for g in r] for r in gmin]
        # the global interval is (min of min grid, max of max grid): pin both ends somewhere
        gmin[rng.randrange(rows)][rng.randrange(cols)] = dmin
        i, j = rng.randrange(rows), rng.randrange(cols)
        gmax[i][j] = dmax
        gmin[i][j] = min(gmin[i][j], dmax)
        grids = (gmin, gmax)
    origin = (rng.randrange(0, 40), rng.randrange(1, 60)) if rng.random() < 0.3 else None
    if rng.random() < 0.03:
        # an interval of 256 disparities or more (per-disparity counters of allocate_right_mask), far wider than the image
        dmin, dmax = -rng.randrange(120, 200), rng.randrange(136, 180)
        grids, subpix = None, 1
        method = rng.choice(["sad", "ssd"])
        # mostly masked right image, mostly valid left image: for many pixels every in-image candidate is masked (bit 7)
        rcls = random_cls(rng, rows, cols, 0.05, 0.8)
        lcls = random_cls(rng, rows, cols, 0.05, 0.05) if rng.random() < 0.5 else None
    masked_value = rng.choice([2, 2, 5, 255, -3])
    conv_r = None
    if rcls is not None and rng.random() < 0.3:
        conv_r = rng.choice([c for c in [(5, 7), (4, 0), (1, 0), (7, 6)] if masked_value not in c])
    return dict(rows=rows, cols=cols, w=w, off=off, dmin=dmin, dmax=dmax, lcls=lcls, rcls=rcls, subpix=subpix,
                method=method, grids=grids, masked_value=masked_value, full=True, origin=origin, conv_r=conv_r)


def gen_small_layout(rng):
    """an image smaller than the window in rows, in columns or in both (no window fits: every cost is NaN, for
    census / zncc through the early return; every pixel must carry bit 0 only)"""
    w = rng.choice([3, 3, 5])
    off = (w - 1) // 2
    which = rng.choice(["rows", "cols", "both"])
    rows = rng.randrange(1, w) if which in ("rows", "both") else rng.randrange(w, w + 4)
    cols = rng.randrange(1, w) if which in ("cols", "both") else rng.randrange(w, w + 6)
    a, b = rng.randrange(-3, 4), rng.randrange(-3, 4)
    dmin, dmax = min(a, b), max(a, b)
    p_nd, p_inv = rng.choice([(0.0, 0.0), (0.1, 0.1), (0.3, 0.2)])
    lcls = random_cls(rng, rows, cols, p_nd, p_inv) if rng.random() < 0.7 else None
    rcls = random_cls(rng, rows, cols, p_nd, p_inv) if rng.random() < 0.7 else None
    grids = None
    if rng.random() < 0.25 and dmin < dmax:
        gmin = [[rng.randrange(dmin, dmax + 1) for _ in range(cols)] for _ in range(rows)]
        gmax = [[rng.randrange(g, dmax + 1) for g in r] for r in gmin]
        gmin[rng.randrange(rows)][rng.randrange(cols)] = dmin
        i, j = rng.randrange(rows), rng.randrange(cols)
        gmax[i][j] = dmax
        gmin[i][j] = min(gmin[i][j], dmax)
        grids = (gmin, gmax)
    return dict(rows=rows, cols=cols, w=w, off=off, dmin=dmin, dmax=dmax, lcls=lcls, rcls=rcls,
                subpix=rng.choice([1, 1, 2, 4]), method=rng.choice(["sad", "ssd", "census", "zncc"]), grids=grids,
                masked_value=rng.choice([2, 2, 5, 255, -3]), full=True, small=True)


def embed_row(row_cls, w):
    """a 1-row layout as the middle row of a w-row image (other rows valid)"""
    if w == 1:
        return [list(row_cls)]
    off = (w - 1) // 2
    cols = len(row_cls)
    return [[0] * cols for _ in range(off)] + [list(row_cls)] + [[0] * cols for _ in range(off)]


def one_row_layout(lrow, rrow, w, dmin, dmax):
    off = (w - 1) // 2
    return dict(rows=w, cols=len(lrow), w=w, off=off, dmin=dmin, dmax=dmax, lcls=embed_row(lrow, w),
                rcls=embed_row(rrow, w), subpix=1, method="sad", grids=None, masked_value=2, full=False)


def all_rows(width):
    out = [[]]
    for _ in range(width):
        out = [r + [v] for r in out for v in (0, 1, 2)]
    return out


INTERVALS = [(a, b) for a in range(-3, 4) for b in range(a, 4)]


def gen_one_row_layouts(ctx):
    rng = ctx.rng
    quick = ctx.tier == "quick"
    out = []
    if quick:
        for _ in range(700):
            width = rng.randrange(1, 8)
            w = rng.choice([1, 3])
            lrow = [rng.choice([0, 0, 1, 2]) for _ in range(width)]
            rrow = [rng.choice([0, 0, 1, 2]) for _ in range(width)]
            out.append(one_row_layout(lrow, rrow, w, *rng.choice(INTERVALS)))
        ctx.stats["one_row_mode"] = "sampled (quick)"
    else:
        n_ex = 0
        for width in range(1, 4):
            rows_ = all_rows(width)
            for w in (1, 3):
                for lrow in rows_:
                    for rrow in rows_:
                        for iv in INTERVALS:
                            out.append(one_row_layout(lrow, rrow, w, *iv))
                            n_ex += 1
        for width in range(4, 8):
            rows_ = all_rows(width)
            for w in (1, 3):
                for row in rows_:
                    for _ in range(2):
                        other = [rng.choice([0, 0, 1, 2]) for _ in range(width)]
                        out.append(one_row_layout(row, other, w, *rng.choice(INTERVALS)))
                        out.append(one_row_layout(other, row, w, *rng.choice(INTERVALS)))
        ctx.stats["one_row_mode"] = (f"exhaustive both masks x 28 intervals x window {{1,3}} for width <= 3 "
                                     f"({n_ex} layouts); width 4-7: each mask exhaustive against sampled other masks")
    return out


def check_layouts(ctx, model, layouts, label):
    """run implementation + model + spec on layouts; compare"""
    rng = ctx.rng
    impl = []
    margs = []
    for lay in layouts:
        rows, cols, off = lay["rows"], lay["cols"], lay["off"]
        disp = (lay["dmin"], lay["dmax"])
        L, R = make_images(rng, rows, cols, lay["lcls"], lay["rcls"], disp, lay["grids"], lay["masked_value"],
                           conv_r=lay.get("conv_r"))
        if lay.get("conv_r"):
            ctx.count("layouts_with_another_right_mask_convention")
        if lay.get("origin"):
            # the pair read through a ROI: row / col coordinates are those of the full image (they do not start at 0);
            # flags are a function of positions inside the datasets, so nothing may change
            r0, c0 = lay["origin"]
            L = L.assign_coords(row=L.coords["row"].data + r0, col=L.coords["col"].data + c0)
            R = R.assign_coords(row=R.coords["row"].data + r0, col=R.coords["col"].data + c0)
            ctx.count("layouts_with_roi_coordinates")
        cfg = {"matching_cost_method": lay["method"], "window_size": lay["w"], "subpix": lay["subpix"]}
        rec = {"err": None}
        try:
            if lay["full"]:
                s0, s1, allnan, _ = run_matching_cost(L, R, cfg)
                rec.update(s0=s0, s1=s1, allnan=allnan)
            else:
                rec.update(s0=criteria_only(L, R, cfg), s1=None, allnan=None)
        except Exception as exc:  # pylint: disable=broad-except
            # the matching cost itself raises on this layout (interval wider than the image: C02 / D10);
            # the criteria function is still compared
            ctx.count("layouts_matching_cost_raised")
            ctx.stats.setdefault("matching_cost_errors", [])
            if len(ctx.stats["matching_cost_errors"]) < 3:
                ctx.stats["matching_cost_errors"].append(
                    {"layout": {k: lay[k] for k in ("rows", "cols", "w", "dmin", "dmax", "method", "subpix")},
                     "error": f"{type(exc).__name__}: {exc}"[:120]})
            if lay.get("small"):
                # no measure raises on an image smaller than the window (sad / ssd: NaN through the index arithmetic,
                # census / zncc: early all-NaN return); the theorems read an all-NaN volume there
                ctx.mismatch("matching cost raised on an image smaller than the window",
                             {"kind": "layout", "layout": lay}, f"{type(exc).__name__}: {exc}"[:200], "an all-NaN volume")
            lay = dict(lay, full=False)
            try:
                rec.update(s0=criteria_only(L, R, cfg), s1=None, allnan=None)
            except Exception as exc2:  # pylint: disable=broad-except
                rec["err"] = f"{type(exc2).__name__}: {exc2}"
        impl.append((lay, rec))
        if rec["err"] is None:
            margs.append((1, model_args_criteria(rows, cols, off, lay["dmin"], lay["dmax"], lay["lcls"], lay["rcls"],
                                                 None, 0, lay["masked_value"])))
            if lay["full"]:
                margs.append((1, model_args_criteria(rows, cols, off, lay["dmin"], lay["dmax"], lay["lcls"],
                                                     lay["rcls"], rec["allnan"], 1, lay["masked_value"])))
                if lay["grids"] is None:
                    gmin = [[lay["dmin"]] * cols for _ in range(rows)]
                    gmax = [[lay["dmax"]] * cols for _ in range(rows)]
                else:
                    gmin, gmax = lay["grids"]
                margs.append((2, spec_args(rows, cols, off, lay["dmin"], lay["dmax"], lay["lcls"], lay["rcls"],
                                           gmin, gmax)))
    mres = iter(model.batch(margs))
    for lay, rec in impl:
        ctx.count(f"layouts_{label}")
        replay = {"kind": "layout", "layout": lay}
        if rec["err"] is not None:
            ctx.count("layouts_criteria_raised")
            ctx.case(None)
            ctx.mismatch("criteria.validity_mask raised", replay, rec["err"][:200], "a mask")
            continue
        m0 = np.array(next(mres), dtype=np.int64).reshape(rec["s0"].shape)
        ctx.traces += 1
        final = rec["s1"] if lay["full"] else rec["s0"]
        nontriv = bool(np.any((final != 0) & (final != 1)))
        ctx.case((label, json.dumps(lay, sort_keys=True, default=str)) if nontriv else None)
        if not np.array_equal(m0, rec["s0"]):
            ctx.mismatch("criteria.validity_mask", replay, rec["s0"].tolist(), m0.tolist())
        if not lay["full"]:
            continue
        m1 = np.array(next(mres), dtype=np.int64).reshape(rec["s1"].shape)
        spec = next(mres)
        exp = np.array(spec[0], dtype=np.int64).reshape(rec["s1"].shape)
        nocost = np.array(spec[1], dtype=np.int64).reshape(rec["s1"].shape).astype(bool)
        if not np.array_equal(m1, rec["s1"]):
            ctx.mismatch("cv_masked", replay, rec["s1"].tolist(), m1.tolist())
        ctx.sample({"kind": "layout", "window": lay["w"], "interval": [lay["dmin"], lay["dmax"]],
                    "subpix": lay["subpix"], "grids": lay["grids"] is not None, "left_classes": lay["lcls"],
                    "right_classes": lay["rcls"], "flags_after_matching_cost": rec["s1"].tolist()}, limit=3)
        # ---- spec checks on the implementation's own outputs
        s1, allnan = rec["s1"], rec["allnan"]
        flagged = (s1 & INVALID_BEFORE_VALIDATION) != 0
        if not np.array_equal(flagged, allnan):
            i, j = map(int, np.argwhere(flagged != allnan)[0])
            ctx.violation("invalid_flag_vs_allnan",
                          f"after the matching cost pixel ({i},{j}) has flag {int(s1[i, j])} but all-costs-NaN is "
                          f"{bool(allnan[i, j])} (window {lay['w']}, interval [{lay['dmin']},{lay['dmax']}])", replay)
        ctx.count("volumes_" + lay["method"])
        if lay.get("small"):
            # C04_smaller_than_window_all_invalid: every pixel carries bit 0 only, every cost is NaN
            ctx.count("smaller_than_window_" + lay["method"])
            if np.any(s1 != 1) or not bool(np.all(allnan)):
                i, j = map(int, np.argwhere((s1 != 1) | ~allnan)[0])
                ctx.violation("smaller_than_window_not_all_bit0",
                              f"{lay['rows']}x{lay['cols']} image, window {lay['w']} ({lay['method']}): pixel ({i},{j}) carries "
                              f"{int(s1[i, j])} and all-costs-NaN is {bool(allnan[i, j])}; no window fits, every pixel "
                              f"must carry bit 0 only and no cost is computable", replay)
        if not np.array_equal(allnan, nocost):
            # C02's statement (NaN <-> not computable); counted, reported as a violation of the story only when
            # it breaks the flag side as well (caught above / below)
            ctx.count("allnan_differs_from_computable_spec")
        if not np.array_equal(exp, s1) and np.array_equal(allnan, nocost):
            i, j = map(int, np.argwhere(exp != s1)[0])
            bad_bits = int(exp[i, j]) ^ int(s1[i, j])
            ctx.violation("criteria_bit_" + "_".join(str(b) for b in range(12) if bad_bits >> b & 1),
                          f"after the matching cost pixel ({i},{j}) carries {int(s1[i, j])}, the documented causes "
                          f"give {int(exp[i, j])} (window {lay['w']}, interval [{lay['dmin']},{lay['dmax']}], "
                          f"subpix {lay['subpix']})", replay)


def part_a(ctx, model):
    rng = ctx.rng
    quick = ctx.tier == "quick"
    if ctx.replay_case is not None:
        if ctx.replay_case.get("kind") == "layout":
            check_layouts(ctx, model, [ctx.replay_case["layout"]], "replay")
        return
    n = 350 if quick else 5000
    check_layouts(ctx, model, [gen_random_layout(rng) for _ in range(n)], "random")
    check_layouts(ctx, model, [gen_small_layout(rng) for _ in range(120 if quick else 1500)], "smaller_than_window")
    one = gen_one_row_layouts(ctx)
    for i in range(0, len(one), 20000):
        check_layouts(ctx, model, one[i:i + 20000], "one_row")


# --------------------------------------------------------------------------- (B) whole pipelines

KIND_STEP = {"filter": 0, "refinement": 2, "validation": 3, "multiscale": 4}
ICODE = {None: 0, "mc-cnn": 1, "sgm": 2}
OWN_BITS = {"refinement": 8, "validation": 256 + 512, "validation+interp": 256 + 512 + 16 + 32, "mfi_reg": 2048, "none": 0}
CV_KINDS = ("aggregation", "optimization", "semantic_segmentation", "cost_volume_confidence")


def gen_pipeline_case(rng, idx):
    rows, cols = rng.randrange(6, 10), rng.randrange(9, 14)
    w = rng.choice([1, 3, 3, 5])
    method = rng.choice(["sad", "ssd", "census", "zncc"]) if w in (3, 5) else rng.choice(["sad", "ssd", "zncc"])
    a, b = rng.randrange(-3, 4), rng.randrange(-3, 4)
    disp = [min(a, b), max(a, b)]
    shift = rng.randrange(-1, 2)
    base = [[rng.randrange(0, 40) for _ in range(cols + 8)] for _ in range(rows)]
    left = [[base[r][c + 4] + rng.randrange(0, 3) for c in range(cols)] for r in range(rows)]
    right = [[base[r][c + 4 + shift] + (rng.randrange(0, 25) if rng.random() < 0.15 else 0) for c in range(cols)]
             for r in range(rows)]
    p_nd, p_inv = rng.choice([(0.0, 0.0), (0.03, 0.03), (0.06, 0.02), (0.02, 0.08)])
    ml = random_cls(rng, rows, cols, p_nd, p_inv) if rng.random() < 0.8 else None
    mr = random_cls(rng, rows, cols, p_nd, p_inv) if rng.random() < 0.8 else None
    steps = [["matching_cost", {"matching_cost_method": method, "window_size": w, "subpix": rng.choice([1, 1, 2])}]]
    use_mfi = rng.random() < 0.35
    if rng.random() < 0.15:
        steps.append(["aggregation", {"aggregation_method": "cbca"}])
    if use_mfi:
        steps.append(["cost_volume_confidence.amb", {"confidence_method": "ambiguity", "eta_max": 0.7, "eta_step": 0.1}])
        steps.append(["cost_volume_confidence.int", {"confidence_method": "interval_bounds"}])
    elif rng.random() < 0.2:
        steps.append(["cost_volume_confidence", {"confidence_method": "std_intensity"}])
    steps.append(["disparity", {"disparity_method": "wta", "invalid_disparity": rng.choice([-9999, "NaN", 77])}])
    counts = {}
    for _ in range(rng.choice([0, 1, 2, 3, 3, 4, 5, 6])):
        kind = rng.choice(["filter", "refinement", "refinement", "validation", "validation"])
        n = counts.get(kind, 0)
        counts[kind] = n + 1
        name = kind if n == 0 else f"{kind}.{n}"
        if kind == "filter":
            c = rng.choice(["median", "bilateral", "mfi", "mfi"]) if use_mfi else rng.choice(["median", "bilateral"])
            if c == "median":
                cfg = {"filter_method": "median", "filter_size": 3}
            elif c == "bilateral":
                cfg = {"filter_method": "bilateral", "sigma_color": 2.0, "sigma_space": 1.0}
            else:
                cfg = {"filter_method": "median_for_intervals", "filter_size": 3, "interval_indicator": "int",
                       "regularization": rng.random() < 0.75, "ambiguity_indicator": "amb",
                       "ambiguity_threshold": rng.choice([0.3, 0.5, 0.7]), "ambiguity_kernel_size": 3,
                       "vertical_depth": rng.choice([0, 1]), "quantile_regularization": 0.9}
        elif kind == "refinement":
            cfg = {"refinement_method": rng.choice(["vfit", "quadratic"])}
        else:
            cfg = {"validation_method": "cross_checking_accurate",
                   "cross_checking_threshold": rng.choice([0, 1, 1.0, 2])}
            i = rng.choice([None, "mc-cnn", "sgm", "sgm"])
            if i is not None:
                cfg["interpolated_disparity"] = i
        steps.append([name, cfg])
    if idx % 6 == 5:
        # a scene made of two fronto-parallel planes (an occluded band between them) that goes through SEVERAL filling
        # validation steps: the pixels one validation filled are judged, and possibly flagged and filled, again
        rows, cols = rng.randrange(6, 10), rng.randrange(16, 26)
        s1, s2 = rng.choice([(-2, 1), (2, -1), (-1, 2), (1, -2)])
        cut = cols // 2 + rng.randrange(-2, 3)
        base = [[rng.randrange(0, 60) for _ in range(cols + 12)] for _ in range(rows)]
        left = [[base[r][c + 6] for c in range(cols)] for r in range(rows)]
        right = [[base[r][c + 6 - (s1 if c < cut else s2)] for c in range(cols)] for r in range(rows)]
        w = rng.choice([1, 3])
        disp = [-3, 3]
        ml = mr = None
        steps = [["matching_cost", {"matching_cost_method": rng.choice(["sad", "census"]) if w == 3 else "sad",
                                    "window_size": w, "subpix": 1}],
                 ["disparity", {"disparity_method": "wta", "invalid_disparity": rng.choice([-9999, "NaN"])}]]
        for k in range(rng.choice([2, 2, 3])):
            steps.append(["validation" if k == 0 else f"validation.{k}",
                          {"validation_method": "cross_checking_accurate", "cross_checking_threshold": rng.choice([0, 1]),
                           "interpolated_disparity": rng.choice(["mc-cnn", "sgm"])}])
            if rng.random() < 0.3:
                steps.append(["filter" if k == 0 else f"filter.{k}", {"filter_method": "median", "filter_size": 3}])
    return {"rows": rows, "cols": cols, "w": w, "left": left, "right": right, "mask_left": ml, "mask_right": mr,
            "disp": disp, "steps": steps, "id": idx}


def cls_to_raw(cls):
    if cls is None:
        return None
    m = np.array(cls, dtype=np.int16)
    out = np.zeros_like(m)
    out[m == 1] = 1
    out[m == 2] = 2
    return out


def run_pipeline_spied(case):
    """pandora.run on a fresh machine whose run callbacks snapshot the validity masks (and the left
    disparity map) after every step"""
    import pandora
    from pandora.state_machine import PandoraMachine

    L = pu.image_dataset(np.array(case["left"]), disp=tuple(case["disp"]), mask=cls_to_raw(case["mask_left"]))
    R = pu.image_dataset(np.array(case["right"]), disp=(-case["disp"][1], -case["disp"][0]),
                         mask=cls_to_raw(case["mask_right"]))
    m = PandoraMachine()
    snaps = []

    def grab(ds, var="validity_mask"):
        if ds is None or var not in ds:
            return None
        return np.array(ds[var].data).copy()

    for kind in pu.KINDS:
        cb = "run_multiscale" if kind == "multiscale" else kind + "_run"
        orig = getattr(m, cb)

        def wrapper(cfg, input_step, _orig=orig, _m=m):
            res = _orig(cfg, input_step)
            on_disp = _m.left_disparity is not None and "validity_mask" in _m.left_disparity
            left = grab(_m.left_disparity) if on_disp else grab(_m.left_cv)
            right = None
            if _m.right_disp_map == "cross_checking_accurate":
                right = grab(_m.right_disparity) if on_disp else grab(_m.right_cv)
            with_right = right is not None
            snaps.append({"step": input_step, "left": left, "right": right,
                          "disp": grab(_m.left_disparity, "disparity_map") if on_disp else None,
                          "cv": grab(_m.left_cv, "cost_volume") if (_m.left_cv is not None and not on_disp) else None,
                          "disp_r": grab(_m.right_disparity, "disparity_map") if (on_disp and with_right) else None,
                          "cv_r": grab(_m.right_cv, "cost_volume")
                          if (with_right and _m.right_cv is not None and not on_disp) else None})
            return res

        setattr(m, cb, wrapper)
    pandora.run(m, L, R, {"pipeline": {n: dict(c) for n, c in case["steps"]}})
    return snaps


def step_own(kind, cfg):
    if kind == "refinement":
        return OWN_BITS["refinement"]
    if kind == "validation":
        return OWN_BITS["validation+interp"] if "interpolated_disparity" in cfg else OWN_BITS["validation"]
    if kind == "filter" and cfg.get("filter_method") == "median_for_intervals" and cfg.get("regularization"):
        return OWN_BITS["mfi_reg"]
    return 0


def part_b(ctx, model):
    rng = ctx.rng
    quick = ctx.tier == "quick"
    if ctx.replay_case is not None:
        if ctx.replay_case.get("kind") != "pipeline":
            return
        cases = [ctx.replay_case["case"]]
    else:
        cases = [gen_pipeline_case(rng, i) for i in range(70 if quick else 900)]
    pending = []   # (case, side, step name, kind, cfg, old, new, border mask)
    queries = {}
    for case in cases:
        replay = {"kind": "pipeline", "case": case}
        names = [n for n, _ in case["steps"]]
        try:
            snaps = run_pipeline_spied(case)
        except Exception as exc:  # pylint: disable=broad-except
            ctx.case(None)
            ctx.count("pipelines_raised_" + type(exc).__name__)
            ctx.mismatch("pipeline_raised", replay, f"{type(exc).__name__}: {exc}"[:200], "a run")
            continue
        ctx.traces += 1
        ctx.count("pipelines_run")
        off = (case["w"] - 1) // 2
        rows, cols = case["rows"], case["cols"]
        border = np.ones((rows, cols), dtype=bool)
        if off == 0:
            border[:, :] = False
        elif rows > 2 * off and cols > 2 * off:
            border[off:rows - off, off:cols - off] = False
        cfgs = dict((n, c) for n, c in case["steps"])
        inv_disp = cfgs["disparity"]["invalid_disparity"]
        seen_validation = False
        changed_after_disp = False
        prev = {"left": None, "right": None}
        for sn in snaps:
            name = sn["step"]
            kind = name.split(".")[0]
            ctx.count("step_" + kind)
            for side in ("left", "right"):
                new = sn[side]
                old = prev[side]
                if new is None:
                    continue
                new = new.astype(np.int64)
                # ---- spec on the implementation's own masks, every step
                if np.any(new >= 4096) or np.any(new < 0) or np.any(new & 1024):
                    i, j = map(int, np.argwhere((new >= 4096) | (new < 0) | ((new & 1024) != 0))[0])
                    ctx.violation("undocumented_bit_after_" + kind,
                                  f"pipeline {names}: after {name} the {side} flag of pixel ({i},{j}) is {int(new[i, j])} "
                                  f"(before: {None if old is None else int(old[i, j])})", replay)
                if np.any((new & 256 != 0) & (new & 512 != 0)):
                    i, j = map(int, np.argwhere((new & 256 != 0) & (new & 512 != 0))[0])
                    ctx.violation("occlusion_and_mismatch", f"pipeline {names}: after {name} the {side} flag of pixel "
                                  f"({i},{j}) is {int(new[i, j])}: both occlusion and mismatch", replay)
                bb = border & (new != 1)
                if np.any(bb):
                    i, j = map(int, np.argwhere(bb)[0])
                    key = "border_regularized" if int(new[i, j]) == 2049 else "border_not_bit0_after_" + kind
                    ctx.violation(key, f"pipeline {names}: after {name} the {side} border pixel ({i},{j}) carries "
                                       f"{int(new[i, j])} instead of 1 (window {case['w']})", replay)
                if kind == "matching_cost" or old is None:
                    prev[side] = new
                    continue
                if kind in CV_KINDS or kind == "disparity":
                    if not np.array_equal(old, new):
                        i, j = map(int, np.argwhere(old != new)[0])
                        ctx.violation("flags_changed_by_" + kind, f"pipeline {names}: {name} changed the {side} flag of "
                                      f"pixel ({i},{j}) from {int(old[i, j])} to {int(new[i, j])}", replay)
                    prev[side] = new
                    continue
                # "raising one criterion never alters another bit": what an earlier step recorded as filled
                # (bits 4 and 5) stays recorded, whatever a later step - a second filling validation included - raises
                cleared = old & (16 | 32) & ~new
                if np.any(cleared != 0):
                    i, j = map(int, np.argwhere(cleared != 0)[0])
                    ctx.violation("filled_bit_cleared_by_" + kind,
                                  f"pipeline {names}: {name} changed the {side} flag of pixel ({i},{j}) from {int(old[i, j])} "
                                  f"to {int(new[i, j])}: the pixel was filled by an earlier step and no longer says so", replay)
                own = step_own(kind, cfgs[name])
                foreign = (old ^ new) & ~own
                if np.any(foreign != 0):
                    i, j = map(int, np.argwhere(foreign != 0)[0])
                    if border[i, j] and int(old[i, j]) == 2049 and int(new[i, j]) == 1:
                        key = "border_regularized"
                    else:
                        key = "foreign_bit_changed_by_" + kind
                    ctx.violation(key, f"pipeline {names}: {name} changed the {side} flag of pixel ({i},{j}) from "
                                       f"{int(old[i, j])} to {int(new[i, j])}: bits outside the step's own {own}", replay)
                if not np.array_equal(old, new):
                    changed_after_disp = True
                pending.append((replay, names, side, name, kind, cfgs[name], old, new, border, off > 0))
                icode = ICODE[cfgs[name].get("interpolated_disparity")] if kind == "validation" else 0
                scode = KIND_STEP[kind]
                if kind == "filter" and cfgs[name].get("filter_method") == "median_for_intervals" \
                        and cfgs[name].get("regularization"):
                    scode = 1
                for bflag in (False, True):
                    sel = border if bflag else ~border
                    for v in np.unique(old[sel]):
                        queries[(scode, icode, off > 0, bflag, int(v))] = None
                pending[-1] += (scode, icode)
                prev[side] = new
            # ---- before validation: invalid flag <-> all costs NaN <-> invalid disparity (left side)
            if kind == "validation":
                seen_validation = True
            # (both sides: the right products carry the same story about the right image)
            for side_, mkey, ckey, dkey in (("left", "left", "cv", "disp"), ("right", "right", "cv_r", "disp_r")):
                lm_ = sn[mkey]
                if lm_ is not None and sn.get(ckey) is not None and kind == "matching_cost":
                    allnan = np.all(np.isnan(sn[ckey]), axis=2)
                    flagged = (lm_.astype(np.int64) & INVALID_BEFORE_VALIDATION) != 0
                    if not np.array_equal(allnan, flagged):
                        i, j = map(int, np.argwhere(allnan != flagged)[0])
                        ctx.violation("invalid_flag_vs_allnan" + ("" if side_ == "left" else "_right"),
                                      f"pipeline {names}: after {name} the {side_} pixel ({i},{j}) has flag "
                                      f"{int(lm_[i, j])} but all-costs-NaN is {bool(allnan[i, j])}", replay)
                if lm_ is not None and sn.get(dkey) is not None and not seen_validation:
                    d = sn[dkey]
                    isinv = np.isnan(d) if inv_disp == "NaN" else (d == inv_disp)
                    flagged = (lm_.astype(np.int64) & INVALID_BEFORE_VALIDATION) != 0
                    if not np.array_equal(isinv, flagged):
                        i, j = map(int, np.argwhere(isinv != flagged)[0])
                        ctx.violation("invalid_flag_vs_invalid_disparity" + ("" if side_ == "left" else "_right"),
                                      f"pipeline {names}: after {name} (before validation) the {side_} pixel ({i},{j}) has "
                                      f"flag {int(lm_[i, j])} and disparity {float(d[i, j])} (invalid_disparity {inv_disp})",
                                      replay)
        ctx.case((tuple(names), hashlib.sha1(repr((case["left"], case["right"])).encode()).hexdigest()[:12])
                 if changed_after_disp else None)
        ctx.sample({"kind": "pipeline", "steps": names, "shape": [rows, cols], "window": case["w"],
                    "interval": case["disp"],
                    "final_left_flags": None if not snaps or snaps[-1]["left"] is None else snaps[-1]["left"].tolist()},
                   limit=3)
    # ---- correspondence: every observed per-pixel transition is one the model can produce for some decision
    keys = sorted(queries)
    res = model.batch([(3, [k[0], k[1], k[2], k[3], k[4]]) for k in keys])
    table = {k: (set(r[0]), r[1] == 1) for k, r in zip(keys, res)}
    ctx.stats["distinct_step_queries"] = len(keys)
    for replay, names, side, name, kind, cfg, old, new, border, offpos, scode, icode in pending:
        for bflag in (False, True):
            sel = border if bflag else ~border
            for v in np.unique(old[sel]):
                allowed, okall = table[(scode, icode, offpos, bflag, int(v))]
                got = set(int(x) for x in np.unique(new[sel & (old == v)]))
                ctx.count("transitions_checked", len(got))
                if not got <= allowed:
                    ctx.mismatch("flag_step_" + kind,
                                 {"kind": "pipeline", "case": replay["case"], "step": name, "side": side,
                                  "old": int(v), "border": bflag},
                                 sorted(got), sorted(allowed))
                if not okall:
                    ctx.count("transitions_with_possible_carry")


def run(ctx):
    model = core.Model("x04")
    wf, unsafe = model.call(4, [])
    import gen_criteria_fns
    ctx.gen_obligations = (["wf_env (mkEnv Gen.Flags.consts Gen.Flags.flag_sites) = true (vm_compute)"]
                           + list(gen_criteria_fns.OBLIGATIONS))
    ctx.stats["unsafe_repetition_classes_of_this_tree"] = unsafe
    if wf != 1:
        ctx.broken_obligation("wf_env", "the regenerated flag sites / constants are not well-formed")
    part_a(ctx, model)
    part_b(ctx, model)
