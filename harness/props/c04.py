"""C04 -- validity flags, NaN costs and invalid disparities tell one coherent story.

T-gen : Gen/Flags.v regenerated from pandora/constants.py (imported values) and from an `ast` scan of EVERY
        write to a validity mask in the anchored modules (operator, constant, syntactic guard); obligation
        wf_env Gen = true re-proved by vm_compute on every run.
T-corr: (A) the real criteria functions (criteria.validity_mask, then compute_cost_volume + cv_masked, called
        as PandoraMachine.matching_cost_prepare/_run call them) against the extracted Model/Criteria.v on
        generated (masks, interval or grids, window, subpix) layouts, exact;
        (B) random legal pipelines run for real through pandora.run; the masks are captured after every step
        by wrapping the machine callbacks; every per-pixel flag change must be one the extracted
        Model/FlagSteps.v can produce for SOME decision of the step (exact, existential over decisions).
Spec  : the boolean spec of Spec/Validity.v (extracted) applied to the implementation's masks after the
        matching cost; per step: only documented bits, < 4096, only the step's own bits change, border
        pixels bit 0 only, invalid flag <-> all costs NaN <-> invalid disparity before validation."""
import json
import os

import numpy as np

from harness import core
from harness import pandora_util as pu

GEN = ["gen_flags"]
EXTRACT_FILES = ["X04"]
DRIVERS = ["x04"]
RULE = ("(A) layouts = (rows, cols, window, interval or grids, subpix, measure, left/right masks over "
        "{valid, no-data, masked}); random layouts plus 1-row layouts enumerated exhaustively (thorough: both "
        "masks x all intervals within [-3,3] x window {1,3} up to width 4, one mask exhaustive against sampled "
        "other masks up to width 7; quick: sampled); a layout is non-trivial when some pixel carries a flag "
        "other than 0 and the border value; distinct by full content. (B) pipelines = random legal words "
        "MC (A|C)* D (F|R|V)* with repeated refinement / filter / validation steps and interpolation, run on "
        "8x12 masked images; non-trivial when some flag changes after the disparity step; distinct by "
        "(step list, image seed)")
ASSUMES = [
    "cv.coords['col'] = 0..nc-1 with step 1 (no ROI, step_col = 1), odd window sizes, integer global interval",
    "scipy.ndimage.binary_dilation by ones((w,w)) is modelled by its index contract (validated by this "
    "correspondence on every run)",
    "the 0/1 factors of the flag writes (dil, comp, msk[arg_valid]) are 0/1 (modelled as booleans)",
    "flag-level model of refinement / cross-checking / interpolation / median_for_intervals: which pixel is "
    "stopped, inconsistent, filled, regularised is an arbitrary decision (numeric side: C06, C07, C14, C10)",
    "'all costs NaN <-> no computable disparity' (C02) is checked here on the real cost volumes, not proved; "
    "the theorems take the NaN pattern of the spec (computable) as the input of mask_invalid_variable_disparity_range",
    "plugin steps (optimization, semantic_segmentation), multiscale pyramids and the dead functions "
    "approximate_right_disparity / approximate_subpixel_refinement are outside the pipeline theorem",
]
TRUSTED = ["Gen/Flags.v produced by translator/gen_flags.py (constants by import, flag writes by ast)"]

INVALID_BEFORE_VALIDATION = 0b11000011

# proposed known findings of this worktree (merged into known_findings.json by the integrator)
_EXTRA_KNOWN = os.path.join(core.VERIF, "known_findings.a9.json")
if os.path.exists(_EXTRA_KNOWN) and not getattr(core, "_c04_known_patched", False):
    _orig_load_known = core.load_known

    def _load_known_with_proposed():
        out = list(_orig_load_known())
        have = {(k["property"], k["key"]) for k in out}
        for k in json.load(open(_EXTRA_KNOWN)).get("findings", []):
            if (k["property"], k["key"]) not in have:
                out.append(k)
        return out

    core.load_known = _load_known_with_proposed
    core._c04_known_patched = True


# --------------------------------------------------------------------------- (A) criteria layouts

MASK_VALUES = {0: 0, 1: 1, 2: 2}  # class -> raw mask value (valid_pixels = 0, no_data_mask = 1, anything else masked)


def make_images(rng, rows, cols, lcls, rcls, disp, grids=None, masked_value=2):
    """integer radiometry images + masks built from class matrices (None = no `msk` variable)"""
    left = np.array([[rng.randrange(0, 40) for _ in range(cols)] for _ in range(rows)])
    right = np.array([[rng.randrange(0, 40) for _ in range(cols)] for _ in range(rows)])

    def raw(cls):
        if cls is None:
            return None
        m = np.array(cls, dtype=np.int16)
        out = np.zeros_like(m)
        out[m == 1] = 1
        out[m == 2] = masked_value
        return out

    L = pu.image_dataset(left, disp=disp, mask=raw(lcls), grids=grids)
    R = pu.image_dataset(right, disp=None, mask=raw(rcls))
    return L, R


def run_matching_cost(L, R, cfg):
    """the calls of PandoraMachine.matching_cost_prepare + matching_cost_run (left side)"""
    from pandora import matching_cost
    from pandora.criteria import validity_mask

    mc = matching_cost.AbstractMatchingCost(**cfg)
    dmin = L["disparity"].sel(band_disp="min").data
    dmax = L["disparity"].sel(band_disp="max").data
    cv = mc.allocate_cost_volume(L, (dmin, dmax), None)
    cv = validity_mask(L, R, cv)
    stage0 = np.array(cv["validity_mask"].data).astype(np.int64)
    cv = mc.compute_cost_volume(L, R, cv)
    mc.cv_masked(L, R, cv, dmin, dmax)
    stage1 = np.array(cv["validity_mask"].data).astype(np.int64)
    allnan = np.all(np.isnan(cv["cost_volume"].data), axis=2)
    return stage0, stage1, allnan, cv


def criteria_only(L, R, cfg):
    """criteria.validity_mask alone on an allocated cost volume"""
    from pandora import matching_cost
    from pandora.criteria import validity_mask

    mc = matching_cost.AbstractMatchingCost(**cfg)
    dmin = L["disparity"].sel(band_disp="min").data
    dmax = L["disparity"].sel(band_disp="max").data
    cv = mc.allocate_cost_volume(L, (dmin, dmax), None)
    cv = validity_mask(L, R, cv)
    return np.array(cv["validity_mask"].data).astype(np.int64)


def cls_or_zero(cls, rows, cols):
    return [[0] * cols for _ in range(rows)] if cls is None else [list(map(int, r)) for r in cls]


def model_args_criteria(rows, cols, off, dmin, dmax, lcls, rcls, allnan, stage, masked_value=2):
    def raw(cls):
        return [[{0: 0, 1: 1, 2: masked_value}[v] for v in r] for r in cls_or_zero(cls, rows, cols)]

    an = [[1 if x else 0 for x in r] for r in allnan] if allnan is not None else [[0] * cols for _ in range(rows)]
    return [rows, cols, off, dmin, dmax, lcls is not None, rcls is not None, raw(lcls), raw(rcls), 1, 0, 1, 0, an, stage]


def spec_args(rows, cols, off, dmin, dmax, lcls, rcls, gmin, gmax):
    return [rows, cols, off, dmin, dmax, cls_or_zero(lcls, rows, cols), cls_or_zero(rcls, rows, cols),
            [list(map(int, r)) for r in gmin], [list(map(int, r)) for r in gmax]]


def random_cls(rng, rows, cols, p_nd, p_inv):
    return [[(1 if (x := rng.random()) < p_nd else (2 if x < p_nd + p_inv else 0)) for _ in range(cols)]
            for _ in range(rows)]


def gen_random_layout(rng):
    w = rng.choice([1, 3, 3, 5])
    off = (w - 1) // 2
    rows = rng.randrange(max(1, w), w + 5)
    cols = rng.randrange(max(2, w + 1), w + 9)
    a, b = rng.randrange(-4, 5), rng.randrange(-4, 5)
    dmin, dmax = min(a, b), max(a, b)
    if rng.random() < 0.15:
        # intervals that leave the image entirely for some / all columns
        s = rng.choice([-1, 1]) * rng.randrange(cols - 2, cols + 3)
        dmin, dmax = dmin + s, dmax + s
    p_nd, p_inv = rng.choice([(0.0, 0.0), (0.1, 0.1), (0.25, 0.1), (0.1, 0.3), (0.5, 0.3)])
    lcls = random_cls(rng, rows, cols, p_nd, p_inv) if rng.random() < 0.85 else None
    rcls = random_cls(rng, rows, cols, p_nd, p_inv) if rng.random() < 0.85 else None
    subpix = rng.choice([1, 1, 2, 4])
    method = rng.choice(["sad", "ssd", "census"]) if w in (3, 5) else rng.choice(["sad", "ssd"])
    grids = None
    if rng.random() < 0.3:
        gmin = [[rng.randrange(dmin, dmax + 1) for _ in range(cols)] for _ in range(rows)]
        gmax = [[rng.randrange(g, dmax + 1) for g in r] for r in gmin]
        # the global interval is (min of min grid, max of max grid): pin both ends somewhere
        gmin[rng.randrange(rows)][rng.randrange(cols)] = dmin
        i, j = rng.randrange(rows), rng.randrange(cols)
        gmax[i][j] = dmax
        gmin[i][j] = min(gmin[i][j], dmax)
        grids = (gmin, gmax)
    return dict(rows=rows, cols=cols, w=w, off=off, dmin=dmin, dmax=dmax, lcls=lcls, rcls=rcls, subpix=subpix,
                method=method, grids=grids, masked_value=rng.choice([2, 2, 5, 255, -3]), full=True)


def embed_row(row_cls, w):
    """a 1-row layout as the middle row of a w-row image (other rows valid)"""
    if w == 1:
        return [list(row_cls)]
    off = (w - 1) // 2
    cols = len(row_cls)
    return [[0] * cols for _ in range(off)] + [list(row_cls)] + [[0] * cols for _ in range(off)]


def one_row_layout(lrow, rrow, w, dmin, dmax):
    off = (w - 1) // 2
    return dict(rows=w, cols=len(lrow), w=w, off=off, dmin=dmin, dmax=dmax, lcls=embed_row(lrow, w),
                rcls=embed_row(rrow, w), subpix=1, method="sad", grids=None, masked_value=2, full=False)


def all_rows(width):
    out = [[]]
    for _ in range(width):
        out = [r + [v] for r in out for v in (0, 1, 2)]
    return out


INTERVALS = [(a, b) for a in range(-3, 4) for b in range(a, 4)]


def gen_one_row_layouts(ctx):
    rng = ctx.rng
    quick = ctx.tier == "quick"
    out = []
    if quick:
        for _ in range(700):
            width = rng.randrange(1, 8)
            w = rng.choice([1, 3])
            lrow = [rng.choice([0, 0, 1, 2]) for _ in range(width)]
            rrow = [rng.choice([0, 0, 1, 2]) for _ in range(width)]
            out.append(one_row_layout(lrow, rrow, w, *rng.choice(INTERVALS)))
        ctx.stats["one_row_mode"] = "sampled (quick)"
    else:
        n_ex = 0
        for width in range(1, 5):
            rows_ = all_rows(width)
            for w in (1, 3):
                for lrow in rows_:
                    for rrow in rows_:
                        for iv in INTERVALS:
                            out.append(one_row_layout(lrow, rrow, w, *iv))
                            n_ex += 1
        for width in range(5, 8):
            rows_ = all_rows(width)
            for w in (1, 3):
                for row in rows_:
                    for _ in range(2):
                        other = [rng.choice([0, 0, 1, 2]) for _ in range(width)]
                        out.append(one_row_layout(row, other, w, *rng.choice(INTERVALS)))
                        out.append(one_row_layout(other, row, w, *rng.choice(INTERVALS)))
        ctx.stats["one_row_mode"] = (f"exhaustive both masks x 28 intervals x window {{1,3}} for width <= 4 "
                                     f"({n_ex} layouts); width 5-7: each mask exhaustive against sampled other masks")
    return out


def check_layouts(ctx, model, layouts, label):
    """run implementation + model + spec on layouts; compare"""
    rng = ctx.rng
    impl = []
    margs = []
    for lay in layouts:
        rows, cols, off = lay["rows"], lay["cols"], lay["off"]
        disp = (lay["dmin"], lay["dmax"])
        L, R = make_images(rng, rows, cols, lay["lcls"], lay["rcls"], disp, lay["grids"], lay["masked_value"])
        cfg = {"matching_cost_method": lay["method"], "window_size": lay["w"], "subpix": lay["subpix"]}
        rec = {"err": None}
        try:
            if lay["full"]:
                s0, s1, allnan, _ = run_matching_cost(L, R, cfg)
                rec.update(s0=s0, s1=s1, allnan=allnan)
            else:
                rec.update(s0=criteria_only(L, R, cfg), s1=None, allnan=None)
        except Exception as exc:  # pylint: disable=broad-except
            # the matching cost itself raises on this layout (interval wider than the image: C02 / D10);
            # the criteria function is still compared
            ctx.count("layouts_matching_cost_raised")
            ctx.stats.setdefault("matching_cost_errors", [])
            if len(ctx.stats["matching_cost_errors"]) < 3:
                ctx.stats["matching_cost_errors"].append(
                    {"layout": {k: lay[k] for k in ("rows", "cols", "w", "dmin", "dmax", "method", "subpix")},
                     "error": f"{type(exc).__name__}: {exc}"[:120]})
            lay = dict(lay, full=False)
            try:
                rec.update(s0=criteria_only(L, R, cfg), s1=None, allnan=None)
            except Exception as exc2:  # pylint: disable=broad-except
                rec["err"] = f"{type(exc2).__name__}: {exc2}"
        impl.append((lay, rec))
        if rec["err"] is None:
            margs.append((1, model_args_criteria(rows, cols, off, lay["dmin"], lay["dmax"], lay["lcls"], lay["rcls"],
                                                 None, 0, lay["masked_value"])))
            if lay["full"]:
                margs.append((1, model_args_criteria(rows, cols, off, lay["dmin"], lay["dmax"], lay["lcls"],
                                                     lay["rcls"], rec["allnan"], 1, lay["masked_value"])))
                if lay["grids"] is None:
                    gmin = [[lay["dmin"]] * cols for _ in range(rows)]
                    gmax = [[lay["dmax"]] * cols for _ in range(rows)]
                else:
                    gmin, gmax = lay["grids"]
                margs.append((2, spec_args(rows, cols, off, lay["dmin"], lay["dmax"], lay["lcls"], lay["rcls"],
                                           gmin, gmax)))
    mres = iter(model.batch(margs))
    for lay, rec in impl:
        ctx.count(f"layouts_{label}")
        replay = {"kind": "layout", "layout": lay}
        if rec["err"] is not None:
            ctx.count("layouts_criteria_raised")
            ctx.case(None)
            ctx.mismatch("criteria.validity_mask raised", replay, rec["err"][:200], "a mask")
            continue
        m0 = np.array(next(mres), dtype=np.int64).reshape(rec["s0"].shape)
        ctx.traces += 1
        final = rec["s1"] if lay["full"] else rec["s0"]
        nontriv = bool(np.any((final != 0) & (final != 1)))
        ctx.case((label, json.dumps(lay, sort_keys=True, default=str)) if nontriv else None)
        if not np.array_equal(m0, rec["s0"]):
            ctx.mismatch("criteria.validity_mask", replay, rec["s0"].tolist(), m0.tolist())
        if not lay["full"]:
            continue
        m1 = np.array(next(mres), dtype=np.int64).reshape(rec["s1"].shape)
        spec = next(mres)
        exp = np.array(spec[0], dtype=np.int64).reshape(rec["s1"].shape)
        nocost = np.array(spec[1], dtype=np.int64).reshape(rec["s1"].shape).astype(bool)
        if not np.array_equal(m1, rec["s1"]):
            ctx.mismatch("cv_masked", replay, rec["s1"].tolist(), m1.tolist())
        ctx.sample({"kind": "layout", "window": lay["w"], "interval": [lay["dmin"], lay["dmax"]],
                    "subpix": lay["subpix"], "grids": lay["grids"] is not None, "left_classes": lay["lcls"],
                    "right_classes": lay["rcls"], "flags_after_matching_cost": rec["s1"].tolist()}, limit=3)
        # ---- spec checks on the implementation's own outputs
        s1, allnan = rec["s1"], rec["allnan"]
        flagged = (s1 & INVALID_BEFORE_VALIDATION) != 0
        if not np.array_equal(flagged, allnan):
            i, j = map(int, np.argwhere(flagged != allnan)[0])
            ctx.violation("invalid_flag_vs_allnan",
                          f"after the matching cost pixel ({i},{j}) has flag {int(s1[i, j])} but all-costs-NaN is "
                          f"{bool(allnan[i, j])} (window {lay['w']}, interval [{lay['dmin']},{lay['dmax']}])", replay)
        if not np.array_equal(allnan, nocost):
            # C02's statement (NaN <-> not computable); counted, reported as a violation of the story only when
            # it breaks the flag side as well (caught above / below)
            ctx.count("allnan_differs_from_computable_spec")
        if not np.array_equal(exp, s1) and np.array_equal(allnan, nocost):
            i, j = map(int, np.argwhere(exp != s1)[0])
            bad_bits = int(exp[i, j]) ^ int(s1[i, j])
            ctx.violation("criteria_bit_" + "_".join(str(b) for b in range(12) if bad_bits >> b & 1),
                          f"after the matching cost pixel ({i},{j}) carries {int(s1[i, j])}, the documented causes "
                          f"give {int(exp[i, j])} (window {lay['w']}, interval [{lay['dmin']},{lay['dmax']}], "
                          f"subpix {lay['subpix']})", replay)


def part_a(ctx, model):
    rng = ctx.rng
    quick = ctx.tier == "quick"
    if ctx.replay_case is not None:
        if ctx.replay_case.get("kind") == "layout":
            check_layouts(ctx, model, [ctx.replay_case["layout"]], "replay")
        return
    n = 350 if quick else 5000
    check_layouts(ctx, model, [gen_random_layout(rng) for _ in range(n)], "random")
    one = gen_one_row_layouts(ctx)
    for i in range(0, len(one), 20000):
        check_layouts(ctx, model, one[i:i + 20000], "one_row")


def run(ctx):
    model = core.Model("x04")
    wf, unsafe = model.call(4, [])
    ctx.gen_obligations = ["wf_env (mkEnv Gen.Flags.consts Gen.Flags.flag_sites) = true (vm_compute)"]
    ctx.stats["unsafe_repetition_classes_of_this_tree"] = unsafe
    if wf != 1:
        ctx.broken_obligation("wf_env", "the regenerated flag sites / constants are not well-formed")
    part_a(ctx, model)
