"""C10 -- filters change only valid pixels, to an average of their valid neighbours.

T-gen : Gen/Constants.v (block sizes 100 of median.py and 50 of bilateral.py by ast,
        PANDORA_MSK_PIXEL_INVALID and bit 11 by import); theorems hold for every B >= 1.
        Gen/BlockLoops.v (skeletons of the two block loops) and Gen/FilterKernels.v (translator/gen_filter_kernels.py:
        the vectorised numpy code of bilateral_kernel, gauss_spatial_kernel, normalized_gaussian, filter_bilateral,
        median_filter, the three filter_disparity, statement by statement over the numpy combinators of Lib/NpNd.v);
        the C10_gen_* theorems prove generated = model per pixel for all inputs and restate the headline theorems on
        the generated definitions.  The generated code is also EXTRACTED and run as it is (fids 7-10) against the real
        outputs: this validates the reading of numpy broadcasting / indexing / nansum in Lib/NpNd.v on every run.
T-corr: the extracted models of MedianFilter / BilateralFilter / MedianForIntervalsFilter
        (NaN masking, sliding windows, block loop with the radius start offset and trailing
        empty blocks, nanmedian, write-back on finite pixels only, |= bit 11) against the real
        AbstractFilter(cfg=..., image_shape=..., step=1).filter_disparity(dataset) on synthetic
        disparity datasets.  Median and median_for_intervals are compared exactly; bilateral by
        the bridging rule (b)+(c): the spatial kernel and the range kernel (one value per
        occurring intensity difference) are computed with the filter's own numpy calls and given
        to the model as exact rationals, results compared with core.close.
Spec  : the boolean Spec of the median step / of the array-level median extracted from Coq
        (Model/FiltersCheck.v; proved to accept exactly what Spec/Filters.v accepts) applied to the
        REAL outputs, and independent brute-force oracles of the property sentence applied to the real outputs
        (sort-based median of the valid window values; math.exp-based Gaussian weighted mean;
        what must not change compared bit for bit), and a crop metamorphic run (the interior of a
        crop is filtered like the same pixels of the whole map: independence of the blocks)."""
import fractions
import math
import random

import numpy as np
import xarray as xr

from harness import core

GEN = ["gen_constants", "gen_block_loops", "gen_filter_kernels"]
EXTRACT_FILES = ["X10"]
DRIVERS = ["x10"]
RULE = ("synthetic disparity maps, values multiples of 1/4 in [-8, 8]; shapes from {3,7,49,50,51,99,100,101,103,205} x "
        "{3,5,52,101} (either orientation); invalid pixels (random flag combinations, ratio 0/20/60/100 %, rectangular "
        "blobs covering whole windows, a few NaN disparities on flag-valid pixels); median: filter_size 1/3/5/7 including "
        "images smaller than the window (returned untouched since the fix: commit); bilateral: sigma_space in {0.25,0.4,0.5,1,1.5,2,6}, "
        "sigma_color in {0.05,0.5,1,2,4} (0.05: far range weights underflow to 0); median_for_intervals on two bound bands with their own NaN, with and without "
        "regularisation (interval_regularization observed by wrapping the module attribute); a case is non-trivial when "
        "the map has an interior valid pixel whose window holds an invalid pixel or >= 2 distinct valid values; distinct "
        "by (filter, shape, parameters, case seed)")
ASSUMES = [
    "the reading of numpy in Lib/NpNd.v (broadcasting on trailing axes, transpose, basic indexing, nansum / nanmedian over axes (2, 3), "
    "boolean-mask assignment, as_strided on a C-contiguous array with strides counted in elements, int() truncation, NaN = None, x / 0 = NaN) "
    "that gives the generated code of Gen/FilterKernels.v its meaning; validated on every run by running the extracted generated code "
    "against the real filters (generated_code_runs in the statistics)",
    "numpy primitives (as_strided sliding windows, np.array_split, np.nanmedian = middle of the sorted non-NaN values, "
    "np.nansum, boolean-mask assignment) are hand-modelled (Model/Filters.v, Lib/Blocks.v) and validated by this "
    "correspondence on every run",
    "disparities are NaN or finite (no +-inf in a disparity map); float32 storage: values multiples of 1/4 (median exact)",
    "bilateral: theorems in exact rational arithmetic for EVERY strictly positive spatial and range kernel; the Gaussian "
    "values enter the model as data computed by the filter's own gauss_spatial_kernel / normalized_gaussian; float "
    "rounding is bounded by the bridging tolerance 2^-18, not proved",
    "median_for_intervals with regularisation: interval_regularization is an oracle (its outputs are observed and handed "
    "to the model); the property only constrains the validity mask (bit 11) there",
    "an image smaller than filter_size is returned untouched by median/median_for_intervals (after the fix: commit; as "
    "found, fewer than filter_size - 1 rows or columns raised ValueError): modelled, compared, covered by the theorems",
    "bilateral with an even window width win (e.g. sigma_space = 1 -> 4): the code centres the window on index win/2, so "
    "it reaches win/2 pixels up/left and win/2 - 1 down/right; 'closer to the edge than the radius' is read as 'the "
    "window does not fit in the image' (identical for odd widths)",
]
TRUSTED = ["Gen/FilterKernels.v produced by translator/gen_filter_kernels.py (ast, fail closed: one `let` per statement over the numpy "
           "combinators; types of the names from annotations; stores only into fresh copies; the block loop replaced by a hole "
           "taking the written expression as a function of the inner chunk; np.sqrt + normalized_gaussian of gauss_spatial_kernel "
           "fused into the Gaussian datum ngs sigma n) and the reading of numpy in Lib/NpNd.v (broadcasting on trailing axes, "
           "transpose, a[:, :, k, l], nansum/nanmedian over axes (2, 3), boolean-mask assignment, int() truncation, NaN = None, "
           "x / 0 = NaN), validated on every run by running the extracted generated code against the real outputs",
           "Gen/Constants.v produced by translator/gen_constants.py (ast pattern np.array_split(x, np.arange(B, n, B), axis); "
           "pandora.constants by import)",
           "Gen/BlockLoops.v produced by translator/gen_block_loops.py (ast transliteration of the double block loop: split expressions, statements on the running offsets where they stand, slice bounds, arrays resolved to np.zeros / np.full_like / np.copy / sliding_window view / parameter expression; fail closed) and its reading as a program by Lib/BlockSkeleton.v exec (total arrays, slice writes neither clamped nor shape-checked)"]

GEN_MAX_PIXELS = 1500     # the extracted GENERATED code is run on the maps up to this size (quick; thorough: 12000)
SIDE_A = [3, 7, 49, 50, 51, 99, 100, 101, 103, 205]
SIDE_B = [3, 5, 52, 101]
INVALID = 0b01111000011
VALID_FLAGS = [0, 0, 0, 0, 4, 8, 16, 32, 1024, 2048, 4 + 16, 8 + 1024]
INVALID_FLAGS = [1, 2, 64, 128, 256, 512, 1 + 2, 64 + 4, 512 + 2048, 2 + 8, 1 + 64 + 128]


# ------------------------------------------------------------------ wire helpers

_QC = {}


def wq(x):
    v = _QC.get(x)
    if v is None:
        x = float(x)
        if math.isnan(x):
            return []
        f = fractions.Fraction(*x.as_integer_ratio())
        v = [f.numerator, f.denominator]
        _QC[x] = v
    return v


def wire_map(a):
    return [[wq(x) for x in row] for row in a.tolist()]


def wire_zmap(a):
    return [[int(x) for x in row] for row in a.tolist()]


def frac_map(rows):
    return [[core.q_of(x) for x in row] for row in rows]


def same_px(a, b):
    return (a == b) | (np.isnan(a) & np.isnan(b))


def same(a, b):
    return a.shape == b.shape and a.dtype == b.dtype and bool(np.all((a == b) | (np.isnan(a) & np.isnan(b))))


# ------------------------------------------------------------------ generation


def gen_shape(rng, small=False):
    if small:
        a, b = rng.choice([5, 7, 12, 49, 50, 51, 52, 99, 100, 101, 103]), rng.choice([1, 2, 3, 5, 6, 8, 12])
        if rng.random() < 0.3:
            a, b = rng.choice([7, 9, 20, 50, 51, 52]), rng.choice([7, 11, 20, 49, 51, 53])
    else:
        a, b = rng.choice(SIDE_A), rng.choice(SIDE_B)
    return (a, b) if rng.random() < 0.5 else (b, a)


def gen_map(seed, ny, nx, inv_ratio, nan_valid=0.01, blobs=True, smooth=False, dead_block=None):
    g = np.random.RandomState(seed % (1 << 31))
    if smooth:
        base = g.randint(-4, 5)
        disp = (base + g.randint(-6, 7, size=(ny, nx)) * 0.25).astype(np.float32)
    else:
        disp = (g.randint(-32, 33, size=(ny, nx)) * 0.25).astype(np.float32)
    mask = np.array(VALID_FLAGS, dtype=np.uint16)[g.randint(0, len(VALID_FLAGS), size=(ny, nx))]
    inv = g.rand(ny, nx) < inv_ratio
    if blobs and inv_ratio < 1.0:
        for _ in range(g.randint(0, 3)):
            r0, c0 = g.randint(0, ny), g.randint(0, nx)
            inv[r0:r0 + g.randint(1, 9), c0:c0 + g.randint(1, 9)] = True
    if blobs and inv_ratio < 1.0 and max(ny, nx) > 112 and (dead_block or (dead_block is None and g.rand() < 0.35)):
        # a whole cell of the internal block grid (and a little more) without any valid pixel, valid data after it: a
        # block that is skipped, or whose result is dropped, must not shift or lose the blocks that follow
        if nx >= ny:
            inv[:, 0:100 + g.randint(3, 9)] = True
        else:
            inv[0:100 + g.randint(3, 9), :] = True
    iv = np.array(INVALID_FLAGS, dtype=np.uint16)[g.randint(0, len(INVALID_FLAGS), size=(ny, nx))]
    mask = np.where(inv, iv, mask).astype(np.uint16)
    # invalid pixels often carry the invalid_disparity (-9999 or NaN)
    how = g.rand(ny, nx)
    disp = np.where(inv & (how < 0.4), np.float32(-9999), disp)
    disp = np.where(inv & (how > 0.7), np.float32(np.nan), disp).astype(np.float32)
    if nan_valid > 0:
        disp = np.where(~inv & (g.rand(ny, nx) < nan_valid), np.float32(np.nan), disp).astype(np.float32)
    return disp, mask


def disp_dataset(disp, mask, bands=None, names=None):
    ny, nx = disp.shape
    data = {"disparity_map": (["row", "col"], disp.copy()), "validity_mask": (["row", "col"], mask.copy())}
    coords = {"row": np.arange(ny), "col": np.arange(nx)}
    if bands is not None:
        data["confidence_measure"] = (["row", "col", "indicator"], np.stack(bands, axis=2).astype(np.float32))
        coords["indicator"] = names
    ds = xr.Dataset(data, coords=coords)
    ds.attrs = {"offset_row_col": 0}
    return ds


def exc_name(e):
    return type(e).__name__


# ------------------------------------------------------------------ oracles (independent of the model)


def valid_values(disp, mask):
    """the valid disparities as float64 with NaN elsewhere"""
    v = disp.astype(np.float64).copy()
    v[(mask & INVALID) != 0] = np.nan
    return v


def brute_median(val, w):
    """sort-based median of the non-NaN values of every full w x w window; returns (med, lo, hi) on the interior"""
    ny, nx = val.shape
    my, mx = ny - w + 1, nx - w + 1
    layers = np.stack([val[a:a + my, b:b + mx] for a in range(w) for b in range(w)], axis=0)
    s = np.sort(layers, axis=0)  # NaN last
    n = (~np.isnan(layers)).sum(axis=0)
    k_hi = np.clip(n // 2, 0, w * w - 1)
    k_lo = np.clip((n - 1) // 2, 0, w * w - 1)
    hi = np.take_along_axis(s, k_hi[None], axis=0)[0]
    lo = np.take_along_axis(s, k_lo[None], axis=0)[0]
    med = np.where(n > 0, (lo + hi) / 2.0, np.nan)
    return med, s[0], np.where(n > 0, np.take_along_axis(s, np.clip(n - 1, 0, w * w - 1)[None], axis=0)[0], np.nan)


def check_median_like(ctx, what, before, after, val, w, replay, unchanged_where_nan_only=False):
    """before/after: float32 maps; val: float64 map with NaN on pixels that are not valid.
    Property: invalid pixels and pixels closer to the edge than the radius bit-identical; every other valid pixel =
    median of the valid values of its window."""
    ny, nx = before.shape
    rad = w // 2
    want = before.astype(np.float64).copy()
    inter = np.zeros((ny, nx), dtype=bool)
    if ny >= w and nx >= w:
        med, lo, hi = brute_median(val, w)
        inter[rad:ny - rad, rad:nx - rad] = True
        upd = inter & ~np.isnan(val)
        full = np.full((ny, nx), np.nan)
        full[rad:ny - rad, rad:nx - rad] = med
        want = np.where(upd, full, want)
    else:
        upd = np.zeros((ny, nx), dtype=bool)
    got = after.astype(np.float64)
    bad = ~((got == want) | (np.isnan(got) & np.isnan(want)))
    if bad.any():
        r, c = [int(x) for x in np.argwhere(bad)[0]]
        if not upd[r, c]:
            key = what + ("_invalid_pixel_changed" if np.isnan(val[r, c]) else "_border_pixel_changed")
            msg = (f"{what} {ny}x{nx} filter_size {w}: pixel ({r},{c}) "
                   f"({'invalid' if np.isnan(val[r, c]) else 'closer to the edge than the radius'}) changed from "
                   f"{before[r, c]} to {after[r, c]}")
        else:
            key = what + "_not_median"
            win = val[r - rad:r + rad + 1, c - rad:c + rad + 1]
            msg = (f"{what} {ny}x{nx} filter_size {w}: valid pixel ({r},{c}) became {after[r, c]}, the median of the valid "
                   f"values of its window {sorted(win[~np.isnan(win)].tolist())} is {want[r, c]}")
        ctx.violation(key, msg, dict(replay, pixel=[r, c]))
        return False
    return True


def gauss(x, sigma):
    return math.exp(-0.5 * (x / sigma) ** 2) / (sigma * math.sqrt(2 * math.pi))


def check_bilateral(ctx, before, mask, after, sigma_space, sigma_color, replay):
    ny, nx = before.shape
    val = valid_values(before, mask)
    win = min(ny, nx, int(3 * sigma_space + 1))
    off = win // 2
    got = after.astype(np.float64)
    for r in range(ny):
        for c in range(nx):
            b, a = float(before[r, c]), got[r, c]
            inside = off <= r <= ny - win + off and off <= c <= nx - win + off
            if np.isnan(val[r, c]) or not inside:
                if not (a == b or (math.isnan(a) and math.isnan(b))):
                    key = "bilateral_invalid_pixel_changed" if np.isnan(val[r, c]) else "bilateral_border_pixel_changed"
                    ctx.violation(key, f"bilateral {ny}x{nx} sigma_space {sigma_space}: pixel ({r},{c}) changed from {b} to {a}",
                                  dict(replay, pixel=[r, c]))
                    return False
                continue
            num = den = 0.0
            lo, hi = math.inf, -math.inf
            for i in range(win):
                for j in range(win):
                    v = val[r - off + i, c - off + j]
                    if math.isnan(v):
                        continue
                    wgt = gauss(math.hypot(i - off, j - off), sigma_space) * gauss(v - val[r, c], sigma_color)
                    num += wgt * v
                    den += wgt
                    lo, hi = min(lo, v), max(hi, v)
            want = num / den
            if abs(a - want) > 1e-5 * max(1.0, abs(want)):
                ctx.violation("bilateral_not_weighted_mean",
                              f"bilateral {ny}x{nx} sigma_space {sigma_space} sigma_color {sigma_color}: valid pixel ({r},{c}) "
                              f"became {a}, the Gaussian weighted mean of its valid window values is {want}",
                              dict(replay, pixel=[r, c]))
                return False
            if not lo - 1e-6 <= a <= hi + 1e-6:
                ctx.violation("bilateral_outside_min_max", f"pixel ({r},{c}) became {a}, outside [{lo}, {hi}]",
                              dict(replay, pixel=[r, c]))
                return False
    return True


def nontrivial_key(val, w_or_win, off, tag):
    ny, nx = val.shape
    if ny < w_or_win or nx < w_or_win:
        return None
    ok = ~np.isnan(val)
    if not ok.any() or ok.all() and np.nanmin(val) == np.nanmax(val):
        return None
    return tag


# ------------------------------------------------------------------ the three filters


def run_median(ctx, model, p):
    import pandora.filter as flt  # pylint: disable=import-outside-toplevel

    ny, nx, w = p["ny"], p["nx"], p["w"]
    disp, mask = gen_map(p["seed"], ny, nx, p["inv"], smooth=p["smooth"], dead_block=p.get("dead"))
    ds = disp_dataset(disp, mask)
    f = flt.AbstractFilter(cfg={"filter_method": "median", "filter_size": w}, image_shape=(ny, nx), step=1)
    err = None
    try:
        f.filter_disparity(ds)
    except Exception as e:  # pylint: disable=broad-except
        err = exc_name(e)
    ctx.traces += 1
    impl = [] if err else [wire_map(ds["disparity_map"].data), wire_zmap(ds["validity_mask"].data)]
    marg = [(1, [0, w, ny, nx, wire_map(disp), wire_zmap(mask)])]
    gen_run = ny * nx <= GEN_MAX_PIXELS
    if gen_run:
        # the GENERATED code (Gen/FilterKernels.v + Gen/BlockLoops.v over Lib/NpNd.v), extracted and run as it is
        marg.append((7, [w, ny, nx, wire_map(disp), wire_zmap(mask)]))
    if not err:
        # the boolean Spec extracted from Coq (Model/FiltersCheck.v, = Spec by median_step_spec_b_iff) on the REAL output
        marg.append((5, [w // 2, ny, nx, wire_map(disp), wire_zmap(mask), impl[0], impl[1]]))

    def after(mres, *rest):
        rest = list(rest)
        gres = rest.pop(0) if gen_run else None
        spec_ok = rest.pop(0) if rest else None
        val = valid_values(disp, mask)
        ctx.case(nontrivial_key(val, w, w // 2, ("median", ny, nx, w, p["inv"], p["seed"])))
        ctx.count("median_cases")
        ctx.count("median_w%d" % w)
        if err:
            ctx.count("median_raised_" + err)
        if impl != mres:
            ctx.mismatch("median", {"filter": "median", "params": p, "impl_error": err},
                         first_diff(impl, mres), None)
        if gen_run:
            ctx.count("generated_code_runs")
            if (gres != [0] + impl) if not err else False:
                ctx.mismatch("generated_median", {"filter": "median", "params": p, "impl_error": err},
                             "numpy error flag raised by the generated code" if gres and gres[0] != 0 else first_diff(impl, gres[1:]), None)
        if err:
            # no size is outside the property: an image smaller than the window has no pixel farther from the edge
            # than the radius, every pixel must come out untouched
            ctx.violation("median_raises", f"median filter_size {w} on a {ny}x{nx} map raised {err}", {"filter": "median", "params": p})
            return
        rp = {"filter": "median", "params": p}
        if not np.array_equal(ds["validity_mask"].data, mask) or ds["validity_mask"].data.dtype != mask.dtype:
            ctx.violation("median_mask_changed", f"median {ny}x{nx}: validity mask changed", rp)
        py_ok = check_median_like(ctx, "median", disp, ds["disparity_map"].data, val, w, rp)
        ctx.count("median_spec_checker_runs")
        if spec_ok != 1 and py_ok and np.array_equal(ds["validity_mask"].data, mask):
            # (when the Python oracle fails too it has already reported the pixel)
            ctx.violation("median_spec_checker", f"median {ny}x{nx} filter_size {w}: the extracted Spec checker "
                          f"(median_step_spec_b) rejects the real output", rp)
        if ctx.rng.random() < 0.4:
            crop_check(ctx, "median", p, disp, mask, ds["disparity_map"].data, w // 2, w)
        if ny * nx > 5000:
            ch = np.argwhere(~same_px(ds["disparity_map"].data, disp))
            if len(ch):
                r, c = [int(x) for x in ch[len(ch) // 2]]
                rad = w // 2
                win = val[r - rad:r + rad + 1, c - rad:c + rad + 1]
                ctx.sample({"filter": "median", "shape": [ny, nx], "filter_size": w, "invalid_ratio": p["inv"], "seed": p["seed"],
                            "pixel": [r, c], "before": repr(float(disp[r, c])), "valid_window_values": sorted(win[~np.isnan(win)].tolist()),
                            "after": repr(float(ds["disparity_map"].data[r, c]))})
    return marg, after


def first_diff(a, b):
    try:
        if not a or not b:
            return {"impl_empty": not a, "model_empty": not b}
        for k, (x, y) in enumerate(zip(a, b)):
            if x != y:
                for r, (rx, ry) in enumerate(zip(x, y)):
                    if rx != ry:
                        c = [j for j in range(len(rx)) if rx[j] != ry[j]][0]
                        return {"component": k, "pixel": [r, c], "impl": rx[c], "model": ry[c]}
    except Exception:  # pylint: disable=broad-except
        pass
    return "differs"


def crop_check(ctx, kind, p, disp, mask, out, rad, w, extra=None):
    """impl-vs-impl: pixels of a crop at distance >= w from its edges are filtered as in the whole map"""
    import pandora.filter as flt  # pylint: disable=import-outside-toplevel

    ny, nx = disp.shape
    rng = ctx.rng
    if ny < 3 * w + 2 or nx < 3 * w + 2:
        return
    r0 = rng.randrange(0, min(ny - 3 * w, 110))
    c0 = rng.randrange(0, min(nx - 3 * w, 110))
    r1 = rng.randrange(r0 + 3 * w, ny + 1)
    c1 = rng.randrange(c0 + 3 * w, nx + 1)
    ds = disp_dataset(disp[r0:r1, c0:c1], mask[r0:r1, c0:c1])
    if kind == "median":
        f = flt.AbstractFilter(cfg={"filter_method": "median", "filter_size": w}, image_shape=(r1 - r0, c1 - c0), step=1)
    else:
        f = flt.AbstractFilter(cfg=dict(extra), image_shape=(r1 - r0, c1 - c0), step=1)
    f.filter_disparity(ds)
    ctx.count("crop_runs")
    a = ds["disparity_map"].data[w:-w, w:-w]
    b = out[r0 + w:r1 - w, c0 + w:c1 - w]
    if not same(a, b):
        ctx.violation(kind + "_block_dependent",
                      f"{kind} on the crop rows {r0}:{r1}, cols {c0}:{c1} of a {ny}x{nx} map differs in its interior from the "
                      f"same pixels filtered within the whole map", {"filter": kind, "params": p, "crop": [r0, r1, c0, c1]})


def run_bilateral(ctx, model, p):
    import pandora.filter as flt  # pylint: disable=import-outside-toplevel

    ny, nx, ss, sc = p["ny"], p["nx"], p["sigma_space"], p["sigma_color"]
    disp, mask = gen_map(p["seed"], ny, nx, p["inv"], smooth=True)
    ds = disp_dataset(disp, mask)
    cfg = {"filter_method": "bilateral", "sigma_color": sc, "sigma_space": ss}
    f = flt.AbstractFilter(cfg=dict(cfg), image_shape=(ny, nx), step=1)
    f.filter_disparity(ds)
    ctx.traces += 1
    win = min(ny, nx, int(3 * ss + 1))
    # kernels as data, by the filter's own numpy calls
    sk = f.gauss_spatial_kernel(win, ss)
    val32 = disp.copy()
    val32[(mask & INVALID) != 0] = np.nan
    vals = np.unique(val32[~np.isnan(val32)])
    if len(vals):
        deltas = np.unique((vals[:, None] - vals[None, :]).astype(np.float32))
    else:
        deltas = np.zeros((1,), dtype=np.float32)
    rk = f.normalized_gaussian(deltas, sc)
    rk_tbl = [[wq(d), wq(x)] for d, x in zip(deltas.tolist(), np.asarray(rk, dtype=np.float64).tolist())]
    # hypotheses of C10_bilateral_eq_weighted_mean on the kernels of THIS run (kernel_ok): nowhere negative, a pixel weighs
    # on itself; strictly positive (kernel_pos) is counted, not required (far tails underflow to 0 in float32)
    skf, rkf = np.asarray(sk, dtype=np.float64), np.asarray(rk, dtype=np.float64)
    rk0 = rkf[deltas == 0]
    if not (np.all(skf >= 0) and np.all(rkf >= 0) and skf[win // 2, win // 2] > 0 and len(rk0) == 1 and rk0[0] > 0
            and np.all(np.isfinite(skf)) and np.all(np.isfinite(rkf))):
        ctx.broken_obligation("bilateral_kernel_ok", f"the Gaussian kernels of sigma_space {ss}, sigma_color {sc} do not satisfy "
                              f"the hypothesis kernel_ok of the bilateral theorems (negative, non-finite or zero self weight)")
    ctx.count("bilateral_kernel_strictly_positive" if np.all(skf > 0) and np.all(rkf > 0) else "bilateral_kernel_with_zero_weights")
    marg = [(2, [0, ny, nx, wq(ss), wire_map(np.asarray(sk, dtype=np.float64)), rk_tbl, wire_map(disp), wire_zmap(mask)])]
    # the GENERATED code run as it is; its Gaussian DATA: gs[n] = normalized_gaussian(sqrt(n), sigma_space) (which entry
    # weighs which pixel is generated code: g_gauss_spatial_kernel_sqdist), rk as above
    n_gs = 2 * (win // 2 + 1) ** 2 + 1
    gs = np.asarray(f.normalized_gaussian(np.sqrt(np.arange(n_gs, dtype=np.float64)), ss), dtype=np.float64)
    gs_w = [wq(x) for x in gs.tolist()]
    # hypothesis kernel_ok of C10_gen_bilateral_eq_weighted_mean on the Gaussian data of THIS run
    if not (np.all(np.isfinite(gs)) and np.all(gs >= 0) and gs[0] > 0):
        ctx.broken_obligation("bilateral_kernel_ok", f"the spatial Gaussian data of sigma_space {ss} do not satisfy kernel_ok "
                              f"(negative, non-finite or zero weight at distance 0)")
    marg.append((9, [win, gs_w]))
    gen_run = ny * nx <= GEN_MAX_PIXELS
    if gen_run:
        marg.append((8, [ny, nx, wq(ss), gs_w, rk_tbl, wire_map(disp), wire_zmap(mask)]))

    def cmp_disp(rows, out):
        mm = frac_map(rows)
        for r in range(ny):
            row_m, row_o, row_b = mm[r], out[r].tolist(), disp[r].tolist()
            for c in range(nx):
                m, o = row_m[c], row_o[c]
                if m is None:
                    ok = math.isnan(o)
                elif math.isnan(o) or math.isinf(o):
                    ok = False
                elif fractions.Fraction(row_b[c]) == m and o == row_b[c]:
                    ok = True
                else:
                    ok = core.close(o, m)
                if not ok:
                    return {"pixel": [r, c], "impl": repr(o), "model": str(m)}
        return None

    def after(mres, tres, gres=None):
        # generated gauss_spatial_kernel table against the filter's own table
        ctx.count("generated_spatial_tables")
        tbl = frac_map(tres[1]) if tres and tres[0] == 0 else None
        skl = np.asarray(sk, dtype=np.float64).tolist()
        if tbl is None or any(not core.close(skl[a][b], tbl[a][b]) for a in range(win) for b in range(win)):
            ctx.mismatch("generated_gauss_spatial_kernel", {"filter": "bilateral", "params": p}, "differs", None)
        if gen_run:
            ctx.count("generated_code_runs")
            gbad = "numpy error flag raised by the generated code" if gres[0] != 0 else cmp_disp(gres[1], ds["disparity_map"].data)
            if gbad or wire_zmap(ds["validity_mask"].data) != gres[2]:
                ctx.mismatch("generated_bilateral", {"filter": "bilateral", "params": p}, gbad or "mask", None)
        val = valid_values(disp, mask)
        ctx.case(nontrivial_key(val, win, win // 2, ("bilateral", ny, nx, ss, sc, p["inv"], p["seed"])))
        ctx.count("bilateral_cases")
        ctx.count("bilateral_win%d" % win)
        out = ds["disparity_map"].data
        mm = frac_map(mres[0])
        bad = cmp_disp(mres[0], out)
        if bad or wire_zmap(ds["validity_mask"].data) != mres[1]:
            ctx.mismatch("bilateral", {"filter": "bilateral", "params": p}, bad or "mask", None)
        rp = {"filter": "bilateral", "params": p}
        if not np.array_equal(ds["validity_mask"].data, mask) or ds["validity_mask"].data.dtype != mask.dtype:
            ctx.violation("bilateral_mask_changed", f"bilateral {ny}x{nx}: validity mask changed", rp)
        check_bilateral(ctx, disp, mask, out, ss, sc, rp)
        if ctx.rng.random() < 0.4 and win < min(ny, nx) // 3:
            crop_check(ctx, "bilateral", p, disp, mask, out, win // 2, win, extra=cfg)
        if ny * nx > 400:
            r, c = ny // 2, nx // 2
            ctx.sample({"filter": "bilateral", "shape": [ny, nx], "sigma_space": ss, "sigma_color": sc, "window": win,
                        "pixel": [r, c], "before": repr(float(disp[r, c])), "after": repr(float(out[r, c])),
                        "model": str(mm[r][c])}, limit=10)
    return marg, after


_REG_SPY = {}


def install_reg_spy():
    import pandora.filter.median_for_intervals as mfi  # pylint: disable=import-outside-toplevel

    if getattr(mfi.interval_regularization, "_verif_spy", False):
        return
    orig = mfi.interval_regularization

    def spy(inf, sup, amb, *a, **k):
        _REG_SPY["in"] = (np.array(inf, copy=True), np.array(sup, copy=True))
        res = orig(inf, sup, amb, *a, **k)
        _REG_SPY["out"] = tuple(np.array(x, copy=True) for x in res)
        return res

    spy._verif_spy = True
    mfi.interval_regularization = spy


def run_mfi(ctx, model, p):
    import pandora.filter as flt  # pylint: disable=import-outside-toplevel

    install_reg_spy()
    ny, nx, w, reg = p["ny"], p["nx"], p["w"], p["reg"]
    disp, mask = gen_map(p["seed"], ny, nx, p["inv"])
    g = np.random.RandomState((p["seed"] + 7) % (1 << 31))
    width = (g.randint(0, 9, size=(ny, nx)) * 0.25).astype(np.float32)
    base = (g.randint(-20, 21, size=(ny, nx)) * 0.25).astype(np.float32)
    binf = (base - width).astype(np.float32)
    bsup = (base + width).astype(np.float32)
    nanb = g.rand(ny, nx) < p["inv"]
    binf[nanb] = np.nan
    bsup[nanb & (g.rand(ny, nx) < 0.8)] = np.nan
    amb = np.where(g.rand(ny, nx) < 0.3, 0.5, 1.0).astype(np.float32)
    other = (g.randint(-8, 9, size=(ny, nx)) * 0.25).astype(np.float32)
    sfx = p.get("suffix", "")
    n_inf = "confidence_from_interval_bounds_inf" + ("." + sfx if sfx else "")
    n_sup = "confidence_from_interval_bounds_sup" + ("." + sfx if sfx else "")
    names = ["confidence_from_ambiguity", n_inf, "other_band", n_sup]
    bands = [amb, binf, other, bsup]
    ds = disp_dataset(disp, mask, bands, names)
    cfg = {"filter_method": "median_for_intervals", "filter_size": w, "interval_indicator": sfx, "regularization": reg}
    if reg:
        cfg.update({"ambiguity_kernel_size": 3, "ambiguity_threshold": 0.8, "vertical_depth": 1, "quantile_regularization": 0.75})
    f = flt.AbstractFilter(cfg=cfg, image_shape=(ny, nx), step=1)
    _REG_SPY.clear()
    err = None
    try:
        f.filter_disparity(ds)
    except Exception as e:  # pylint: disable=broad-except
        err = exc_name(e)
    ctx.traces += 1
    regarg = []
    spy_in = None
    n_reg = 0
    if reg and not err:
        i2, s2, rm = _REG_SPY["out"]
        n_reg = int(rm.sum())
        spy_in = _REG_SPY["in"]
        regarg = [wire_map(i2), wire_map(s2), wire_zmap(rm.astype(np.int64))]
    cm = None if err else ds["confidence_measure"].data
    impl = [] if err else [wire_map(ds["disparity_map"].data), wire_map(cm[:, :, 1]), wire_map(cm[:, :, 3]),
                           wire_zmap(ds["validity_mask"].data)]
    margs = [(3, [0, w, ny, nx, regarg, wire_map(disp), wire_map(binf), wire_map(bsup), wire_zmap(mask)])]
    if spy_in is not None:
        margs.append((4, [0, w, ny, nx, wire_map(binf)]))
        margs.append((4, [0, w, ny, nx, wire_map(bsup)]))
    gen_run = ny * nx <= GEN_MAX_PIXELS
    if gen_run:
        margs.append((10, margs[0][1]))
    n_corr = len(margs)
    if not err:
        # extracted Spec checker on the bands the real code produced (before regularisation when it is on)
        b_inf = spy_in[0] if spy_in is not None else cm[:, :, 1]
        b_sup = spy_in[1] if spy_in is not None else cm[:, :, 3]
        margs.append((6, [w // 2, ny, nx, wire_map(binf), wire_map(np.asarray(b_inf, dtype=np.float32))]))
        margs.append((6, [w // 2, ny, nx, wire_map(bsup), wire_map(np.asarray(b_sup, dtype=np.float32))]))

    def after(*mres):
        ctx.case(nontrivial_key(binf.astype(np.float64), w, w // 2, ("mfi", ny, nx, w, reg, p["inv"], p["seed"])))
        ctx.count("mfi_cases")
        ctx.count("mfi_regularization" if reg else "mfi_plain")
        if err:
            ctx.count("mfi_raised_" + err)
        if impl != mres[0]:
            ctx.mismatch("median_for_intervals", {"filter": "mfi", "params": p, "impl_error": err}, first_diff(impl, mres[0]), None)
        if gen_run and not err:
            ctx.count("generated_code_runs")
            gres = mres[n_corr - 1]
            if gres != [0] + impl:
                ctx.mismatch("generated_median_for_intervals", {"filter": "mfi", "params": p},
                             "numpy error flag raised by the generated code" if gres and gres[0] != 0 else first_diff(impl, gres[1:]), None)
        if err:
            ctx.violation("mfi_raises", f"median_for_intervals filter_size {w} on a {ny}x{nx} map raised {err}", {"filter": "mfi", "params": p})
            return
        if spy_in is not None:
            # the bands handed to the regularisation are the median-filtered bands
            if [wire_map(spy_in[0])] != mres[1] or [wire_map(spy_in[1])] != mres[2]:
                ctx.mismatch("median_for_intervals_bands_before_regularization", {"filter": "mfi", "params": p}, "differs", None)
        rp = {"filter": "mfi", "params": p}
        # property: disparity untouched, other bands untouched, mask untouched except bit 11 with regularisation
        if not same(ds["disparity_map"].data, disp):
            ctx.violation("mfi_disparity_changed", f"median_for_intervals {ny}x{nx}: the disparity map changed", rp)
        if not same(cm[:, :, 0], amb) or not same(cm[:, :, 2], other):
            ctx.violation("mfi_other_band_changed", "median_for_intervals changed a band other than the interval bounds", rp)
        m2 = ds["validity_mask"].data
        if reg:
            if not np.array_equal(m2 & ~np.uint16(2048), mask & ~np.uint16(2048)) or np.any((mask & 2048) & ~(m2 & 2048)):
                ctx.violation("mfi_mask_other_bits", "median_for_intervals with regularisation changed a bit other than bit 11 "
                                                     "(or cleared bit 11)", rp)
            ctx.count("mfi_pixels_regularized", n_reg)
        elif not np.array_equal(m2, mask):
            ctx.violation("mfi_mask_changed", "median_for_intervals without regularisation changed the validity mask", rp)
        if m2.dtype != mask.dtype:
            ctx.violation("mfi_mask_dtype", f"validity mask dtype changed to {m2.dtype}", rp)
        # the same median on the bands (before regularisation when it is on)
        a_inf = spy_in[0] if spy_in is not None else cm[:, :, 1]
        a_sup = spy_in[1] if spy_in is not None else cm[:, :, 3]
        ok1 = check_median_like(ctx, "mfi_inf", binf, a_inf.astype(np.float32), binf.astype(np.float64), w, rp)
        ok2 = check_median_like(ctx, "mfi_sup", bsup, a_sup.astype(np.float32), bsup.astype(np.float64), w, rp)
        ctx.count("mfi_spec_checker_runs", 2)
        if ok1 and ok2 and list(mres[n_corr:n_corr + 2]) != [1, 1]:
            ctx.violation("mfi_spec_checker", f"median_for_intervals {ny}x{nx} filter_size {w}: the extracted Spec checker "
                          f"(median_map_spec_b) rejects a filtered bound band of the real code", rp)
    return margs, after


# ------------------------------------------------------------------ main


def gen_cases(rng, quick):
    cases = []
    n_med = 60 if quick else 700
    for i in range(n_med):
        ny, nx = gen_shape(rng)
        w = rng.choice([1, 3, 3, 5, 7])
        if ny * nx > 6000:
            w = rng.choice([1, 3, 3, 5]) if quick else w
        cases.append({"filter": "median", "ny": ny, "nx": nx, "w": w, "seed": rng.randrange(1 << 30),
                      "inv": rng.choice([0.0, 0.2, 0.2, 0.2, 0.6, 0.6]) if i % 12 else 1.0, "smooth": rng.random() < 0.5})
    for _ in range(6 if quick else 40):  # tiny images, including images smaller than the window
        cases.append({"filter": "median", "ny": rng.choice([1, 2, 3, 4, 6]), "nx": rng.choice([1, 2, 3, 5, 8]),
                      "w": rng.choice([3, 5, 7]), "seed": rng.randrange(1 << 30), "inv": 0.2, "smooth": False})
    n_bil = 40 if quick else 300
    for i in range(n_bil):
        ss = rng.choice([0.25, 0.4, 0.5, 1.0, 1.0, 1.5, 2.0, 6.0])
        ny, nx = gen_shape(rng, small=True)
        if ss >= 1.5 and ny * nx > 1300:
            ss = rng.choice([0.4, 0.5, 1.0])
        cases.append({"filter": "bilateral", "ny": ny, "nx": nx, "sigma_space": ss, "sigma_color": rng.choice([0.05, 0.5, 1.0, 2.0, 4.0]),
                      "seed": rng.randrange(1 << 30), "inv": rng.choice([0.0, 0.2, 0.2, 0.6])})
    n_mfi = 24 if quick else 200
    for i in range(n_mfi):
        ny, nx = gen_shape(rng)
        if ny * nx > 6000 and quick:
            ny, nx = gen_shape(rng, small=True)
        cases.append({"filter": "mfi", "ny": ny, "nx": nx, "w": rng.choice([1, 3, 3, 5]), "reg": i % 3 == 2,
                      "suffix": rng.choice(["", "", "intervals"]), "seed": rng.randrange(1 << 30),
                      "inv": rng.choice([0.0, 0.2, 0.5])})
    cases.append({"filter": "mfi", "ny": 3, "nx": 9, "w": 7, "reg": False, "suffix": "", "seed": 5, "inv": 0.2})
    # a whole cell of the block grid without any valid pixel, valid data after it (both orientations)
    cases.append({"filter": "median", "ny": 52, "nx": 205, "w": 3, "seed": 77, "inv": 0.2, "smooth": False, "dead": True})
    cases.append({"filter": "median", "ny": 205, "nx": 7, "w": 5, "seed": 78, "inv": 0.2, "smooth": True, "dead": True})
    return cases


def run(ctx):
    global GEN_MAX_PIXELS  # pylint: disable=global-statement
    quick = ctx.tier == "quick"
    GEN_MAX_PIXELS = 1500 if quick else 12000
    model = core.Model("x10")
    if getattr(ctx, "replay_case", None) is not None:
        rc = ctx.replay_case
        cases = [dict(rc["params"], filter={"mfi": "mfi"}.get(rc.get("filter"), rc.get("filter", rc["params"].get("filter"))))]
    else:
        cases = gen_cases(ctx.rng, quick)
    runners = {"median": run_median, "bilateral": run_bilateral, "mfi": run_mfi}
    ctx.stats["shapes"] = {}
    CH = 10
    for start in range(0, len(cases), CH):
        pending = []
        margs = []
        for p in cases[start:start + CH]:
            m, after = runners[p["filter"]](ctx, model, p)
            sk = f"{p['filter']}:{p['ny']}x{p['nx']}"
            ctx.stats["shapes"][sk] = ctx.stats["shapes"].get(sk, 0) + 1
            ctx.count("pixels", p["ny"] * p["nx"])
            if isinstance(m, list):
                pending.append((len(m), after))
                margs.extend(m)
            else:
                pending.append((1, after))
                margs.append(m)
        mres = model.batch(margs)
        k = 0
        for n, after in pending:
            after(*mres[k:k + n])
            k += n
    ctx.gen_obligations = ["1 <= Gen.Constants.median_block /\\ 1 <= Gen.Constants.bilateral_block (vm_compute)",
                           "Gen.Constants.msk_pixel_interval_regularized = 2^11 /\\ Gen.Constants.msk_pixel_invalid = bits 0,1,6,7,8,9 "
                           "(reflexivity)",
                           "skeleton_wf Gen.BlockLoops.median_filter = true /\\ filter_skeleton_ok KNanMedian (offsets from int(W/2) of "
                           "the sliding_window's own W, output = np.copy(a) and windows of that same a, nanmedian of the inner chunk) /\\ "
                           "sk_B = Gen.Constants.median_block (C10_median_block_loop_skeleton, vm_compute)",
                           "skeleton_wf Gen.BlockLoops.filter_bilateral = true /\\ filter_skeleton_ok KBilateral /\\ sk_B = "
                           "Gen.Constants.bilateral_block (C10_bilateral_block_loop_skeleton, vm_compute; skeletons read by "
                           "translator/gen_block_loops.py with ast, fail closed)",
                           "Gen.FilterKernels.g_sliding_window (pandora/common.py: shape tuple, doubled strides, as_strided) is the array of all "
                           "windows, element (i, j, a, b) = element (i + a, j + b), every offset inside the memory (C10_gen_sliding_window)",
                           "Gen.FilterKernels.g_normalized_gaussian = the canonical Gaussian formula tree (C10_gen_normalized_gaussian_is_the_gaussian, "
                           "reflexivity)",
                           "Gen.FilterKernels.g_gauss_spatial_kernel is the kernel_size x kernel_size table of ngs sigma ((i - k/2)^2 + (j - k/2)^2) "
                           "(C10_gen_spatial_weight_is_radial; re-proved on the regenerated text)",
                           "Gen.FilterKernels.g_bilateral_kernel yields, for every batch of windows, nansum(window * weights) / nansum(weights) of "
                           "each window alone, weights = table * gaussian(window - window[off, off]) (C10_gen_bilateral_kernel_per_window, "
                           "C10_gen_kernels_chunk_independent; proof replayed on the regenerated text, breaks when a statement changes)",
                           "Gen.FilterKernels.g_median_filter / g_filter_bilateral with the generated block loops = Model.Filters per pixel "
                           "(C10_gen_median_filter_eq_model, C10_gen_filter_bilateral_eq_model)",
                           "Gen.FilterKernels.g_median_filter_disparity / g_bilateral_filter_disparity / g_mfi_filter_disparity: masking, "
                           "write-back on finite pixels, |= bit 11 (C10_gen_median_eq_spec, C10_gen_bilateral_eq_weighted_mean, "
                           "C10_gen_mfi_same_median_only_bit11; C10_gen_example runs the generated code by vm_compute)"]
