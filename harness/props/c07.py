"""C07 -- cross-checking flags exactly the left-right inconsistent pixels, nothing else.

T-gen : Gen/ValConst.v (pandora/constants.py bit values) re-checked equal to the model's
        constants by a per-run obligation in Props/C07.v.
T-gen : Gen/XCheckKernel.v = CrossCheckingAccurate.disparity_checking (and the two disparity-range helpers of
        disparity.py) translated statement by statement by translator/gen_xcheck_kernel.py over the numpy
        semantics of Lib/NpVec.v + Lib/NpRow.v; Proofs/XCheckGenP.v re-proves at every run that the generated
        row body = Model/CrossCheck.v mask_row / conf_row for ALL rows and that the whole generated method =
        the model's xcheck; the headline theorems are restated on the generated method (C07_gen_*).
T-corr: Model/CrossCheck.v (extracted, fid 1) against the real
        validation.AbstractValidation(**cfg).disparity_checking(left, right) followed by
        disparity_checking(right, checked left), exactly as state_machine.validation_run
        calls them; exact comparison of validity masks and of the new confidence band.
Spec  : Spec/CrossCheck.v xspec (extracted, fid 2) + a short Python statement of the
        remaining clauses, applied to the outputs of the REAL code (failing-input search)."""
import hashlib
import itertools
import json
import math
import os
from fractions import Fraction

import numpy as np
import xarray as xr

from harness import core

GEN = ["gen_valconst", "gen_xcheck_kernel", "gen_callbacks"]
EXTRACT_FILES = ["X07"]
DRIVERS = ["x07"]
RULE = ("a case = a pair of left/right disparity maps (1..6 x 1..14, values k/4 with invalid_disparity -9999 or NaN), "
        "two validity masks mixing every bit, a threshold in {0,1/2,1,3/2,2}, an integer interval with |d|<=6, an "
        "offset in 0..3, 0..2 pre-existing confidence bands; both calls of validation_run are made (left vs right, "
        "right vs checked left).  Generators: structured (right map = mirrored left map + perturbation on the "
        "threshold), random, edge (correspondents on/over both borders), half (half-integer disparities), "
        "exhaustive 1x3 / 1x4 maps over {-2..2, NaN}.  A case is non-trivial when its valid pixels receive at "
        "least two different verdicts; distinct by content digest")
ASSUMES = [
    "numpy primitives used by the step (np.rint half-even, fancy-index += on index arrays without repetition, "
    "np.where, np.tile, astype(int) of NaN = INT_MIN on x86-64) are hand-modelled and validated by this "
    "correspondence on every run",
    "left and right datasets have the same shape; disparity_interval holds integers (int() is the identity)",
    "the threshold is a finite number",
    "validity masks are uint16 and the flag additions do not wrap: proved (C07_no_wrap) for masks < 2^16",
    "T-gen (Gen/XCheckKernel.v): float arithmetic of the row body is exact on rationals (|dL + dR|, col + d in float32 "
    "are exact on the domain of bridging rule a); the disparity maps hold no +-inf on entry; the theorem 'generated = "
    "model' is for a non-empty checked dataset and a reference dataset of the same shape ([gen_pre]); dataset_left and "
    "dataset_right are distinct objects (no aliasing between the mask written and the maps read)",
]
TRUSTED = ["Gen/ValConst.v produced by translator/gen_valconst.py from the imported pandora.constants",
           "Gen/XCheckKernel.v produced by translator/gen_xcheck_kernel.py (Python ast of validation.py / disparity.py, fail "
           "closed) and the numpy semantics it targets: coq/Lib/NpVec.v + coq/Lib/NpRow.v (np.where, fancy indexing = copy, "
           "np.rint half-even, astype(int) of NaN/inf = INT_MIN, uint16 stores modulo 65536, read-modify-write +=, np.tile, "
           "transpose, 2-D gather/scatter in row-major order); allocate_confidence_map and mask_border stay hand-modelled "
           "(parameters of the generated method, instantiated by Model/XCheckGen.v x_append_band / x_mask_border)"]

# VERIF_AS_FOUND=1 compares with the model of the code before the `fix:` commits (fid 3)
MODEL_FID = 3 if os.environ.get("VERIF_AS_FOUND") == "1" else 1
THRESHOLDS = [Fraction(0), Fraction(1, 2), Fraction(1), Fraction(3, 2), Fraction(2)]
INFO_BITS = [4, 8, 16, 32, 1024, 2048]       # bits that do not make a pixel invalid
INVALID_BITS = [1, 2, 64, 128, 256, 512]     # PANDORA_MSK_PIXEL_INVALID = 0b01111000011


# ---------------------------------------------------------------- datasets


def make_ds(disp, mask, interval, offset, nbands):
    disp = np.array([[np.nan if v is None else float(v) for v in row] for row in disp], dtype=np.float32)
    nr, nc = disp.shape
    dv = {
        "disparity_map": (["row", "col"], disp),
        "disparity_interval": xr.DataArray(list(interval), coords=[("disparity", ["min", "max"])]),
        "validity_mask": (["row", "col"], np.array(mask, dtype=np.uint16).reshape(nr, nc)),
    }
    coords = {"row": np.arange(nr), "col": np.arange(nc)}
    if nbands > 0:
        bands = np.arange(nr * nc * nbands, dtype=np.float32).reshape(nr, nc, nbands) / 4
        dv["confidence_measure"] = (["row", "col", "indicator"], bands)
        coords["indicator"] = [f"confidence_from_x{i}" for i in range(nbands)]
    ds = xr.Dataset(dv, coords=coords)
    ds.attrs["offset_row_col"] = offset
    return ds


def enc_ds(disp, mask, interval, offset):
    nr, nc = len(disp), len(disp[0])
    return [nr, nc, [[v for v in row] for row in disp], [list(map(int, row)) for row in mask],
            int(interval[0]), int(interval[1]), int(offset)]


def conf_cell(x):
    x = float(x)
    if math.isnan(x):
        return []
    if math.isinf(x):
        return [1] if x > 0 else [-1]
    q = core.to_q(x)
    return [q.numerator, q.denominator]


def disp_cell(v):
    """a disparity as an exact rational, None for NaN; +-inf (never legitimate in a disparity map, but a step
    that leaks its NaN -> inf substitution writes it) is kept as the string 'inf'/'-inf' so that the comparison
    with the input map reports it instead of crashing the harness"""
    v = float(v)
    if math.isinf(v):
        return "inf" if v > 0 else "-inf"
    return core.to_q(v)


def snapshot(ds):
    """everything the property talks about, canonical"""
    out = {
        "mask": ds["validity_mask"].data.astype(int).tolist(),
        "disp": [[disp_cell(v) for v in row] for row in ds["disparity_map"].data],
        "bands": [],
        "names": [],
    }
    if "confidence_measure" in ds.data_vars:
        cm = ds["confidence_measure"].data
        out["names"] = [str(x) for x in ds.coords["indicator"].data]
        out["bands"] = [[[conf_cell(v) for v in row] for row in cm[:, :, k]] for k in range(cm.shape[2])]
    return out


# ---------------------------------------------------------------- generators


def q4(rng, lo, hi):
    return Fraction(rng.randrange(lo * 4, hi * 4 + 1), 4)


def gen_mask(rng, nr, nc, p_invalid):
    m = []
    for _ in range(nr):
        row = []
        for _ in range(nc):
            v = 0
            if rng.random() < 0.25:
                for b in rng.sample(INFO_BITS, rng.randrange(1, 3)):
                    v |= b
            if rng.random() < p_invalid:
                for b in rng.sample(INVALID_BITS, rng.choice([1, 1, 1, 2, 3])):
                    v |= b
            row.append(v)
        m.append(row)
    return m


def is_invalid(v):
    return (v & 0b01111000011) != 0


def gen_case(rng, kind):
    nr = rng.randrange(1, 7)
    nc = rng.randrange(1, 15)
    if kind == "tiny":
        nr, nc = rng.randrange(1, 3), rng.randrange(1, 4)
    dmin = rng.randrange(-6, 7)
    dmax = rng.randrange(dmin, 7) if rng.random() < 0.93 else dmin - rng.randrange(1, 3)  # sometimes empty
    lo, hi = min(dmin, dmax), max(dmin, dmax)
    invalid_disp = rng.choice([Fraction(-9999), None])
    thr = rng.choice(THRESHOLDS)
    offset = rng.choice([0, 0, 0, 0, 1, 1, 2, 3])
    maskL = gen_mask(rng, nr, nc, rng.choice([0.0, 0.1, 0.25, 0.5]))
    maskR = gen_mask(rng, nr, nc, rng.choice([0.0, 0.1, 0.25, 0.5]))
    step = {"structured": rng.choice([1, 1, 2, 4]), "random": rng.choice([1, 2, 4, 4]), "edge": rng.choice([1, 2, 4]),
            "half": 2, "tiny": rng.choice([1, 2, 4])}[kind]

    def val(a, b):
        return Fraction(rng.randrange(a * step, b * step + 1), step)

    L = [[None] * nc for _ in range(nr)]
    R = [[None] * nc for _ in range(nr)]
    for r in range(nr):
        for c in range(nc):
            if kind == "edge":
                # correspondents on / just over both borders
                tgt = rng.choice([-2, -1, 0, 0, nc - 1, nc - 1, nc, nc + 1, rng.randrange(-2, nc + 2)])
                L[r][c] = Fraction(tgt - c) + (val(-1, 1) / 2 if step > 1 else 0)
            elif kind == "half":
                L[r][c] = Fraction(rng.randrange(lo, hi + 1)) + rng.choice([Fraction(1, 2), Fraction(-1, 2), 0])
            else:
                L[r][c] = val(lo - 1, hi + 1)
            R[r][c] = val(-hi - 1, -lo + 1)
    if kind in ("structured", "edge", "half"):
        # make most right correspondents consistent up to a perturbation sitting on the threshold
        for r in range(nr):
            for c in range(nc):
                q = c + round(L[r][c])
                if 0 <= q < nc and rng.random() < 0.7:
                    pert = rng.choice([0, 0, thr, -thr, thr + Fraction(1, 4), -thr - Fraction(1, 4), thr - Fraction(1, 4),
                                       Fraction(1, 2), Fraction(-1, 2), 1, -1])
                    R[r][q] = -L[r][c] + pert
        # mismatch candidates: dR(p+d) rounds to -d
        for r in range(nr):
            for _ in range(rng.randrange(0, 3)):
                c = rng.randrange(nc)
                if lo <= hi:
                    d = rng.randrange(lo, hi + 1)
                    if 0 <= c + d < nc:
                        R[r][c + d] = Fraction(-d) + rng.choice([0, 0, Fraction(1, 4), Fraction(-1, 2), Fraction(1, 2)])
    for r in range(nr):
        for c in range(nc):
            if is_invalid(maskL[r][c]) and rng.random() < 0.8:
                L[r][c] = invalid_disp
            elif rng.random() < 0.02:
                L[r][c] = None  # NaN on a valid pixel
            if is_invalid(maskR[r][c]) and rng.random() < 0.8:
                R[r][c] = invalid_disp
            elif rng.random() < 0.03:
                R[r][c] = None
    return {"kind": kind, "L": L, "R": R, "maskL": maskL, "maskR": maskR, "thr": thr,
            "interval": [dmin, dmax], "offset": offset, "nbL": rng.choice([0, 1, 1, 2]), "nbR": rng.choice([0, 1, 2]),
            "thr_is_int": thr.denominator == 1 and rng.random() < 0.5}


def exhaustive_cases(rng, width, n_right):
    """every 1 x width left map over {-2..2, NaN}; right maps: all of them when n_right is None, else a sample"""
    vals = [Fraction(v) for v in range(-2, 3)] + [None]
    all_maps = list(itertools.product(vals, repeat=width))
    for lmap in all_maps:
        rights = all_maps if n_right is None else [rng.choice(all_maps) for _ in range(n_right)]
        for rmap in rights:
            yield {"kind": f"exhaustive1x{width}", "L": [list(lmap)], "R": [list(rmap)], "maskL": [[0] * width],
                   "maskR": [[0] * width], "thr": rng.choice(THRESHOLDS[:3]), "interval": [-2, 2], "offset": 0,
                   "nbL": 0, "nbR": 0, "thr_is_int": False}


# known shapes kept as a corpus (run first): D2 of DESIGN.md section 4 and the defects' minimal forms
def corpus():
    F = Fraction
    z6 = [F(0)] * 6
    yield {"kind": "corpus-D2", "L": [[F(-3), F(0), F(0), F(0), F(0), F(3)]], "R": [z6], "maskL": [[0] * 6],
           "maskR": [[0] * 6], "thr": F(1), "interval": [-3, 3], "offset": 0, "nbL": 1, "nbR": 1, "thr_is_int": False}
    yield {"kind": "corpus-nan-left", "L": [[None, F(0), F(1), None]], "R": [[F(0), None, F(-1), F(0)]],
           "maskL": [[0] * 4], "maskR": [[0] * 4], "thr": F(1), "interval": [-2, 2], "offset": 0, "nbL": 0, "nbR": 1,
           "thr_is_int": True}
    yield {"kind": "corpus-half", "L": [[F(1, 2), F(1, 2), F(1, 2), F(1, 2), F(-1, 2), F(-1, 2)]],
           "R": [[F(0), F(-1), F(0), F(-1), F(0), F(-1)]], "maskL": [[0] * 6], "maskR": [[0] * 6], "thr": F(1, 2),
           "interval": [-1, 1], "offset": 0, "nbL": 1, "nbR": 0, "thr_is_int": False}
    yield {"kind": "corpus-outside-match", "L": [[F(-3), F(0), F(0), F(0)]], "R": [[F(0), F(0), F(-2), F(0)]],
           "maskL": [[0] * 4], "maskR": [[0] * 4], "thr": F(0), "interval": [-3, 3], "offset": 0, "nbL": 1, "nbR": 1,
           "thr_is_int": False}


def case_to_json(case):
    def q(v):
        return None if v is None else [v.numerator, v.denominator]
    out = dict(case)
    out["L"] = [[q(v) for v in row] for row in case["L"]]
    out["R"] = [[q(v) for v in row] for row in case["R"]]
    out["thr"] = q(case["thr"])
    return out


def case_from_json(js):
    def q(v):
        return None if v is None else Fraction(v[0], v[1])
    out = dict(js)
    out["L"] = [[q(v) for v in row] for row in js["L"]]
    out["R"] = [[q(v) for v in row] for row in js["R"]]
    out["thr"] = q(js["thr"])
    return out


# ---------------------------------------------------------------- the property, on outputs of the real code


def is_half(v):
    return v is not None and v.denominator == 2


def check_call(ctx, case, which, me_disp, other_disp, mask_before, interval, offset, before_other, after_other,
               after_me, nb_before, verdicts):
    """the property sentence, clause by clause, on one call of the real code.  Returns the verdict histogram."""
    nr, nc = len(me_disp), len(me_disp[0])
    hist = {}
    replay = {"case": case_to_json(case), "call": which}

    def viol(key, what):
        ctx.violation(key, what + f" [call {which}: {'left vs right' if which == 0 else 'right vs checked left'}; "
                      f"maps {nr}x{nc}, threshold {case['thr']}, interval {interval}, offset {offset}]", replay)

    # "the step itself does not modify any disparity"; the other dataset is only read
    if after_me["disp"] != me_disp:
        viol("disparity_modified", "the checked dataset's disparity map changed")
    if after_other != before_other:
        viol("other_dataset_modified", "the dataset used as reference was modified by the call")
    # the band is appended, earlier bands are kept
    if len(after_me["bands"]) != nb_before + 1 or after_me["names"][-1] != "confidence_from_left_right_consistency":
        viol("confidence_band_missing", f"bands after the call: {after_me['names']}")
        return hist
    band = after_me["bands"][-1]
    for r in range(nr):
        for c in range(nc):
            m0, m1 = mask_before[r][c], after_me["mask"][r][c]
            v = verdicts[r][c]
            dl = me_disp[r][c]
            q = None if dl is None else c + round(dl)   # Python's round(Fraction): ties to even
            outside = q is None or not 0 <= q < nc
            tie_odd = is_half(dl) and c % 2 == 1
            # confidence band
            if v == -1 or outside:
                want = []
            elif other_disp[r][q] is None:
                want = None  # not prescribed by the property (the code writes +inf)
            else:
                x = abs(dl + other_disp[r][q])
                want = [x.numerator, x.denominator]
            if want is not None and band[r][c] != want:
                if tie_odd:
                    viol("half_integer_disparity_odd_column",
                         f"pixel ({r},{c}) dL={dl}: band holds {band[r][c]}, |dL(p)+dR(p+round(dL(p)))| is {want}: the "
                         f"code rounds col+dL (np.rint, ties to even) instead of dL")
                else:
                    viol("confidence_band", f"pixel ({r},{c}) dL={dl} q={q}: band holds {band[r][c]}, expected {want}")
            # flags
            border = offset > 0 and (r < offset or r >= nr - offset or c < offset or c >= nc - offset)
            if border:
                if m1 != 1:
                    viol("border_not_bit0", f"border pixel ({r},{c}) ends with mask {m1}")
                continue
            if v == -1:
                if m1 != m0:
                    viol("invalid_pixel_touched", f"already invalid pixel ({r},{c}) mask {m0} -> {m1}")
                continue
            hist[v] = hist.get(v, 0) + 1
            want_m = m0 + (0, 512, 256)[v]
            if m1 == want_m:
                continue
            got = {m0: "unflagged", m0 + 512: "mismatch", m0 + 256: "occlusion", m0 + 768: "both"}.get(m1, f"mask {m1}")
            wanted = ("unflagged", "mismatch", "occlusion")[v]
            desc = (f"valid pixel ({r},{c}) dL={dl} correspondent q={q}"
                    f"{' (outside the right image)' if outside else f' dR(q)={other_disp[r][q]}'}: the property "
                    f"prescribes {wanted}, the code leaves it {got}")
            if outside and m1 == m0:
                viol("outside_correspondent_unflagged", desc)
            elif outside and v == 1 and m1 == m0 + 256:
                viol("outside_correspondent_occlusion_despite_match",
                     desc + " (pixels whose correspondent is outside are flagged occlusion without the mismatch search)")
            elif tie_odd:
                viol("half_integer_disparity_odd_column", desc + " (the code rounds col+dL, ties to even, instead of dL)")
            else:
                viol("wrong_flag", desc)
    return hist


# ---------------------------------------------------------------- run


def run(ctx):
    from pandora import validation

    rng = ctx.rng
    quick = ctx.tier == "quick"
    model = core.Model("x07")

    cases = list(corpus())
    n = {"structured": 200, "random": 80, "edge": 80, "half": 60, "tiny": 40} if quick else \
        {"structured": 4000, "random": 1500, "edge": 1500, "half": 1000, "tiny": 400}
    for kind, k in n.items():
        for _ in range(k):
            cases.append(gen_case(rng, kind))
    if quick:
        ex = list(exhaustive_cases(rng, 3, 3))           # 216 left maps x 3 sampled right maps
        ex += list(exhaustive_cases(rng, 4, 1))[::3]     # a third of the 1296 1x4 left maps
    else:
        ex = list(exhaustive_cases(rng, 3, None))        # 216 x 216
        ex += list(exhaustive_cases(rng, 4, 24))         # 1296 left maps x 24 right maps
    cases += ex
    ctx.stats["exhaustive_cases"] = len(ex)
    if getattr(ctx, "replay_case", None) is not None:
        cases = [case_from_json(ctx.replay_case["case"])]

    # ---- model + spec, one batch (4 calls per case)
    margs = []
    for cs in cases:
        dmin, dmax = cs["interval"]
        eL = enc_ds(cs["L"], cs["maskL"], (dmin, dmax), cs["offset"])
        eR = enc_ds(cs["R"], cs["maskR"], (-dmax, -dmin), cs["offset"])
        t = cs["thr"]
        margs += [(MODEL_FID, [eL, eR, t]), (2, [eL, eR, t]), (MODEL_FID, [eR, eL, t]), (2, [eR, eL, t])]
    mres = model.batch(margs)

    # ---- the real code, as validation_run calls it
    for i, cs in enumerate(cases):
        ctx.count("cases_" + cs["kind"].split("-")[0])
        dmin, dmax = cs["interval"]
        thr = cs["thr"]
        thr_py = int(thr) if cs["thr_is_int"] else float(thr)
        left = make_ds(cs["L"], cs["maskL"], (dmin, dmax), cs["offset"], cs["nbL"])
        right = make_ds(cs["R"], cs["maskR"], (-dmax, -dmin), cs["offset"], cs["nbR"])
        cfg = {"validation_method": "cross_checking_accurate", "cross_checking_threshold": thr_py}
        val = validation.AbstractValidation(**cfg)
        r0 = snapshot(right)
        left2 = val.disparity_checking(left, right)
        l1, r1 = snapshot(left2), snapshot(right)
        right2 = val.disparity_checking(right, left2)
        l2, r2 = snapshot(left2), snapshot(right2)
        ctx.traces += 2

        m_left, s_left, m_right, s_right = mres[4 * i: 4 * i + 4]
        impl_left = [l1["mask"], l1["bands"][-1] if l1["bands"] else None]
        impl_right = [r2["mask"], r2["bands"][-1] if r2["bands"] else None]
        if impl_left != m_left:
            ctx.mismatch("xcheck-left", case_to_json(cs), impl_left, m_left)
        if impl_right != m_right:
            ctx.mismatch("xcheck-right", case_to_json(cs), impl_right, m_right)

        h1 = check_call(ctx, cs, 0, cs["L"], cs["R"], cs["maskL"], (dmin, dmax), cs["offset"], r0, r1, l1,
                        cs["nbL"], s_left)
        h2 = check_call(ctx, cs, 1, cs["R"], cs["L"], cs["maskR"], (-dmax, -dmin), cs["offset"], l1, l2, r2,
                        cs["nbR"], s_right)
        # ---- the step itself (PandoraMachine.validation_run), every third case, half of them with a filling
        # method: "the right map is checked against the left one by the same rule" - the pixels the step flags
        # (bits 8 / 9, or 4 / 5 once filled) in each map are those the two calls above flag
        if i % 3 == 0:
            from pandora.state_machine import PandoraMachine

            vcfg = dict(cfg)
            if i % 6 == 3:
                vcfg["interpolated_disparity"] = ("mc-cnn", "sgm")[(i // 6) % 2]
            rp_ = getattr(ctx, "replay_case", None)
            if rp_ is not None and (rp_.get("validation_run") or {}).get("interpolated_disparity"):
                vcfg["interpolated_disparity"] = rp_["validation_run"]["interpolated_disparity"]
            mach = PandoraMachine()
            mach.left_disparity = make_ds(cs["L"], cs["maskL"], (dmin, dmax), cs["offset"], cs["nbL"])
            mach.right_disparity = make_ds(cs["R"], cs["maskR"], (-dmax, -dmin), cs["offset"], cs["nbR"])
            mach.right_disp_map = "cross_checking_accurate"
            mach.validation_run({"pipeline": {"validation": vcfg}}, "validation")
            ctx.traces += 1
            ctx.count("validation_run_steps" + ("_filling" if "interpolated_disparity" in vcfg else ""))
            for side, got, want in (("left", mach.left_disparity, l1["mask"]), ("right", mach.right_disparity, r2["mask"])):
                g = (np.asarray(got["validity_mask"].data).astype(np.int64) & 816) != 0
                w = (np.asarray(want, dtype=np.int64) & 816) != 0
                if not np.array_equal(g, w):
                    r_, c_ = [int(x) for x in np.argwhere(g != w)[0]]
                    ctx.violation("validation_run_" + side + "_not_checked_by_the_rule",
                                  f"validation_run ({vcfg}): {side} pixel ({r_},{c_}) is "
                                  f"{'flagged' if g[r_, c_] else 'not flagged'} (mask "
                                  f"{int(got['validity_mask'].data[r_, c_])}) while the cross-check of the {side} map "
                                  f"against the other one {'flags' if w[r_, c_] else 'does not flag'} it",
                                  {"case": case_to_json(cs), "validation_run": vcfg})
        for k, v in list(h1.items()) + list(h2.items()):
            ctx.count(("keep", "mismatch", "occlusion")[k], v)
        nontrivial = len(h1) >= 2 or len(h2) >= 2
        key = None
        if nontrivial:
            key = hashlib.sha1(json.dumps(case_to_json(cs), sort_keys=True).encode()).hexdigest()[:16]
        ctx.case(key)
        if nontrivial and cs["kind"] in ("structured", "edge", "half") and len(cs["L"]) <= 2 and len(cs["L"][0]) <= 8:
            ctx.sample({"kind": cs["kind"], "dL": [[None if v is None else float(v) for v in row] for row in cs["L"]],
                        "dR": [[None if v is None else float(v) for v in row] for row in cs["R"]],
                        "maskL": cs["maskL"], "threshold": float(thr), "interval": cs["interval"],
                        "offset": cs["offset"], "mask_after": l1["mask"]}, limit=6)
    ctx.gen_obligations = [
        "Gen.ValConst constants = Model.CrossCheck constants (reflexivity on the regenerated file)",
        "Gen.XCheckKernel.g_row = Model.CrossCheck mask_row / conf_row for every row, no partial operation fails, no "
        "uint16 store wraps (C07_gen_row_eq_model, re-proved against the regenerated text)",
        "Gen.XCheckKernel.g_disparity_checking (prelude, row loop, epilogue) = Model.CrossCheck.xcheck on every "
        "well-shaped call (C07_gen_xcheck_eq_model) and C07_gen_xcheck_eq_spec / keep_iff / invalid_untouched / no_wrap / "
        "disparity_unchanged on the generated method",
    ]
    ctx.stats["spec_clauses_checked_on_impl"] = ["verdict per valid pixel (extracted xspec)", "invalid untouched",
                                                 "disparities unchanged (both datasets)", "reference dataset unchanged",
                                                 "confidence band value", "border bit 0"]
