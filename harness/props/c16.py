"""C16 -- image datasets faithfully encode input rasters, masks, nodata and ROI.

T-gen : Gen/Window.v = img_tools.get_window translated statement by statement (ast); the
        theorems of Props/C16.v about the window are proved on that generated definition.
        Gen/DatasetFns.v = add_disparity, add_classif, add_segm, add_no_data, add_mask and
        create_dataset_from_inputs translated statement by statement (translator/gen_dataset_fns.py)
        over the numpy / xarray / rasterio primitives of Model/DatasetPrims.v; Props/C16.v re-proves at
        every run that they compute what Model/Dataset.v computes, for all inputs (C16_gen_*_eq), and
        restates the theorems of the property on the generated create_dataset_from_inputs.
T-corr: Model/Dataset.v (extracted) against the real create_dataset_from_inputs / get_metadata
        on GeoTIFFs written by this harness with rasterio into a tempfile.mkdtemp() directory
        (outside /repo and /verif, removed at the end).
        Gen/DatasetFns.v itself (extracted through Extract/X16G.v) against the real
        create_dataset_from_inputs on the same cases: every variable, coordinate, dims of im, band_disp
        labels, attrs valid_pixels / no_data_mask / no_data_img / disparity_source, an absent key versus
        a key given as None (this exercises the translator and Model/DatasetPrims.v directly).
Spec  : independent Python oracle of the property sentence applied to the real outputs
        (three-way pixel classification, samples unchanged, ROI read = crop of the full read to
        [first - margin, last + margin] intersected with the image, refused iff empty)."""
import math
import os
import shutil
import tempfile
from fractions import Fraction

import numpy as np

from harness import core

GEN = ["gen_window", "gen_dataset_fns"]
EXTRACT_FILES = ["X16", "X16G"]
DRIVERS = ["x16", "x16g"]
RULE = ("ROI sweep on a 5x4 raster: every (first,last) pair in [-3, n+2] per axis with zero margins (exhaustive), plus a "
        "seeded sample of the cube first,last in [-3,n+2]^4 x margins {0,1,3}^4; random datasets (size, dtype, 1-3 bands, "
        "nodata in {-9999,0,7,NaN,+inf,-inf}, masks (int16 / uint8 / uint16 / int32 rasters) with values in {-5,-1,0,1,2,255} and, on the wider types, 256, 32768, 65535, +-65536, 131072, 2^24, -2^31, 2^31-1, disparity pair/grids, classif, segm) "
        "read whole and through random ROIs; a case is non-trivial when the ROI is clipped or refused or when the dataset "
        "has a nodata pixel or a non-zero mask value; distinct by (raster id, roi)")
ASSUMES = [
    "rasterio/GDAL decode what they encoded (checked here by reading back every raster the harness writes) and a windowed "
    "read returns the sub-array (Model/Dataset.v read); rasterio.windows.Window refuses a negative width/height with "
    "ValueError (mk_window) -- both validated by this correspondence on every run",
    "window theorems assume a non-empty requested interval first - margin <= last + margin on each axis (a ROI with "
    "last < first is malformed input; the correspondence still covers what the code does with it)",
    "with an infinite nodata value the code flags infinite samples of BOTH signs as no-data (np.isinf); the theorems "
    "mask_semantics / samples_unchanged carry the explicit guard 'no sample is the infinity opposite to nodata'; such "
    "inputs are counted in stats (observed_opposite_inf) and not judged",
]
TRUSTED = ["Gen/Window.v produced by translator/gen_window.py from the ast of img_tools.get_window",
           "Gen/DatasetFns.v produced by translator/gen_dataset_fns.py from the ast of add_disparity, add_classif, add_segm, "
           "add_no_data, add_mask, create_dataset_from_inputs; Model/DatasetPrims.v states the semantics of the numpy / xarray / "
           "rasterio constructs they use (vectorised expressions pixel by pixel, np.where as the set of selected cells, "
           "boolean-index assignment, windowed reads, Dataset updates as record updates)"]

NODATAS = [-9999, 0, 7, float("nan"), float("inf"), float("-inf")]
MASK_VALUES = [-5, -1, 0, 0, 0, 1, 2, 255]
NAMES = ["r", "g", "b", "nir", "cls_a", "cls_b", None]


# ---------------------------------------------------------------- encoding


def enc_sample(x):
    x = float(x)
    if math.isnan(x):
        return []
    if math.isinf(x):
        return [1 if x > 0 else -1]
    return Fraction(*x.as_integer_ratio())


def dec_sample(v):
    """decoded model sample -> canonical python value"""
    if v == []:
        return "nan"
    if len(v) == 1:
        return "inf" if v[0] > 0 else "-inf"
    return Fraction(v[0], v[1])


def canon_sample(x):
    x = float(x)
    if math.isnan(x):
        return "nan"
    if math.isinf(x):
        return "inf" if x > 0 else "-inf"
    return Fraction(*x.as_integer_ratio())


def enc_grid(a, f):
    return [[f(v) for v in row] for row in np.asarray(a).tolist()]


def name_code(n):
    return NAMES.index(n)


def js(x):
    """json-safe number"""
    if isinstance(x, float) and (math.isnan(x) or math.isinf(x)):
        return canon_sample(x)
    return x


def unjs(x):
    return float(x) if isinstance(x, str) else x


# ---------------------------------------------------------------- cases


def gen_dataset_case(rng, rows, cols, force=None):
    """a raster set: dict of plain python data (json-able)"""
    force = force or {}
    dtype = force.get("dtype", rng.choice(["float32", "float32", "int16", "uint8"]))
    nb = force.get("bands", rng.choice([1, 1, 2, 3]))
    nodata = force.get("nodata", rng.choice(NODATAS))
    lo, hi = (0, 255) if dtype == "uint8" else (-40, 1023)
    img = []
    for _ in range(nb):
        band = []
        for _ in range(rows):
            row = []
            for _ in range(cols):
                r = rng.random()
                v = float(rng.randrange(lo, min(hi, 60)))
                if dtype == "float32":
                    if r < 0.1:
                        v += rng.choice([0.5, 0.25])
                    elif r < 0.17:
                        v = float("nan")
                    elif r < 0.22:
                        v = float("inf")
                    elif r < 0.27:
                        v = float("-inf")
                if 0.27 <= r < 0.4 and not (isinstance(nodata, float) and not math.isfinite(nodata)):
                    if not (dtype == "uint8" and not 0 <= nodata <= 255):
                        v = float(nodata)
                row.append(v)
            band.append(row)
        img.append(band)
    if force.get("clean"):  # no nodata pixel at all
        img = [[[float(1 + (r * cols + c + b) % 50) for c in range(cols)] for r in range(rows)] for b in range(nb)]
    names = rng.sample(NAMES[:4], nb) if rng.random() < 0.85 else [None] * nb
    case = {"rows": rows, "cols": cols, "dtype": dtype, "img": [[[js(v) for v in r] for r in b] for b in img],
            "names": names, "nodata": js(nodata)}
    mk = force.get("mask", rng.choice(["none", "absent", "int16", "int16", "uint8", "int32", "uint16"]))
    case["mask_kind"] = mk
    if mk in MASK_DTYPES:
        # wider mask rasters (quality bit fields): non-zero values whose low 8 / 16 bits are all zero
        vals = {"int16": MASK_VALUES, "uint8": [0, 0, 0, 1, 2, 255], "uint16": [0, 0, 0, 1, 256, 32768, 65535],
                "int32": [0, 0, 0, 1, -1, 256, 65536, -65536, 131072, 1 << 24, -(1 << 31), (1 << 31) - 1]}[mk]
        case["mask"] = [[rng.choice(vals) for _ in range(cols)] for _ in range(rows)]
    dk = force.get("disp", rng.choice(["absent", "none", "pair", "pair", "grid"]))
    case["disp_kind"] = dk
    if dk == "pair":
        a = rng.randrange(-8, 5)
        case["disp"] = [a, a + rng.randrange(0, 7)]
    elif dk == "grid":
        gmin = [[rng.randrange(-8, 3) for _ in range(cols)] for _ in range(rows)]
        case["disp_grid"] = [gmin, [[v + rng.randrange(0, 6) for v in r] for r in gmin]]
    if force.get("classif", rng.random() < 0.4):
        k = rng.choice([1, 2])
        case["classif"] = {"names": ["cls_a", "cls_b"][:k], "dtype": rng.choice(["int16", "uint8"]),
                           "bands": [[[rng.randrange(0, 2) for _ in range(cols)] for _ in range(rows)] for _ in range(k)]}
    if force.get("segm", rng.random() < 0.4):
        case["segm"] = [[rng.randrange(0, 300) for _ in range(cols)] for _ in range(rows)]
    # a key given as None (as opposed to an absent key)
    if "classif" not in case and rng.random() < 0.3:
        case["classif_none"] = True
    if "segm" not in case and rng.random() < 0.3:
        case["segm_none"] = True
    return case


MASK_DTYPES = ("int16", "uint8", "int32", "uint16")


def write_tif(path, arr, dtype, names=None):
    import rasterio
    arr = np.asarray(arr, dtype=np.float64)
    if arr.ndim == 2:
        arr = arr[None]
    with rasterio.open(path, "w", driver="GTiff", height=arr.shape[1], width=arr.shape[2], count=arr.shape[0],
                       dtype=dtype) as dst:
        dst.write(arr.astype(dtype))
        if names and any(n is not None for n in names):
            for i, n in enumerate(names, 1):
                if n is not None:
                    dst.set_band_description(i, n)
    with rasterio.open(path) as src:  # "rasterio decodes what it encoded"
        back = src.read()
        if back.shape != arr.shape or not np.array_equal(back.astype(np.float64), arr.astype(dtype).astype(np.float64),
                                                         equal_nan=True):
            raise RuntimeError(f"raster {path} does not read back as written")


class Files:
    """rasters of one case written to the scratch directory + the input section naming them"""

    def __init__(self, case, tmp, tag):
        self.case = case
        d = os.path.join(tmp, tag)
        os.makedirs(d, exist_ok=True)
        self.img = np.array([[[unjs(v) for v in r] for r in b] for b in case["img"]], dtype=np.float64)
        self.img32 = self.img.astype(case["dtype"]).astype(np.float32)  # what a float32 read of the file holds
        p = os.path.join(d, "img.tif")
        write_tif(p, self.img, case["dtype"], case["names"])
        self.nodata = unjs(case["nodata"])
        self.cfg = {"img": p, "nodata": self.nodata}
        self.mask = None
        if case["mask_kind"] in MASK_DTYPES:
            self.mask = np.array(case["mask"], dtype=np.int64)
            pm = os.path.join(d, "mask.tif")
            write_tif(pm, self.mask, case["mask_kind"])
            self.cfg["mask"] = pm
        elif case["mask_kind"] == "none":
            self.cfg["mask"] = None
        self.grid = None
        if case["disp_kind"] == "pair":
            self.cfg["disp"] = list(case["disp"])
        elif case["disp_kind"] == "none":
            self.cfg["disp"] = None
        elif case["disp_kind"] == "grid":
            self.grid = np.array(case["disp_grid"], dtype=np.float64)
            pg = os.path.join(d, "grid.tif")
            write_tif(pg, self.grid, "float32", ["min", "max"])
            self.cfg["disp"] = pg
        self.classif = None
        if "classif" in case:
            self.classif = np.array(case["classif"]["bands"], dtype=np.int64)
            pc = os.path.join(d, "classif.tif")
            write_tif(pc, self.classif, case["classif"]["dtype"], case["classif"]["names"])
            self.cfg["classif"] = pc
        elif case.get("classif_none"):
            self.cfg["classif"] = None
        self.segm = None
        if "segm" in case:
            self.segm = np.array(case["segm"], dtype=np.int64)
            ps = os.path.join(d, "segm.tif")
            write_tif(ps, self.segm, "int16")
            self.cfg["segm"] = ps
        elif case.get("segm_none"):
            self.cfg["segm"] = None

    def gen_inputs(self):
        """the input section for the regenerated function: a key is [] absent, [[]] None, [[value]] given"""
        c = self.case
        mi = self.model_inputs()

        def key(present_none, value):
            if value is not None:
                return [[value]]
            return [[]] if present_none else []
        mask = key(c["mask_kind"] == "none", [[], [enc_grid(self.mask, int)]] if self.mask is not None else None)
        disp = [] if c["disp_kind"] == "absent" else [mi[4]]
        classif = key(bool(c.get("classif_none")), mi[5][0] if self.classif is not None else None)
        segm = key(bool(c.get("segm_none")), [[], [enc_grid(self.segm, int)]] if self.segm is not None else None)
        return [mi[0], mi[1], mi[2], mask, disp, classif, segm]

    def model_inputs(self):
        c = self.case
        disp = [0]
        if c["disp_kind"] == "pair":
            disp = [1, c["disp"][0], c["disp"][1]]
        elif c["disp_kind"] == "grid":
            disp = [2, enc_grid(self.grid[0], enc_sample), enc_grid(self.grid[1], enc_sample)]
        return [
            [enc_grid(b, enc_sample) for b in self.img32],
            [name_code(n) for n in c["names"]],
            enc_sample(self.nodata),
            [enc_grid(self.mask, int)] if self.mask is not None else [],
            disp,
            [[[name_code(n) for n in c["classif"]["names"]], [enc_grid(b, int) for b in self.classif]]]
            if self.classif is not None else [],
            [enc_grid(self.segm, int)] if self.segm is not None else [],
        ]


def roi_dict(roi):
    cf, cl, rf, rl, m = roi
    return {"col": {"first": cf, "last": cl}, "row": {"first": rf, "last": rl}, "margins": list(m)}


def roi_args(roi, width, height):
    cf, cl, rf, rl, m = roi
    return [cf, cl, rf, rl, m[0], m[1], m[2], m[3], width, height]


# ---------------------------------------------------------------- canonical forms


def canon_arr(a, f):
    a = np.asarray(a)
    return [a.shape[0], a.shape[1], [[f(v) for v in row] for row in a.tolist()]]


def canon_impl_dataset(ds):
    im = ds["im"].data
    bands = [im] if im.ndim == 2 else list(im)
    out = [[canon_arr(b, canon_sample) for b in bands],
           [name_code(n) for n in ds.coords["band_im"].data.tolist()] if "band_im" in ds.coords else None,
           [int(v) for v in ds.coords["row"].data], [int(v) for v in ds.coords["col"].data],
           canon_sample(ds.attrs["no_data_img"]),
           canon_arr(ds["msk"].data, int) if "msk" in ds else None,
           [canon_arr(ds["disparity"].data[0], canon_sample), canon_arr(ds["disparity"].data[1], canon_sample)]
           if "disparity" in ds else None,
           [[name_code(n) for n in ds.coords["band_classif"].data.tolist()],
            [canon_arr(b, int) for b in ds["classif"].data]] if "classif" in ds else None,
           canon_arr(ds["segm"].data, int) if "segm" in ds else None]
    return out


def canon_model_arr(v, f):
    return [v[0], v[1], [[f(x) for x in row] for row in v[2]]]


def canon_model_dataset(v):
    def opt(x, f):
        return f(x[0]) if x else None
    return [[canon_model_arr(b, dec_sample) for b in v[0]],
            opt(v[1], list), list(v[2]), list(v[3]), dec_sample(v[4]),
            opt(v[5], lambda a: canon_model_arr(a, int)),
            opt(v[6], lambda p: [canon_model_arr(p[0], dec_sample), canon_model_arr(p[1], dec_sample)]),
            opt(v[7], lambda p: [list(p[0]), [canon_model_arr(b, int) for b in p[1]]]),
            opt(v[8], lambda a: canon_model_arr(a, int))]


STR_CODES = {"row": 0, "col": 1, "band_im": 2, "min": 3, "max": 4}


def canon_impl_xds(ds):
    """the real dataset, in the form Extract/X16G.v prints the generated one"""
    im = ds["im"].data
    bands = [im] if im.ndim == 2 else list(im)
    if "disparity_source" not in ds.attrs:
        dsrc = None
    else:
        v = ds.attrs["disparity_source"]
        dsrc = 0 if v is None else (2 if isinstance(v, str) else [int(x) for x in v])
    return [im.ndim, [canon_arr(b, canon_sample) for b in bands],
            [STR_CODES.get(d, -1) for d in ds["im"].dims],
            [name_code(n) for n in ds.coords["band_im"].data.tolist()] if "band_im" in ds.coords else None,
            [int(v) for v in ds.coords["row"].data], [int(v) for v in ds.coords["col"].data],
            [int(ds.attrs["valid_pixels"]), int(ds.attrs["no_data_mask"])],
            canon_sample(ds.attrs["no_data_img"]) if "no_data_img" in ds.attrs else None,
            dsrc,
            canon_arr(ds["msk"].data, int) if "msk" in ds else None,
            [STR_CODES.get(x, -1) for x in ds.coords["band_disp"].data.tolist()] if "band_disp" in ds.coords else None,
            [canon_arr(b, canon_sample) for b in ds["disparity"].data] if "disparity" in ds else None,
            [name_code(n) for n in ds.coords["band_classif"].data.tolist()] if "band_classif" in ds.coords else None,
            [canon_arr(b, int) for b in ds["classif"].data] if "classif" in ds else None,
            canon_arr(ds["segm"].data, int) if "segm" in ds else None]


def canon_gen(res):
    """result of Extract/X16G.v fid 1"""
    if res[0] == 0:
        return ["outside"]
    if res[0] == -1:
        return ["negative"]
    v = res[1]

    def opt(x, f):
        return f(x[0]) if x else None
    return ["ok", [v[0], [canon_model_arr(b, dec_sample) for b in v[1]], list(v[2]), opt(v[3], list), list(v[4]), list(v[5]),
                   list(v[6]), opt(v[7], dec_sample), opt(v[8], lambda d: d if isinstance(d, int) else list(d)),
                   opt(v[9], lambda a: canon_model_arr(a, int)), opt(v[10], list),
                   opt(v[11], lambda l: [canon_model_arr(b, dec_sample) for b in l]), opt(v[12], list),
                   opt(v[13], lambda l: [canon_model_arr(b, int) for b in l]),
                   opt(v[14], lambda a: canon_model_arr(a, int))]]


XDS_FIELDS = ["ndim", "im", "im_dims", "band_im", "row", "col", "valid_pixels/no_data_mask", "no_data_img",
              "disparity_source", "msk", "band_disp", "disparity", "band_classif", "classif", "segm"]


def xds_diff(a, b):
    if a[0] != "ok" or b[0] != "ok":
        return a[:1], b[:1]
    for n, x, y in zip(XDS_FIELDS, a[1], b[1]):
        if x != y:
            return {n: x}, {n: y}
    return a, b


def run_impl(files, roi):
    from pandora import img_tools
    try:
        ds = img_tools.create_dataset_from_inputs(dict(files.cfg), roi_dict(roi) if roi is not None else None)
    except ValueError as exc:
        if "outside the image" in str(exc):
            return ["outside"], None
        if "non-negative" in str(exc):
            return ["negative"], None
        return ["ValueError:" + str(exc)[:80]], None
    except Exception as exc:  # pylint: disable=broad-except
        return [type(exc).__name__ + ":" + str(exc)[:80]], None
    return ["ok", canon_impl_dataset(ds)], ds


def canon_model(res, with_window):
    if with_window:
        w = res[0]
        if w[0] == 0:
            return ["outside"]
        if w[0] == -1:
            return ["negative"]
        return ["ok", canon_model_dataset(res[1])]
    return ["ok", canon_model_dataset(res)]


# ---------------------------------------------------------------- the property, independently


def same_float(a, b):
    a, b = float(a), float(b)
    return (math.isnan(a) and math.isnan(b)) or a == b


def equals_nodata(v, nd):
    """an image sample equals the nodata value (NaN = NaN here)"""
    return same_float(v, nd)


def opposite_inf(v, nd):
    return math.isinf(float(nd)) and math.isinf(float(v)) and float(v) != float(nd)


def spec_full(files, ds, ctx, replay):
    """property sentence on the dataset of the whole raster; returns list of (key, what)"""
    bad = []
    c = files.case
    nd = files.nodata
    nb, rows, cols = files.img32.shape
    im = ds["im"].data
    if im.dtype != np.float32:
        bad.append(("im_dtype", f"im is {im.dtype}, not float32"))
    if (im.ndim == 2) != (nb == 1) or tuple(im.shape[-2:]) != (rows, cols):
        bad.append(("im_shape", f"im shape {im.shape} for a {nb}x{rows}x{cols} raster"))
        return bad
    im3 = im[None] if im.ndim == 2 else im
    if nb > 1 and ds.coords["band_im"].data.tolist() != list(c["names"]):
        bad.append(("band_names", f"band_im {ds.coords['band_im'].data.tolist()} != file descriptions {c['names']}"))
    if [int(v) for v in ds.coords["row"].data] != list(range(rows)) or \
            [int(v) for v in ds.coords["col"].data] != list(range(cols)):
        bad.append(("coords", "coordinates of the whole read are not 0..n-1"))
    special = isinstance(nd, float) and not math.isfinite(nd)
    msk = ds["msk"].data if "msk" in ds else None
    if msk is not None and msk.dtype != np.int16:
        bad.append(("msk_dtype", f"msk is {msk.dtype}"))
    any_flag = False
    for r in range(rows):
        for col in range(cols):
            px = files.img32[:, r, col]
            if any(opposite_inf(v, nd) for v in px):
                ctx.count("observed_opposite_inf")
                any_flag = True  # not judged (see ASSUMES)
                continue
            is_nd = any(equals_nodata(v, nd) for v in px)
            for b in range(nb):
                want = -9999.0 if (special and equals_nodata(px[b], nd)) else float(px[b])
                if not same_float(im3[b, r, col], want):
                    bad.append(("samples", f"im[{b},{r},{col}] = {im3[b, r, col]} but the raster holds {px[b]} "
                                           f"(nodata {nd}): expected {want}"))
            mv = int(files.mask[r, col]) if files.mask is not None else 0
            want_cls = "nodata" if is_nd else ("invalid" if mv != 0 else "valid")
            any_flag = any_flag or want_cls != "valid"
            got = 0 if msk is None else int(msk[r, col])
            got_cls = "valid" if got == ds.attrs["valid_pixels"] else \
                ("nodata" if got == ds.attrs["no_data_mask"] else "invalid")
            if got_cls != want_cls:
                key = "mask_class"
                if mv < 0 and want_cls == "invalid" and got_cls == "valid":
                    key = "mask_negative_valid"
                bad.append((key, f"pixel ({r},{col}): samples {px.tolist()}, nodata {nd}, input mask value {mv}: "
                                 f"should be {want_cls}, msk = {got} ({got_cls})"))
    if msk is None and files.mask is not None:
        bad.append(("mask_absent", "a mask raster was given but the dataset has no msk variable"))
    if msk is not None and files.mask is None and not any_flag:
        bad.append(("mask_present", "msk variable although there is no mask and no nodata pixel"))
    # disparity, classif, segm
    if c["disp_kind"] == "pair":
        d = ds["disparity"].data if "disparity" in ds else None
        if d is None or d.shape != (2, rows, cols) or not (np.all(d[0] == c["disp"][0]) and np.all(d[1] == c["disp"][1])) \
                or ds.coords["band_disp"].data.tolist() != ["min", "max"]:
            bad.append(("disparity", f"disparity variable is not the pair {c['disp']} broadcast"))
    elif c["disp_kind"] == "grid":
        d = ds["disparity"].data if "disparity" in ds else None
        if d is None or d.shape != (2, rows, cols) or not np.array_equal(d, files.grid.astype(np.float32)):
            bad.append(("disparity", "disparity variable is not the two grid bands"))
    elif "disparity" in ds:
        bad.append(("disparity", "disparity variable without a disp input"))
    if files.classif is not None:
        if "classif" not in ds or not np.array_equal(ds["classif"].data, files.classif) or \
                ds.coords["band_classif"].data.tolist() != c["classif"]["names"] or ds["classif"].dtype != np.int16:
            bad.append(("classif", "classification raster not attached unchanged"))
    elif "classif" in ds:
        bad.append(("classif", "classif variable without a classif input"))
    if files.segm is not None:
        if "segm" not in ds or not np.array_equal(ds["segm"].data, files.segm) or ds["segm"].dtype != np.int16:
            bad.append(("segm", "segmentation raster not attached unchanged"))
    elif "segm" in ds:
        bad.append(("segm", "segm variable without a segm input"))
    return bad


def pixel_classes(ds):
    rows, cols = ds.sizes["row"], ds.sizes["col"]
    if "msk" not in ds:
        return np.zeros((rows, cols), dtype=np.int64)
    m = ds["msk"].data
    return np.where(m == ds.attrs["valid_pixels"], 0, np.where(m == ds.attrs["no_data_mask"], 1, 2))


def spec_roi(files, roi, outcome, ds, full, ):
    """'Reading with a ROI equals cropping the full read to [first - margin, last + margin] clipped to the
    image, coordinates included, and a ROI entirely outside the image is refused.'  Only judged for
    well-formed ROIs (first <= last)."""
    cf, cl, rf, rl, m = roi
    _, rows, cols = files.img32.shape
    c0, c1 = max(cf - m[0], 0), min(cl + m[2], cols - 1)
    r0, r1 = max(rf - m[1], 0), min(rl + m[3], rows - 1)
    empty = c0 > c1 or r0 > r1
    what = f"{rows}x{cols} raster, ROI cols [{cf},{cl}] rows [{rf},{rl}] margins {list(m)}"
    bad = []
    if empty:
        if outcome[0] != "outside":
            adjacent = (cf - m[0] == cols) or (rf - m[1] == rows) or (cl + m[2] == -1) or (rl + m[3] == -1)
            bad.append(("roi_adjacent_not_refused" if adjacent else "roi_outside_not_refused",
                        f"{what}: no pixel of the image is inside, but the read is not refused "
                        f"({outcome[0]}{'' if ds is None else ', sizes ' + str(dict(ds.sizes))})"))
        return bad
    if outcome[0] != "ok":
        bad.append(("roi_refused", f"{what}: rows {r0}..{r1}, cols {c0}..{c1} are inside the image, read refused: {outcome[0]}"))
        return bad
    crop = full.isel(row=slice(r0, r1 + 1), col=slice(c0, c1 + 1))
    if list(ds.coords["row"].data) != list(crop.coords["row"].data) or \
            list(ds.coords["col"].data) != list(crop.coords["col"].data):
        bad.append(("roi_crop", f"{what}: coordinates rows {list(ds.coords['row'].data)} cols {list(ds.coords['col'].data)}, "
                                f"expected rows {r0}..{r1} cols {c0}..{c1}"))
        return bad
    for var in ("im", "disparity", "classif", "segm"):
        if (var in ds) != (var in crop) or (var in ds and not np.array_equal(ds[var].data, crop[var].data, equal_nan=True)):
            bad.append(("roi_crop", f"{what}: variable {var} differs from the crop of the full read"))
    if not np.array_equal(pixel_classes(ds), pixel_classes(crop)):
        bad.append(("roi_crop", f"{what}: valid/no-data/invalid classification differs from the crop of the full read"))
    for co in ("band_im", "band_classif", "band_disp"):
        if (co in ds.coords) != (co in crop.coords) or (co in ds.coords and list(ds.coords[co].data) != list(crop.coords[co].data)):
            bad.append(("roi_crop", f"{what}: coordinate {co} differs"))
    return bad


# ---------------------------------------------------------------- run


def roi_nontrivial(roi, rows, cols):
    cf, cl, rf, rl, m = roi
    return cf - m[0] < 0 or cl + m[2] > cols - 1 or rf - m[1] < 0 or rl + m[3] > rows - 1


def run(ctx):
    from pandora import img_tools
    rng = ctx.rng
    quick = ctx.tier == "quick"
    model = core.Model("x16")
    tmp = tempfile.mkdtemp(prefix="verif_c16_")
    try:
        jobs = []  # (case, case_id, [roi or None, ...])
        if getattr(ctx, "replay_case", None) is not None:
            rc = ctx.replay_case
            jobs.append((rc["case"], "replay", [None] + [tuple(r[:4]) + (tuple(r[4]),) for r in rc.get("rois", [])]))
        else:
            # A. ROI sweep on a 5x4 raster (cols = 5, rows = 4)
            rows, cols = 4, 5
            base = gen_dataset_case(rng, rows, cols, force={"dtype": "float32", "bands": 2, "nodata": float("nan"),
                                                             "mask": "int16", "disp": "grid", "classif": True, "segm": True})
            rois = []
            cpairs = [(a, b) for a in range(-3, cols + 3) for b in range(-3, cols + 3)]
            rpairs = [(a, b) for a in range(-3, rows + 3) for b in range(-3, rows + 3)]
            for a, b in cpairs:  # exhaustive per axis, zero margins
                rois.append((a, b, 1, 2, (0, 0, 0, 0)))
            for a, b in rpairs:
                rois.append((1, 3, a, b, (0, 0, 0, 0)))
            n_rand = 2000 if quick else 60000
            for _ in range(n_rand):
                (a, b), (c, d) = rng.choice(cpairs), rng.choice(rpairs)
                if rng.random() < 0.8 and a > b:
                    a, b = b, a
                if rng.random() < 0.8 and c > d:
                    c, d = d, c
                rois.append((a, b, c, d, tuple(rng.choice([0, 1, 3]) for _ in range(4))))
            if not quick:  # every margin 4-tuple on every well-ordered column pair / row pair
                for a, b in cpairs:
                    for m0 in (0, 1, 3):
                        for m2 in (0, 1, 3):
                            rois.append((a, b, 0, 3, (m0, 0, m2, 0)))
                for a, b in rpairs:
                    for m1 in (0, 1, 3):
                        for m3 in (0, 1, 3):
                            rois.append((0, 4, a, b, (0, m1, 0, m3)))
            ctx.stats["roi_sweep_cases"] = len(rois)
            jobs.append((base, "sweep5x4", [None] + rois))
            if not quick:
                base2 = gen_dataset_case(rng, 3, 6, force={"dtype": "int16", "bands": 1, "nodata": 7, "mask": "uint8"})
                rois2 = []
                for _ in range(30000):
                    a, b = sorted((rng.randrange(-3, 9), rng.randrange(-3, 9)))
                    c, d = sorted((rng.randrange(-3, 6), rng.randrange(-3, 6)))
                    rois2.append((a, b, c, d, tuple(rng.choice([0, 1, 3]) for _ in range(4))))
                jobs.append((base2, "sweep3x6", [None] + rois2))
            # B. fixed corpus: mask values of every sign, every nodata kind, nothing to flag
            corpus = [
                {"dtype": "int16", "bands": 1, "nodata": -9999, "mask": "int16", "clean": True},
                {"dtype": "float32", "bands": 2, "nodata": float("inf"), "mask": "int16"},
                {"dtype": "float32", "bands": 3, "nodata": float("-inf"), "mask": "none"},
                {"dtype": "float32", "bands": 1, "nodata": float("nan"), "mask": "absent"},
                {"dtype": "uint8", "bands": 1, "nodata": 0, "mask": "uint8"},
                {"dtype": "float32", "bands": 1, "nodata": 7, "mask": "absent", "clean": True},
                {"dtype": "float32", "bands": 2, "nodata": float("nan"), "mask": "none", "clean": True},
            ]
            for i, f in enumerate(corpus):
                r_, c_ = 3 + i % 3, 4 + i % 2
                case = gen_dataset_case(rng, r_, c_, force=f)
                jobs.append((case, f"corpus{i}", [None] + [random_roi(rng, r_, c_) for _ in range(3)]))
            # C. random datasets
            for i in range(60 if quick else 600):
                r_, c_ = rng.randrange(1, 9), rng.randrange(1, 10)
                case = gen_dataset_case(rng, r_, c_)
                jobs.append((case, f"rand{i}", [None] + [random_roi(rng, r_, c_) for _ in range(3 if quick else 6)]))

        # ---- write rasters, run model (one batch) and implementation
        prepared = []
        margs = []
        for case, cid, rois in jobs:
            files = Files(case, tmp, cid)
            mi = files.model_inputs()
            for roi in rois:
                if roi is None:
                    margs.append((2, [mi, []]))
                else:
                    margs.append((3, [mi, roi_args(roi, case["cols"], case["rows"])]))
            margs.append((4, mi))
            prepared.append((case, cid, rois, files))
        mres = model.batch(margs)
        # the regenerated function itself (skipped when its translation / extraction did not go through: the broken
        # obligation is already recorded and a stale driver must not be compared)
        gen_ok = not any(("gen_dataset_fns" in b["name"]) or ("X16G" in b["name"]) or ("x16g" in b["name"]) for b in ctx.broken)
        gres = []
        if gen_ok:
            gargs = []
            for case, cid, rois, files in prepared:
                gi = files.gen_inputs()
                for roi in rois:
                    gargs.append((1, [gi, [] if roi is None else roi_args(roi, 0, 0)[:8]]))
            gres = core.Model("x16g").batch(gargs)
        else:
            ctx.notes.append("direct comparison of Gen/DatasetFns.v with the real code skipped (translation/extraction broken)")
        kg = 0
        k = 0
        for case, cid, rois, files in prepared:
            rows, cols = case["rows"], case["cols"]
            full = None
            ctx.count("rasters")
            ctx.count("dtype_" + case["dtype"])
            ctx.count("nodata_" + str(case["nodata"]))
            ctx.count("mask_" + case["mask_kind"])
            ctx.count("disp_" + case["disp_kind"])
            ctx.count(f"bands_{len(case['img'])}")
            for roi in rois:
                mr = canon_model(mres[k], roi is not None)
                k += 1
                outcome, ds = run_impl(files, roi)
                ctx.traces += 1
                replay = {"case": case, "rois": [] if roi is None else [list(roi[:4]) + [list(roi[4])]]}
                if outcome != mr:
                    ctx.mismatch("create_dataset", {"case_id": cid, "roi": roi, "replay": replay},
                                 summarize(outcome), summarize(mr))
                if gen_ok:
                    gx = canon_gen(gres[kg])
                    kg += 1
                    ix = ["ok", canon_impl_xds(ds)] if ds is not None else outcome
                    ctx.traces += 1
                    ctx.count("gen_direct_compared")
                    if gx != ix:
                        di, dg = xds_diff(ix, gx)
                        ctx.mismatch("gen_create_dataset_from_inputs", {"case_id": cid, "roi": roi, "replay": replay}, di, dg)
                if roi is None:
                    full = ds
                    flagged = ds is not None and "msk" in ds and bool(np.any(ds["msk"].data != 0))
                    ctx.case((cid, None) if flagged else None)
                    if ds is None:
                        ctx.violation("full_read_failed", f"reading the whole raster failed: {outcome}", replay)
                        break
                    for key, what in spec_full(files, ds, ctx, replay)[:3]:
                        ctx.violation(key, what, replay)
                    ctx.sample({"raster": cid, "shape": [len(case["img"]), rows, cols], "dtype": case["dtype"],
                                "nodata": case["nodata"], "mask": case["mask_kind"], "disp": case["disp_kind"],
                                "msk_values": sorted(set(ds["msk"].data.ravel().tolist())) if "msk" in ds else None},
                               limit=4)
                else:
                    ctx.count("roi_" + outcome[0].split(":")[0])
                    ctx.case((cid, roi) if roi_nontrivial(roi, rows, cols) else None)
                    if roi[0] <= roi[1] and roi[2] <= roi[3]:
                        for key, what in spec_roi(files, roi, outcome, ds, full)[:2]:
                            ctx.violation(key, what, replay)
                    else:
                        ctx.count("roi_inverted_not_judged")
                    if cid == "sweep5x4" and outcome[0] == "ok":
                        ctx.sample({"raster": cid, "roi": roi_dict(roi), "rows": outcome[1][2], "cols": outcome[1][3]}, limit=8)
            # get_metadata
            mm = mres[k]
            k += 1
            try:
                md = img_tools.get_metadata(files.cfg["img"], files.cfg.get("disp"), files.cfg.get("classif"),
                                            files.cfg.get("segm"))
                impl_md = [[name_code(n) for n in md.coords["band_im"].data.tolist()],
                           [int(v) for v in md.coords["row"].data], [int(v) for v in md.coords["col"].data]]
            except Exception as exc:  # pylint: disable=broad-except
                impl_md = [type(exc).__name__]
            if impl_md != [list(mm[0]), list(mm[1]), list(mm[2])]:
                ctx.mismatch("get_metadata", {"case_id": cid, "replay": {"case": case}}, impl_md, mm)
            if impl_md[1:] != [list(range(rows)), list(range(cols))] or \
                    impl_md[0] != [name_code(n) for n in case["names"]]:
                ctx.violation("metadata", f"get_metadata: coordinates/band names {impl_md} for a {rows}x{cols} raster "
                                          f"with bands {case['names']}", {"case": case})
    finally:
        shutil.rmtree(tmp, ignore_errors=True)
    ctx.gen_obligations = [
        "the window theorems of Props/C16.v are proved on Gen.Window.get_window itself (regenerated from "
        "img_tools.get_window at every run; lia after case analysis, all Z)",
        "C16_gen_add_disparity_eq: Gen.DatasetFns.add_disparity (regenerated) = the record update the model describes, all inputs",
        "C16_gen_add_classif_segm_eq: Gen.DatasetFns.add_classif / add_segm (regenerated) = the windowed reads the model describes",
        "C16_gen_add_no_data_eq: Gen.DatasetFns.add_no_data (regenerated) = Model.Dataset add_no_data_im / add_no_data_attr",
        "C16_gen_add_mask_eq: Gen.DatasetFns.add_mask (regenerated) = Model.Dataset.add_mask (three-way classification, early return)",
        "C16_gen_create_eq: Gen.DatasetFns.create_dataset_from_inputs (regenerated; get_window, which window goes to which read, "
        "the nodata test, the order of the add_* calls) = Gen.Window.get_window then Model.Dataset.create_dataset, all inputs",
        "C16_gen_read_dtypes: the out_dtype of the six raster reads as regenerated (reflexivity)",
    ]


def random_roi(rng, rows, cols):
    a, b = rng.randrange(-3, cols + 3), rng.randrange(-3, cols + 3)
    c, d = rng.randrange(-3, rows + 3), rng.randrange(-3, rows + 3)
    if rng.random() < 0.85:
        a, b = min(a, b), max(a, b)
        c, d = min(c, d), max(c, d)
    return (a, b, c, d, tuple(rng.choice([0, 1, 3]) for _ in range(4)))


def summarize(outcome):
    """short printable form of an outcome for mismatch records"""
    if outcome[0] != "ok":
        return outcome
    d = outcome[1]
    return {"im": d[0], "band_im": d[1], "row": d[2], "col": d[3], "no_data_img": str(d[4]), "msk": d[5],
            "disparity": d[6], "classif": d[7], "segm": d[8]}
