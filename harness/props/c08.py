"""C08 -- right-image products equal the left products of the mirrored problem.

T-gen : Gen/Callbacks.v (call structure of the 11 run callbacks) regenerated from /repo;
        obligations callbacks_ok / callbacks_lclosed / callbacks_rquiet re-proved by vm_compute.
T-corr: (a) write-set audit: during real runs every slot (machine attribute) is hashed before and
        after each callback; the slots that changed must be within the write-set the model predicts
        (generated calls + hand-written `mutated` table);
        (b) impl-vs-impl metamorphic runs = failing-input search for the property itself: random legal
        pipelines with validation on (L, R, [min,max]) and on (R, L, [-max,-min]); products compared
        bit for bit; without validation the right dataset must be empty; a cross-checking step without
        filling must leave the left disparity map unchanged;
        (c) whole-pipeline stream (harness/props/c08_pipeline.py): the composed model Model/PipelineRun.v (extracted by
        Extract/X21.v) against whole real runs, state after every step, plus the mirrored real run step by step."""
import hashlib

import numpy as np

from harness import core
from harness import pandora_util as pu
from harness.props import c08_pipeline

# gen_flags / gen_refine_consts / gen_constants: the constants of the tree under test used by the composed
# pipeline model (Extract/X21.v)
# gen_scale_arith: Gen/ScaleArith.v = run_prepare translated from the ast (interval arithmetic of both branches, origin of
# the images / pyramids / output datasets); obligations in Proofs/ScaleArithGenP.v, theorems C08_gen_*
GEN = ["gen_callbacks", "gen_flags", "gen_refine_consts", "gen_constants", "gen_scale_arith"]
EXTRACT_FILES = ["X08", "X21"]
DRIVERS = ["x08", "x21"]
RULE = ("random legal pipelines (sad/ssd/census/zncc, cbca, confidence steps, wta, median/bilateral, vfit/quadratic, "
        "cross-checking with/without mc-cnn/sgm filling, 2-scale multiscale) on random 10-14 x 14-20 image pairs with "
        "masks on both sides; each case = one run + its mirrored run (+ the run without validation); non-trivial = the "
        "left and right disparity maps differ and both contain valid pixels; distinct by (pipeline, images seed); "
        + c08_pipeline.RULE_PIPELINE)
ASSUMES = [
    "the step functions are arbitrary in the theorem; their determinism on the real kernels is what the metamorphic "
    "runs sample",
    "hypotheses of the theorem about cross-checking (returns the checked dataset, reads the other one only through "
    "its disparity map, keeps the disparity map) are properties of C07's model; interpolation is unary (C14)",
    "step objects are built from the configuration and from image properties equal for both images (shape)",
    "semantic_segmentation (plugin step, no built-in method) is outside the theorem: its right call reads the left "
    "image already updated by the left call",
    "in-place mutation of arguments is given by the hand-written table `mutated` (Model/Mirror.v), audited on every run",
    "C08_pipeline_* theorems: about the composed model Model/PipelineRun.v (existing step models of C02/C04/C03/C10/C06/C07/"
    "C14 glued as the run callbacks glue the steps): sad/ssd/census, wta, median filter, vfit/quadratic, "
    "cross_checking_accurate with/without mc-cnn/sgm; single scale, scalar interval, images without band dimension; NOT "
    "in the composed model: cbca (real-valued means make the arg-min rounding-sensitive), zncc, bilateral, confidence "
    "steps, multiscale, disparity grids, plugins -- for those only the abstract theorem and the impl-vs-impl runs apply",
    "the composed model is tied to the real pandora.run by the pipeline stream (state after every step); a pixel on which "
    "the refinement kernel is undefined in the model (int(NaN), read outside the axis) ends the comparison of that case "
    "(counted: pipeline_refinement_undefined_in_model); after a refinement step values are compared with the bridging "
    "tolerance and a cross-check within 1e-4 of a rounding tie on the real maps ends the comparison (counted)",
    "the cost volume is modelled as unchanged by the disparity step (C03_restore_after_subst) and interpolated_coeff / "
    "disp_indices / attrs other than offset, subpixel and the interval are not part of the composed state",
]
TRUSTED = ["Gen/Callbacks.v produced by translator/gen_callbacks.py (ast of the run callbacks)",
           "hand-written run_prepare slot model (prepare_single/prepare_multi in Proofs/MirrorP.v; init_state in "
           "Model/PipelineRun.v, exercised with and without a right interval in the input)",
           "Gen/Flags.v, Gen/RefineConsts.v, Gen/Constants.v (constants given to the extracted composed model, X21)",
           "the step models reused by Model/PipelineRun.v are tied to the code by their own checks (C02, C03, C04, C06, "
           "C07, C10, C14) and, composed, by the pipeline stream of this check"]

SLOT_ATTR = ["left_img", "right_img", "left_cv", "right_cv", "left_disparity", "right_disparity",
             "disp_min", "disp_max", "right_disp_min", "right_disp_max",
             "dmin_user", "dmax_user", "dmin_user_right", "dmax_user_right", "img_left_pyramid", "img_right_pyramid"]
CB_CODE = {"matching_cost_prepare": 0, "matching_cost_run": 1, "aggregation_run": 2, "semantic_segmentation_run": 3,
           "optimization_run": 4, "disparity_run": 5, "filter_run": 6, "refinement_run": 7, "validation_run": 8,
           "run_multiscale": 9, "cost_volume_confidence_run": 10}


def digest(obj):
    """content hash of a slot value (datasets: every variable, coordinate and attribute)"""
    h = hashlib.sha1()

    def feed(o):
        import xarray as xr
        if o is None:
            h.update(b"N")
        elif isinstance(o, xr.Dataset):
            h.update(b"DS")
            for name in sorted(map(str, o.variables)):
                v = o.variables[name]
                h.update(name.encode())
                h.update(str(v.dtype).encode() + str(v.shape).encode() + str(v.dims).encode())
                a = np.asarray(v.values)
                h.update(a.tobytes() if a.dtype != object else repr(a.tolist()).encode())
            h.update(repr(sorted((str(k), repr(v)) for k, v in o.attrs.items())).encode())
        elif isinstance(o, xr.DataArray):
            feed(o.to_dataset(name="__da__"))
        elif isinstance(o, np.ndarray):
            h.update(str(o.dtype).encode() + str(o.shape).encode() + o.tobytes())
        elif isinstance(o, (list, tuple)):
            h.update(b"L%d" % len(o))
            for x in o:
                feed(x)
        else:
            h.update(repr(o).encode())

    feed(obj)
    return h.hexdigest()


def audit_machine(writes_by_cb, log):
    """PandoraMachine whose run callbacks are wrapped: slots hashed before/after each callback"""
    from pandora.state_machine import PandoraMachine

    m = PandoraMachine()
    for cb, code in CB_CODE.items():
        orig = getattr(m, cb)

        def wrapper(cfg, input_step, _orig=orig, _m=m, _cb=cb):
            before = [digest(getattr(_m, a)) for a in SLOT_ATTR]
            rdm = _m.right_disp_map == "cross_checking_accurate"
            out = _orig(cfg, input_step)
            after = [digest(getattr(_m, a)) for a in SLOT_ATTR]
            changed = [i for i in range(len(SLOT_ATTR)) if before[i] != after[i]]
            allowed = writes_by_cb[CB_CODE[_cb]][0 if rdm else 1]
            log.append((_cb, input_step, rdm, changed, [i for i in changed if i not in allowed]))
            return out

        setattr(m, cb, wrapper)
    return m


def gen_pipeline(rng, with_validation=True):
    meas = rng.choice(["sad", "ssd", "census", "zncc"])
    win = rng.choice([3, 5]) if meas == "census" else rng.choice([1, 3, 5])
    p = [("matching_cost", {"matching_cost_method": meas, "window_size": win, "subpix": rng.choice([1, 1, 2])})]
    for _ in range(rng.randrange(0, 3)):
        k = rng.choice(["aggregation", "cost_volume_confidence", "cost_volume_confidence"])
        if k == "aggregation":
            p.append((k, {"aggregation_method": "cbca", "cbca_intensity": float(rng.choice([5, 20])),
                          "cbca_distance": rng.choice([2, 4])}))
        else:
            p.append((k, {"confidence_method": rng.choice(["ambiguity", "std_intensity", "risk", "interval_bounds"])}))
    p.append(("disparity", {"disparity_method": "wta", "invalid_disparity": rng.choice([-9999, "NaN"])}))
    if rng.random() < 0.3:
        p.append(("refinement", {"refinement_method": "quadratic"}))
    for _ in range(rng.randrange(0, 3)):
        k = rng.choice(["filter", "refinement", "filter"])
        if k == "filter":
            p.append((k, rng.choice([{"filter_method": "median", "filter_size": 3},
                                     {"filter_method": "bilateral", "sigma_color": 2.0, "sigma_space": 1.0}])))
        else:
            p.append((k, {"refinement_method": "vfit"}))
    interp = None
    if with_validation:
        v = {"validation_method": "cross_checking_accurate", "cross_checking_threshold": rng.choice([0.0, 1.0, 1.5])}
        r = rng.random()
        if r < 0.3:
            interp = v["interpolated_disparity"] = "mc-cnn"
        elif r < 0.6:
            interp = v["interpolated_disparity"] = "sgm"
        at = len(p)
        if rng.random() < 0.3:
            p.append(("filter", {"filter_method": "median", "filter_size": 3}))
        p.insert(at, ("validation", v))
    if rng.random() < 0.2:
        p.append(("multiscale", {"multiscale_method": "fixed_zoom_pyramid", "num_scales": 2, "scale_factor": 2,
                                 "marge": rng.choice([0, 1])}))
    names, used = [], set()
    for i, (k, c) in enumerate(p):
        n = k if k not in used and rng.random() < 0.6 else f"{k}.{i}"
        used.add(n)
        names.append((n, k, c))
    return names, interp


def gen_images(rng, multiscale):
    rows, cols = (rng.randrange(20, 26), rng.randrange(24, 32)) if multiscale else (rng.randrange(10, 15), rng.randrange(14, 21))
    base = np.array([[rng.randrange(0, 200) for _ in range(cols + 6)] for _ in range(rows)], dtype=np.float32)
    shift = rng.choice([-2, -1, 0, 1, 2])
    left = base[:, 3:cols + 3].copy()
    right = base[:, 3 + shift:cols + 3 + shift].copy() + np.array(
        [[rng.choice([0, 0, 0, 1, 3]) for _ in range(cols)] for _ in range(rows)], dtype=np.float32)
    ml = mr = None
    if rng.random() < 0.6:
        ml = np.array([[rng.choice([0] * 12 + [1, 2]) for _ in range(cols)] for _ in range(rows)], dtype=np.int16)
    if rng.random() < 0.6:
        mr = np.array([[rng.choice([0] * 12 + [1, 2]) for _ in range(cols)] for _ in range(rows)], dtype=np.int16)
    dmin = rng.randrange(-3, 1)
    dmax = dmin + rng.randrange(1, 5)
    return left, right, ml, mr, (dmin, dmax)


def products(ds):
    """canonical, bit-exact content of a product dataset"""
    import xarray as xr
    if not isinstance(ds, xr.Dataset) or len(ds.data_vars) == 0:
        return None
    out = {}
    for name in ("disparity_map", "validity_mask", "confidence_measure", "interpolated_coeff"):
        if name in ds:
            a = np.asarray(ds[name].values)
            out[name] = (str(a.dtype), a.shape, a.tobytes())
    if "indicator" in ds.coords:
        out["indicator"] = [str(x) for x in ds.coords["indicator"].values]
    return out


def diff_products(a, b):
    if a is None or b is None:
        return None if a is b else "one side is empty"
    for k in sorted(set(a) | set(b)):
        if a.get(k) != b.get(k):
            return k
    return None


def run(ctx):
    # extra stream: the composed whole-pipeline model against whole real runs (harness/props/c08_pipeline.py)
    if ctx.replay_case is not None and ctx.replay_case.get("stream") == "pipeline":
        c08_pipeline.run_stream(ctx, 1)
        return
    run_wiring(ctx)
    if ctx.replay_case is None:
        c08_pipeline.run_stream(ctx, 200 if ctx.tier == "quick" else 3000)


def run_wiring(ctx):
    import pandora

    rng = ctx.rng
    model = core.Model("x08")
    wr = model.batch([(1, c) for c in range(11)])
    writes_by_cb = {c: (set(w[0]), set(w[1])) for c, w in enumerate(wr)}
    ctx.stats["model_write_sets"] = {cb: sorted(SLOT_ATTR[i] for i in writes_by_cb[code][0]) for cb, code in CB_CODE.items()}
    n = 30 if ctx.tier == "quick" else 300
    cases = []
    if ctx.replay_case is not None:
        cases = [ctx.replay_case]
    else:
        for i in range(n):
            names, interp = gen_pipeline(rng)
            ms = any(k == "multiscale" for _, k, _ in names)
            left, right, ml, mr, itv = gen_images(rng, ms)
            cases.append({"pipeline": [list(x) for x in names], "left": left.tolist(), "right": right.tolist(),
                          "mask_left": None if ml is None else ml.tolist(), "mask_right": None if mr is None else mr.tolist(),
                          "interval": list(itv)})
    for case in cases:
        names = [tuple(x) for x in case["pipeline"]]
        cfg = {"pipeline": {n_: dict(c) for n_, _, c in names}}
        itv = tuple(case["interval"])
        L = pu.image_dataset(np.array(case["left"], dtype=np.float32), disp=itv, mask=case["mask_left"])
        R = pu.image_dataset(np.array(case["right"], dtype=np.float32), disp=None, mask=case["mask_right"])
        L2 = pu.image_dataset(np.array(case["right"], dtype=np.float32), disp=(-itv[1], -itv[0]), mask=case["mask_right"])
        R2 = pu.image_dataset(np.array(case["left"], dtype=np.float32), disp=None, mask=case["mask_left"])
        log = []
        try:
            m1 = audit_machine(writes_by_cb, log)
            l1, r1 = pandora.run(m1, L, R, pu.deep_copy_cfg(cfg))
            m2 = audit_machine(writes_by_cb, log)
            l2, r2 = pandora.run(m2, L2, R2, pu.deep_copy_cfg(cfg))
        except Exception as exc:  # pylint: disable=broad-except
            ctx.count("run_raised_" + pu.exc_class(exc))
            ctx.case(None)
            ctx.notes.append(f"run raised {type(exc).__name__}: {str(exc)[:120]} on {[n_ for n_, _, _ in names]}")
            continue
        ctx.traces += 2
        for cb, step, rdm, changed, bad in log:
            ctx.count("callbacks_audited")
            if bad:
                ctx.mismatch("write_set", {"callback": cb, "step": step, "rdm": rdm, "pipeline": case["pipeline"]},
                             [SLOT_ATTR[i] for i in changed],
                             sorted(SLOT_ATTR[i] for i in writes_by_cb[CB_CODE[cb]][0 if rdm else 1]))
        p_l1, p_r1, p_l2, p_r2 = products(l1), products(r1), products(l2), products(r2)
        d1 = diff_products(p_r1, p_l2)
        d2 = diff_products(p_l1, p_r2)
        dl = np.asarray(l1["disparity_map"].values)
        dr = np.asarray(r1["disparity_map"].values)
        vl = (np.asarray(l1["validity_mask"].values) & 0b11000011) == 0
        nontrivial = bool(vl.any()) and p_l1 is not None and p_r1 is not None and p_l1["disparity_map"] != p_r1["disparity_map"]
        ctx.case((tuple(n_ for n_, _, _ in names), hashlib.sha1(repr(case["left"]).encode()).hexdigest()[:12])
                 if nontrivial else None)
        for _, k, c in names:
            ctx.count("kind_" + k)
        ctx.sample({"steps": [n_ for n_, _, _ in names], "shape": list(dl.shape), "interval": list(itv),
                    "valid_left_pixels": int(vl.sum())}, limit=5)
        if d1 or d2:
            ctx.violation("mirror_differs",
                          f"pipeline {[n_ for n_, _, _ in names]}: right products differ from the left products of the "
                          f"mirrored run (first differing variable: {d1}) / left vs mirrored right: {d2}", case)
        # without validation: right dataset empty, and (no filling) same left disparity map
        val = [(n_, c) for n_, k, c in names if k == "validation"]
        cfg_nov = {"pipeline": {n_: dict(c) for n_, k, c in names if k != "validation"}}
        try:
            from pandora.state_machine import PandoraMachine
            l3, r3 = pandora.run(PandoraMachine(), L, R, cfg_nov)
        except Exception as exc:  # pylint: disable=broad-except
            ctx.count("run_nov_raised_" + pu.exc_class(exc))
            continue
        ctx.traces += 1
        import xarray as _xr
        if not isinstance(r3, _xr.Dataset):
            ctx.violation("right_not_empty", f"pipeline without validation returned {type(r3).__name__} instead of an empty "
                          f"right dataset (steps {[n_ for n_, k, _ in names if k != 'validation']})", case)
            continue
        if len(r3.data_vars) != 0:
            ctx.violation("right_not_empty", f"pipeline without validation returned right variables {list(r3.data_vars)}", case)
        only_last_nofill = val and "interpolated_disparity" not in val[0][1] and names[-1][1] == "validation"
        if only_last_nofill:
            ctx.count("xcheck_without_filling_cases")
            a = np.asarray(l1["disparity_map"].values)
            b = np.asarray(l3["disparity_map"].values)
            if a.tobytes() != b.tobytes():
                ctx.violation("xcheck_changes_left_disp",
                              "adding a cross-checking step without filling changed the left disparity map", case)
    ctx.gen_obligations = ["callbacks_ok Gen.Callbacks.gen_callback = true (vm_compute)",
                           "callbacks_lclosed Gen.Callbacks.gen_callback = true (vm_compute)",
                           "callbacks_rquiet Gen.Callbacks.gen_callback = true (vm_compute)",
                           "Gen.ScaleArith.run_prepare_mono = model_prepare_mono: interval as given, right interval as given or "
                           "(-max, -min) (C08_gen_prepare_mono_is_model)",
                           "Gen.ScaleArith.run_prepare_{multi,mono}_wiring = the hand-written tables and are symmetric under the "
                           "exchange of left and right (C08_gen_prepare_wiring, vm_compute)",
                           "prepare_single / prepare_multi of Proofs/MirrorP.v (initial states of the mirror theorems), instantiated "
                           "with unary minus and / scale_factor ** num_scales on rationals, = the state the generated run_prepare "
                           "builds, slot by slot (C08_gen_prepare_single_is_model, C08_gen_prepare_multi_is_model: reflexivity on "
                           "the regenerated text); neg_invol / dv_neg hold for that arithmetic (C08_gen_interval_hypotheses)"]
