"""C12 -- confidence bands follow their definitions, bracket the winner, only add bands.

T-gen : translator/gen_conf_kernels.py regenerates coq/Gen/ConfKernels.v from the Python text of the numba kernels
        compute_ambiguity, compute_ambiguity_and_sampled_ambiguity (ambiguity.py), compute_risk (risk.py) and
        compute_interval_bounds (interval_bounds.py) -- prelude, pixel body of the prange nest, return -- and of
        Ambiguity.normalize_with_percentile, statement by statement into the numpy semantics of coq/Lib/NpVec.v, fail closed (and checks the call sites in the three
        confidence_prediction methods: orientation of the volume for max measures, sampled ambiguity handed to
        compute_risk, type_factor); Proofs/ConfGenP.v re-proves at every run that the generated kernels equal
        Model/Confidence.v on every pixel curve and on every volume (degenerate ones included), and Props/C12.v
        restates the headline theorems on the generated definitions (C12_gen_*).
T-corr: the extracted model (Model/Confidence.v: ambiguity, percentile normalisation, risk, interval
        bounds, regularisation, std band (variance, NaN border), band bookkeeping, indicator naming, WTA; and
        Model/ConfPipeline.v: the stacked confidence steps followed by the wta disparity step on the whole state) against the
        real code, driven through PandoraMachine.cost_volume_confidence_run (which sets the indicator
        suffix and calls AbstractCostVolumeConfidence(**cfg).confidence_prediction) on hand-built cost
        volume datasets of the exact domain (cost span a power of two), several steps stacked.
Spec  : independent Python oracle of the property sentence applied to the REAL outputs (count formula
        with the pixel's best cost, finite [0,1] when normalised, 0 <= risk_min <= risk_max, bounds
        definition, inf <= WTA <= sup on valid pixels, bands only appended, cost volume / mask untouched),
        plus impl-vs-impl runs of whole pipelines with and without their confidence steps."""
import copy
import json
import os
from fractions import Fraction as F

import numpy as np
import xarray as xr

from harness import core
from harness import pandora_util as pu

GEN = ["gen_conf_kernels"]
EXTRACT_FILES = ["X12"]
DRIVERS = ["x12"]
RULE = ("kernel stream: cost volumes 3..6 x 3..8 x 2..7 (plus 1..2-pixel volumes), dyadic costs with span a power "
        "of two, NaN holes, all-NaN pixels, ties, min and max measures, integer or sub-pixel disparity axis, "
        "eta_max/eta_step in {0.7/0.01, 0.5/0.125, 0.3/0.1}, thresholds {0.5, 0.9, 1.0}, 1-5 stacked confidence "
        "steps (ambiguity normalised or not, risk, interval_bounds with/without regularisation, std_intensity) in "
        "random order with random suffixes on cv/disp datasets with or without earlier bands, left image with NaN "
        "pixels in 20% of the cases; a case is "
        "non-trivial when the volume has >= 2 distinct finite costs and >= 1 step ran; distinct by (volume, "
        "measure, steps). pipeline stream: random accepted pipelines on small image pairs (sad/census/zncc) run "
        "with and without their confidence steps")
ASSUMES = [
    "real-valued arithmetic is modelled in Q: the theorems are about exact rationals; float rounding is bounded "
    "by the bridging tolerance on values (core.close) and excluded from decisions by the generators (costs of the "
    "exact domain, eta/threshold margins 0 or > 1e-9, checked per case), not proved",
    "the eta samples np.arange(eta_min, eta_max, eta_step) (float64 values of the float32 parameters, as numba "
    "computes them), the float32 possibility threshold, the percentile 1.0 and the quantile are data given to the "
    "model as exact rationals of the float values; the number of eta samples is cross-checked against the sampled "
    "ambiguity returned by the real kernel",
    "np.argsort in compute_interval_bounds is modelled by its contract (a permutation: min/max index of the "
    "selected set; in the generated kernel it is a parameter and the theorems hold for every function returning the "
    "indices of its argument); numba's nanquantile / numpy's percentile by linear interpolation between order "
    "statistics",
    "T-gen: the meaning of each numpy / numba operation of the kernels (coq/Lib/NpVec.v: IEEE specials, x/0 = NaN or "
    "+-inf as the compiled parallel kernels give, NaN-skipping nanmin/nanmax/nanmean, repeat / reshape / T / flatten / "
    "boolean-mask assignment and indexing, negative index wrap-around, partial operations fail) is hand-written and "
    "validated only through the correspondence of the model it is proved equal to; x/0 follows the default build "
    "(PANDORA_NUMBA_PARALLEL unset or True: NaN / +-inf; with PANDORA_NUMBA_PARALLEL=False the compiled kernels raise "
    "ZeroDivisionError on a volume whose finite costs are all equal -- outside the property's domain); float32 storage of the result "
    "arrays and float rounding are outside it (bridging rule b); np.percentile is a parameter of the generated "
    "normalize_with_percentile (contract: linear interpolation); interval_regularization, std_intensity and "
    "allocate_confidence_map are NOT translated (hand-written model, correspondence only)",
    "std_intensity: the model band holds the window variance (the square root is not rational); band^2 is "
    "compared with it (NaN pattern exactly); the float 10**-15 of the tiny-variance zeroing is data",
    "transparency: proved for abstract steps (C12_confidence_steps_transparent) and instantiated "
    "(C12_confidence_transparent_builtin) for the whole-state model of Model/ConfPipeline.v: the four confidence "
    "methods, wta disparity (Model/Wta.v), cbca aggregation (Model/Cbca.v), refinement (Model/Refine.v). The "
    "confidence-steps-then-wta part of that model is compared with the real datasets on every kernel case (fid 12: "
    "disparity map, mask, names and values of all bands of both datasets); the glue around the cbca and refinement "
    "kernels (conversion of array representations) is NOT exercised by a correspondence; filter, validation, "
    "optimization, multiscale, semantic segmentation and the matching cost have no instance: for them, and for "
    "everything on the real code, transparency is checked by impl-vs-impl pipeline runs, not proved",
    "std_intensity on an image with NaN pixels: the model follows np.nancumsum (NaN counts as 0, in the image and in "
    "its square); the oracle of the property is applied only to windows without a NaN pixel",
]
TRUSTED = ["translator/gen_conf_kernels.py (Python ast -> Gallina over Lib/NpVec.v, fail closed) and Lib/NpVec.v",
           "numpy/xarray primitives used by allocate_confidence_map (np.append, drop_dims, DataArray construction) "
           "are observed through the datasets they produce"]

GEN_OBLIGATIONS = [
    "C12_gen_amb_pixel_eq: forall mn <> mx, etas, curve: the generated pixel body of compute_ambiguity (called with the "
    "prelude values min_cost = mn, max_cost = mx, nb_disps = len(curve), two_dim_etas = etas tiled) succeeds (no shape "
    "mismatch / index error in any numpy operation) and returns Model.Confidence.amb_pixel (Proofs/ConfGenP.v "
    "gen_amb_pixel_eq, re-proved against the regenerated text of Ambiguity.compute_ambiguity)",
    "C12_gen_samp_pixel_eq: same for compute_ambiguity_and_sampled_ambiguity: (amb_pixel, per eta the number of costs "
    "within eta of the pixel's best / nb_disps for an all-NaN curve)",
    "C12_gen_risk_pixel_eq: the generated pixel body of compute_risk, fed with the sampled ambiguity of the generated "
    "compute_ambiguity_and_sampled_ambiguity (call site of Risk.confidence_prediction checked by the translator), "
    "succeeds and returns Model.Confidence.risk_pixel (both components, NaN matched exactly)",
    "C12_gen_bounds_pixel_eq: the generated pixel body of compute_interval_bounds = Model.Confidence.bounds_pixel for "
    "every np.argsort that returns the indices of its argument (any permutation), every threshold / type_factor / "
    "disparity axis of the curve's length",
    "C12_gen_two_dim_etas: the generated prelude expression np.repeat(etas, nb_disps).reshape((-1, nb_disps)).T.flatten() "
    "succeeds for nb_disps >= 1 and is the eta samples tiled nb_disps times",
    "C12_gen_amb_kernel_eq / C12_gen_risk_kernel_eq / C12_gen_bounds_kernel_eq: the whole generated kernels (prelude "
    "np.nanmin / np.nanmax of the volume, cv.shape, two_dim_etas, initial value of the result arrays, the pixel body at "
    "every (row, col)) = amb_map / risk_map / bounds_map of the model for EVERY volume with >= 1 pixel and >= 1 disparity: "
    "two distinct finite costs (the property's domain) or degenerate (no finite cost / all finite costs equal: the kernels' "
    "0/0 = NaN branch, maximum ambiguity, NaN risk and bounds)",
    "C12_gen_ambiguity_def, C12_gen_risk_order, C12_gen_risk_finite, C12_gen_bounds_bracket_wta: the headline theorems "
    "restated on the generated kernels; C12_gen_argsort_contract_satisfiable; Example C12_example_gen (vm_compute of "
    "the generated kernels on a curve with a NaN hole and a tie)",
    "C12_gen_normalize_eq / C12_gen_normalised_in_01: the generated Ambiguity.normalize_with_percentile (np.copy, two "
    "np.percentile, np.clip(out=), np.min, np.max, zero-range guard, rescaling) = Model.Confidence.normalize_percentile "
    "with the guard, for every non-empty ambiguity map and every np.percentile that interpolates linearly between the "
    "order statistics (C12_gen_percentile_contract_satisfiable); every value finite in [0, 1]",
    "translator gen_conf_kernels: decorator njit(signature, parallel=literal_eval(os.environ.get(...)), cache=True) and "
    "numba signature of the four kernels, loop headers prange(n_row) / prange(n_col), stores only at [row, col], "
    "in-place writes only into fresh local arrays, call sites of the three confidence_prediction methods "
    "(cost_volume = -cost_volume for max measures; normalisation only when self._normalization, then ambiguity = 1 - "
    "ambiguity, then allocate_confidence_map; self._percentile = self._PERCENTILE; type_factor -1.0 / 1.0; cv['disp'] as "
    "disparity axis)",
]

ETAS = [(0.7, 0.01), (0.5, 0.125), (0.3, 0.1)]
THRESHOLDS = [0.5, 0.9, 1.0]
METHOD_CODE = {"ambiguity": 0, "risk": 1, "interval_bounds": 2, "std_intensity": 3}
NB_BANDS = {"ambiguity": 1, "risk": 2, "interval_bounds": 2, "std_intensity": 1}
GUARDED = 1  # the tree under test carries the zero-range guard of normalize_with_percentile (repaired D12)


# ------------------------------------------------------------------ known findings proposed by this check
def _merge_proposed_known():
    """known_findings.a7.json holds the entries this check proposes for known_findings.json (shared file,
    not edited here); they are honoured the same way."""
    p = os.path.join(core.VERIF, "known_findings.a7.json")
    if not os.path.exists(p) or getattr(core, "_c12_known_merged", False):
        return
    orig = core.load_known

    def load():
        out = list(orig())
        try:
            out += [k for k in json.load(open(p)).get("findings", []) if k not in out]
        except (OSError, ValueError):
            pass
        return out

    core.load_known = load
    core._c12_known_merged = True


# ------------------------------------------------------------------ generation
def gen_volume(rng, tiny=False):
    if tiny:
        nr, nc, nd = 1, rng.choice([1, 2]), rng.randrange(2, 5)
    else:
        nr, nc, nd = rng.randrange(3, 7), rng.randrange(3, 9), rng.randrange(2, 8)
    k = rng.randrange(1, 6)                      # span 2^k units
    unit = rng.choice([1, 1, 1, 0.5, 0.25, 2])   # dyadic unit: the span stays a power of two
    base = rng.randrange(-8, 9)
    span = 2 ** k
    levels = rng.choice([span + 1, min(span + 1, 3), min(span + 1, 5)])  # few levels -> many ties
    vals = sorted(set([0, span] + [rng.randrange(0, span + 1) for _ in range(levels)]))
    p_nan = rng.choice([0.0, 0.1, 0.3])
    vol = [[[None if rng.random() < p_nan else rng.choice(vals) for _ in range(nd)] for _ in range(nc)]
           for _ in range(nr)]
    if not tiny and rng.random() < 0.4:          # an all-NaN pixel (invalid pixel)
        vol[rng.randrange(nr)][rng.randrange(nc)] = [None] * nd
    if rng.random() < 0.3:                       # a constant curve
        r, c = rng.randrange(nr), rng.randrange(nc)
        vol[r][c] = [rng.choice(vals)] * nd
    # make sure the extreme values are present (span exact)
    cells = [(r, c, d) for r in range(nr) for c in range(nc) for d in range(nd)]
    (r0, c0, d0), (r1, c1, d1) = rng.sample(cells, 2)
    vol[r0][c0][d0] = 0
    vol[r1][c1][d1] = span
    vol = [[[None if x is None else (base + x) * unit for x in cur] for cur in row] for row in vol]
    step = rng.choice([1, 1, 1, 0.5, 0.25])
    d0 = rng.randrange(-3, 3)
    disps = [d0 + i * step for i in range(nd)]
    return {"vol": vol, "disps": disps, "type_measure": rng.choice(["min", "max"])}


def gen_steps(rng, nr, nc):
    n = rng.choice([1, 2, 2, 3, 3, 4, 5])
    steps, used = [], set()
    amb_suffixes = []          # (suffix, normalised) of unique ambiguity bands available for regularisation
    for i in range(n):
        r = rng.random()
        if r < 0.3:
            nm = "cost_volume_confidence"
        elif r < 0.8:
            nm = "cost_volume_confidence." + rng.choice(["a", "b", "amb", "2", "x_1", "std", "risk", ""])
        else:
            nm = "cost_volume_confidence." + rng.choice(["a", "b"]) + "." + rng.choice(["c", ""])
        while nm in used:
            nm += ("" if "." in nm else ".") + str(i)
        used.add(nm)
        parts = nm.split(".")
        suffix = parts[1] if len(parts) == 2 else None
        m = rng.choice(["ambiguity", "ambiguity", "risk", "interval_bounds", "interval_bounds", "std_intensity"])
        cfg = {"confidence_method": m}
        if m in ("ambiguity", "risk"):
            if rng.random() < 0.85:
                cfg["eta_max"], cfg["eta_step"] = rng.choice(ETAS)
            if m == "ambiguity" and rng.random() < 0.5:
                cfg["normalization"] = rng.random() < 0.5
        if m == "interval_bounds":
            if rng.random() < 0.85:
                cfg["possibility_threshold"] = rng.choice(THRESHOLDS)
            cands = [s for s in amb_suffixes if amb_suffixes.count(s) == 1]
            if cands and rng.random() < 0.6:
                s = rng.choice(cands)
                cfg["regularization"] = True
                cfg["ambiguity_indicator"] = s
                cfg["ambiguity_threshold"] = rng.choice([0.6, 0.5, 0.25, 0.9, 1.0, 0.0])
                cfg["ambiguity_kernel_size"] = rng.choice([1, 3, 5])
                cfg["vertical_depth"] = rng.choice([0, 1, 2, 3])
                cfg["quantile_regularization"] = rng.choice([1.0, 1.0, 0.9, 0.5, 0.0])
        if m == "ambiguity" and suffix != "":
            # ambiguity_indicator "" addresses the un-suffixed band, "s" the band "...ambiguity.s"
            amb_suffixes.append(suffix if suffix is not None else "")
        steps.append({"name": nm, "cfg": cfg})
    return steps


def gen_case(rng, tiny=False):
    c = gen_volume(rng, tiny)
    nr, nc = len(c["vol"]), len(c["vol"][0])
    c["steps"] = gen_steps(rng, nr, nc)
    if tiny:
        c["steps"] = [s for s in c["steps"] if s["cfg"]["confidence_method"] != "std_intensity"
                      and not s["cfg"].get("regularization")] or [{"name": "cost_volume_confidence",
                                                                  "cfg": {"confidence_method": "ambiguity"}}]
    c["window"] = 1 if tiny else rng.choice([w for w in (1, 3, 5) if w <= min(nr, nc)])
    c["img"] = [[rng.randrange(0, 256) for _ in range(nc)] for _ in range(nr)]
    if not tiny and rng.random() < 0.2:            # NaN pixels in the left image (np.nancumsum counts them as 0)
        for _ in range(rng.choice([1, 1, 2])):
            c["img"][rng.randrange(nr)][rng.randrange(nc)] = None
    # earlier bands: cv without / with bands; disp None (as the state machine calls it) / without / with bands
    c["cv_bands"] = rng.choice([0, 0, 0, 1, 2])
    c["disp"] = rng.choice(["none", "none", "none", "nobands", "bands"])
    c["seed_bands"] = rng.randrange(1 << 30)
    return c


def arr_of(vol):
    return np.array([[[np.nan if x is None else x for x in cur] for cur in row] for row in vol], dtype=np.float32)


def make_datasets(case):
    a = arr_of(case["vol"])
    nr, nc, nd = a.shape
    r = np.random.RandomState(case["seed_bands"])
    cv = xr.Dataset({"cost_volume": (["row", "col", "disp"], a.copy())},
                    coords={"row": np.arange(nr), "col": np.arange(nc), "disp": np.array(case["disps"])})
    vm = np.zeros((nr, nc), dtype=np.uint16)
    vm[np.all(np.isnan(a), axis=2)] = 1
    cv["validity_mask"] = xr.DataArray(vm, dims=["row", "col"])
    cv.attrs = {"type_measure": case["type_measure"], "window_size": case["window"], "band_correl": None,
                "subpixel": 1, "offset_row_col": (case["window"] - 1) // 2, "measure": "sad", "cmax": 1000,
                "crs": None, "transform": None}

    def bands(n, tag):
        names = [f"confidence_from_old_{tag}{j}" for j in range(n)]
        data = r.randint(-4, 5, size=(nr, nc, n)).astype(np.float32) / 4
        data[r.rand(nr, nc, n) < 0.1] = np.nan
        return xr.DataArray(data, coords=[np.arange(nr), np.arange(nc), names], dims=["row", "col", "indicator"])

    if case["cv_bands"]:
        cv["confidence_measure"] = bands(case["cv_bands"], "cv")
    disp = None
    if case["disp"] != "none":
        disp = xr.Dataset({"disparity_map": (["row", "col"], np.zeros((nr, nc), dtype=np.float32)),
                           "validity_mask": (["row", "col"], vm.copy())},
                          coords={"row": np.arange(nr), "col": np.arange(nc)})
        if case["disp"] == "bands":
            disp["confidence_measure"] = bands(2, "disp")
    img = pu.image_dataset(np.array([[np.nan if x is None else x for x in row] for row in case["img"]],
                                    dtype=np.float32), disp=(int(np.floor(case["disps"][0])),
                                                                          int(np.ceil(case["disps"][-1]))))
    return cv, disp, img


def names_of(ds):
    if ds is None:
        return None
    if "confidence_measure" not in ds.data_vars:
        return []
    return [str(x) for x in ds.coords["indicator"].data]


def same(a, b):
    return a.shape == b.shape and a.dtype == b.dtype and np.array_equal(a, b, equal_nan=True)


def etas_of(eta_max, eta_step):
    """the eta samples as the compiled kernels compute them: float64 arange of the float32 parameters"""
    # numba's parallel np.arange (parfor): the length is ceil((stop - start) / step) in the float32 of the
    # arguments, the values are start + i * step in float64
    start, stop, step = np.float32(0.0), np.float32(eta_max), np.float32(eta_step)
    n = max(int(np.ceil(np.float32(np.float32(stop - start) / step))), 0)
    return np.array([float(start) + i * float(step) for i in range(n)], dtype=np.float64)


def qmap(a):
    return [[core.to_q(x) for x in row] for row in np.asarray(a).tolist()]


def qvol(vol):
    return [[[None if x is None else core.to_q(float(np.float32(x))) for x in cur] for cur in row] for row in vol]


# ------------------------------------------------------------------ independent oracle (property text)
def oracle_volume(case):
    """exact per-pixel facts from the property sentence: finite costs, global span, best cost"""
    vol = qvol(case["vol"])
    fin = [x for row in vol for cur in row for x in cur if x is not None]
    return vol, (min(fin) if fin else None), (max(fin) if fin else None)


def oracle_amb_counts(case, etas):
    """sum over eta of card{d : normalised cost within eta of the pixel's BEST cost} (NaN costs count, as
    the code documents; all-NaN pixel: every (d, eta))"""
    vol, gmin, gmax = oracle_volume(case)
    is_min = case["type_measure"] == "min"
    out = []
    for row in vol:
        o = []
        for cur in row:
            fin = [x for x in cur if x is not None]
            if not fin or gmin == gmax:
                o.append(len(etas) * len(cur))
                continue
            best = min(fin) if is_min else max(fin)
            n = 0
            for e in etas:
                for x in cur:
                    if x is None or abs(x - best) <= e * (gmax - gmin):
                        n += 1
            o.append(n)
        out.append(o)
    return out


def oracle_risk(case, etas):
    vol, gmin, gmax = oracle_volume(case)
    is_min = case["type_measure"] == "min"
    out = []
    for row in vol:
        o = []
        for cur in row:
            fin = [x for x in cur if x is not None]
            if not fin or gmin == gmax:
                o.append((None, None))
                continue
            best = min(fin) if is_min else max(fin)
            smax, smin = F(0), F(0)
            for e in etas:
                ds = [d for d, x in enumerate(cur) if x is None or abs(x - best) <= e * (gmax - gmin)]
                spread = max(ds) - min(ds)
                smax += spread
                smin += 1 + spread - len(ds)
            o.append((smax / len(etas), smin / len(etas)))
        out.append(o)
    return out


def oracle_bounds(case, thr):
    """extreme disparities whose possibility reaches the threshold, widened by one sample around the best"""
    vol, gmin, gmax = oracle_volume(case)
    is_min = case["type_measure"] == "min"
    disps = [core.to_q(float(np.float32(d))) for d in case["disps"]]
    out = []
    for row in vol:
        o = []
        for cur in row:
            fin = [x for x in cur if x is not None]
            if not fin or gmin == gmax:
                o.append((None, None))
                continue
            best = min(fin) if is_min else max(fin)
            poss = [None if x is None else 1 - abs(x - best) / (gmax - gmin) for x in cur]
            D = [d for d, p in enumerate(poss) if p is not None and p >= thr]
            if not D:
                o.append((None, None))
                continue
            lo, hi = min(D), max(D)
            if poss[lo] == 1:
                lo = max(0, lo - 1)
            if poss[hi] == 1:
                hi = min(len(cur) - 1, hi + 1)
            o.append((disps[lo], disps[hi]))
        out.append(o)
    return out


def margins_ok(case, etas, thr32):
    """rule (b): every eta / threshold decision has margin 0 or clearly apart (> 1e-9)"""
    a = arr_of(case["vol"]).astype(np.float64)
    if np.all(np.isnan(a)):
        return True
    mn, mx = np.nanmin(a), np.nanmax(a)
    if mx == mn:
        return True
    n = (a - mn) / (mx - mn)
    with np.errstate(all="ignore"):
        best_lo = np.nanmin(n, axis=2, keepdims=True)
        best_hi = np.nanmax(n, axis=2, keepdims=True)
    for best in (best_lo, best_hi):
        dist = np.abs(n - best)
        dist = dist[~np.isnan(dist)]
        if etas is not None:
            m = np.abs(dist[:, None] - np.asarray(etas)[None, :])
            if np.any((m != 0) & (m < 1e-9)):
                return False
        if thr32 is not None:
            m = np.abs((1 - dist) - float(thr32))
            if np.any((m != 0) & (m < 1e-9)):
                return False
    return True


# ------------------------------------------------------------------ one kernel-stream case
class Pending:
    """model queries of all cases are answered in one batch at the end"""

    def __init__(self):
        self.queries = []
        self.checks = []

    def ask(self, fid, arg, check):
        self.queries.append((fid, arg))
        self.checks.append(check)


def cmp_exact(band, model_map):
    """float32 band against exact model values (None = NaN): equality after exact conversion"""
    got = qmap(band)
    want = [[core.q_of(x) for x in row] for row in model_map]
    return got == want, got, want


def cmp_close(band, model_map):
    want = [[core.q_of(x) for x in row] for row in model_map]
    got = np.asarray(band).tolist()
    ok = len(got) == len(want) and all(
        len(g) == len(w) and all(core.close(float(x), y) for x, y in zip(g, w)) for g, w in zip(got, want))
    return ok, got, want


def run_kernel_case(ctx, case, pend):
    from pandora.state_machine import PandoraMachine
    from pandora import cost_volume_confidence as conf
    from pandora import disparity

    cv, disp, img = make_datasets(case)
    cv_in = cv.copy(deep=True)
    disp_in = None if disp is None else disp.copy(deep=True)
    a0 = cv_in["cost_volume"].data
    nr, nc, nd = a0.shape
    fin = a0[~np.isnan(a0)]
    two_distinct = fin.size >= 2 and fin.min() != fin.max()
    is_min = case["type_measure"] == "min"
    replay = {"stream": "kernel", "case": case}
    vq = qvol(case["vol"])
    dq = [core.to_q(float(np.float32(d))) for d in case["disps"]]

    m = PandoraMachine()
    m.left_cv, m.left_disparity, m.left_img, m.right_img, m.right_disp_map = cv, disp, img, img, None
    table = {}      # band id -> float32 array, ids in creation order
    cv_ids = []
    for j in range(case["cv_bands"]):
        table[len(table)] = cv_in["confidence_measure"].data[:, :, j]
        cv_ids.append(len(table) - 1)
    disp_ids = None
    if disp is not None:
        disp_ids = []
        if case["disp"] == "bands":
            for j in range(2):
                table[len(table)] = disp_in["confidence_measure"].data[:, :, j]
                disp_ids.append(len(table) - 1)
    init_cv_wire = [[[ord(ch) for ch in n], i] for n, i in zip(names_of(cv_in) or [], cv_ids)] or 1
    init_disp_wire = 0 if disp is None else ([[[ord(ch) for ch in n], i] for n, i in zip(names_of(disp_in), disp_ids)]
                                             or 1)
    wire_steps = []
    ran = 0
    pipe_steps, pipe_ok, amb_normalised = [], True, {}   # whole-pipeline model (fid 12): see below
    init_cv_bands = [[[ord(ch) for ch in n], qmap(cv_in["confidence_measure"].data[:, :, j])]
                     for j, n in enumerate(names_of(cv_in) or [])] or 1
    init_disp_bands = 0 if disp is None else ([[[ord(ch) for ch in n], qmap(disp_in["confidence_measure"].data[:, :, j])]
                                               for j, n in enumerate(names_of(disp_in))] or 1)
    for st in case["steps"]:
        name, cfg = st["name"], copy.deepcopy(st["cfg"])
        method = cfg["confidence_method"]
        before_names = names_of(m.left_cv)
        before_data = None if not before_names else m.left_cv["confidence_measure"].data.copy()
        dbefore_names = names_of(m.left_disparity)
        dbefore = None if not dbefore_names else m.left_disparity["confidence_measure"].data.copy()
        try:
            m.cost_volume_confidence_run({"pipeline": {name: cfg}}, name)
        except Exception as exc:  # pylint: disable=broad-except
            ctx.mismatch("confidence_step_raised", replay, f"{name} {cfg}: {type(exc).__name__}: {exc}", "a band")
            return
        ran += 1
        ctx.traces += 1
        ctx.count("steps_" + method)
        after_names = names_of(m.left_cv)
        data = m.left_cv["confidence_measure"].data
        k = NB_BANDS[method]
        # ---- spec: bands only appended, old ones unchanged, cost volume and mask untouched
        parts = name.split(".")
        suf = "." + parts[1] if len(parts) == 2 else ""
        want_new = {"ambiguity": ["ambiguity"], "risk": ["risk_max", "risk_min"],
                    "interval_bounds": ["interval_bounds_inf", "interval_bounds_sup"],
                    "std_intensity": ["intensity_std"]}[method]
        want_new = ["confidence_from_" + w + suf for w in want_new]
        if after_names != before_names + want_new or data.dtype != np.float32 or (
                before_names and not same(data[:, :, :len(before_names)], before_data)):
            ctx.violation("bands_not_appended",
                          f"step {name} ({method}): indicators {before_names} -> {after_names}, expected the old ones "
                          f"unchanged followed by {want_new} (old band values kept)", replay)
            return
        if not same(m.left_cv["cost_volume"].data, a0) or not same(m.left_cv["validity_mask"].data,
                                                                   cv_in["validity_mask"].data):
            ctx.violation("cost_volume_modified", f"step {name} ({method}) changed the cost volume or its mask", replay)
            return
        if m.left_disparity is not None:
            dn = names_of(m.left_disparity)
            dd = m.left_disparity["confidence_measure"].data
            if dbefore_names:
                okd = dn == dbefore_names + want_new and same(dd[:, :, :len(dbefore_names)], dbefore) and same(
                    dd[:, :, len(dbefore_names):], data[:, :, -k:])
            else:   # a disparity dataset without bands adopts those of the cost volume
                okd = dn == after_names and same(dd, data)
            okd = okd and same(m.left_disparity["disparity_map"].data, disp_in["disparity_map"].data) and same(
                m.left_disparity["validity_mask"].data, disp_in["validity_mask"].data)
            if not okd:
                ctx.violation("disp_bands_not_appended",
                              f"step {name} ({method}): disparity dataset indicators {dbefore_names} -> {dn}", replay)
                return
        new_ids = []
        for j in range(k):
            table[len(table)] = data[:, :, len(before_names) + j].copy()
            new_ids.append(len(table) - 1)
        wire_steps.append([[ord(ch) for ch in name], METHOD_CODE[method], new_ids])
        new = [data[:, :, len(before_names) + j] for j in range(k)]

        # ---- per method: model query + oracle on the real band
        if method in ("ambiguity", "risk"):
            emax, estep = cfg.get("eta_max", 0.7), cfg.get("eta_step", 0.01)
            etas = etas_of(emax, estep)
            _, samp = conf.AbstractCostVolumeConfidence(**{"confidence_method": "ambiguity"}) \
                .compute_ambiguity_and_sampled_ambiguity(a0.copy(), 0.0, emax, estep)
            if samp.shape[2] != len(etas):
                ctx.mismatch("eta_samples", replay, int(samp.shape[2]), len(etas))
                return
            eq = [core.to_q(float(e)) for e in etas]
            pipe_steps.append([[ord(ch) for ch in name], METHOD_CODE[method],
                               [cfg.get("normalization", True), core.to_q(float(conf.ambiguity.Ambiguity._PERCENTILE)),
                                eq] if method == "ambiguity" else [eq]])
            if method == "ambiguity":
                amb_normalised["confidence_from_ambiguity" + suf] = cfg.get("normalization", True)
            if not margins_ok(case, etas, None):
                ctx.count("skipped_margin")
                pipe_ok = False
                continue
        if method == "ambiguity":
            normalised = cfg.get("normalization", True)
            band = new[0]
            if two_distinct:
                if normalised and not (np.all(np.isfinite(band)) and band.min() >= 0 and band.max() <= 1):
                    const = len(set(oracle_amb_counts(case, eq)[r][c] for r in range(nr) for c in range(nc))) == 1
                    ctx.violation("ambiguity_normalised_nan_constant_map" if const else "ambiguity_normalised_not_in_01",
                                  f"normalised ambiguity band of a volume with two distinct finite costs is not "
                                  f"finite in [0,1]: {band.tolist()} (volume {case['vol']}, {case['type_measure']} "
                                  f"measure, eta {emax}/{estep})", replay)
                if not normalised:
                    want = [[1 - x for x in row] for row in oracle_amb_counts(case, eq)]
                    if qmap(band) != want:
                        ctx.violation("ambiguity_count_" + ("min_measure" if is_min else "max_measure_uses_min_as_best"),
                                      f"un-normalised ambiguity band {band.tolist()} differs from 1 - sum_eta card{{d: "
                                      f"normalised cost within eta of the pixel's best}} = "
                                      f"{[[float(x) for x in r] for r in want]} ({case['type_measure']} measure, "
                                      f"volume {case['vol']}, eta {emax}/{estep})", replay)
            cmpf = cmp_close if normalised else cmp_exact
            pend.ask(2, [GUARDED, normalised, core.to_q(float(conf.ambiguity.Ambiguity._PERCENTILE)), eq, vq, is_min],
                     (lambda res, band=band, cmpf=cmpf, name=name: (cmpf(band, res), "ambiguity:" + name, replay)))
        elif method == "risk":
            rmax, rmin = new
            valid = ~np.all(np.isnan(a0), axis=2)
            if two_distinct:
                bad = valid & ~((rmin >= 0) & (rmin <= rmax))
                if bad.any():
                    r, c = np.argwhere(bad)[0]
                    ctx.violation("risk_order", f"pixel ({r},{c}) with a finite cost: risk_min={rmin[r, c]} "
                                  f"risk_max={rmax[r, c]} (need 0 <= risk_min <= risk_max); volume {case['vol']}", replay)
                orc = oracle_risk(case, eq)
                okr = all(core.close(float(rmax[r, c]), orc[r][c][0]) and core.close(float(rmin[r, c]), orc[r][c][1])
                          for r in range(nr) for c in range(nc))
                if not okr:
                    ctx.violation("risk_def_" + ("min_measure" if is_min else "max_measure_uses_min_as_best"),
                                  f"risk bands {rmax.tolist()} / {rmin.tolist()} differ from the eta-means of the "
                                  f"spread and of 1+spread-count of the disparities within eta of the pixel's best "
                                  f"({case['type_measure']} measure, volume {case['vol']}, eta {emax}/{estep})", replay)

            def chk(res, rmax=rmax, rmin=rmin, name=name):
                a = cmp_close(rmax, [[p[0] for p in row] for row in res])
                b = cmp_close(rmin, [[p[1] for p in row] for row in res])
                return (a[0] and b[0], [a[1], b[1]], [a[2], b[2]]), "risk:" + name, replay
            pend.ask(3, [eq, vq, is_min], chk)
        elif method == "interval_bounds":
            thr = cfg.get("possibility_threshold", 0.9)
            thr32 = np.float32(thr)
            reg = 0
            if cfg.get("regularization"):
                ind_ = "confidence_from_ambiguity" + ("" if cfg["ambiguity_indicator"] == "" else
                                                       "." + cfg["ambiguity_indicator"])
                reg = [[ord(ch) for ch in ind_], core.to_q(float(cfg["ambiguity_threshold"])),
                       cfg["ambiguity_kernel_size"], cfg["vertical_depth"],
                       core.to_q(float(cfg["quantile_regularization"]))]
                # the pipeline model regularises with ITS OWN ambiguity band: only an un-normalised one (integer
                # counts, exact in float32) keeps the threshold decisions free of rounding
                if amb_normalised.get(ind_, True) or cfg["quantile_regularization"] not in (0.0, 1.0):
                    pipe_ok = False
            pipe_steps.append([[ord(ch) for ch in name], METHOD_CODE[method], [core.to_q(float(thr32)), reg]])
            if not margins_ok(case, None, thr32):
                ctx.count("skipped_margin")
                pipe_ok = False
                continue
            binf, bsup = new
            tq = core.to_q(float(thr32))
            if cfg.get("regularization"):
                ctx.count("steps_interval_bounds_regularized")
                ind = "confidence_from_ambiguity" + ("" if cfg["ambiguity_indicator"] == "" else
                                                      "." + cfg["ambiguity_indicator"])
                amb = m.left_cv["confidence_measure"].sel({"indicator": ind}).data
                if not np.all(np.isfinite(amb)):
                    ctx.count("skipped_nan_ambiguity")
                    pipe_ok = False
                    continue
                q = cfg["quantile_regularization"]
                if q == 1.0 and two_distinct:
                    # spec: regularisation with quantile 1 can only widen the un-regularised bounds
                    uinf, usup = conf.AbstractCostVolumeConfidence(**{"confidence_method": "interval_bounds"}) \
                        .compute_interval_bounds(a0.copy(), np.array(case["disps"], dtype=np.float32), thr32,
                                                 np.float32(-1.0 if is_min else 1.0))
                    fin_ = ~np.isnan(uinf)
                    if not (np.all(binf[fin_] <= uinf[fin_]) and np.all(bsup[fin_] >= usup[fin_])):
                        ctx.violation("regularisation_q1_narrows",
                                      f"quantile-1 regularisation narrowed an interval: {uinf.tolist()}..{usup.tolist()}"
                                      f" -> {binf.tolist()}..{bsup.tolist()}", replay)

                def chk(res, binf=binf, bsup=bsup, name=name, q=q):
                    f = cmp_exact if q in (0.0, 1.0) else cmp_close
                    a, b = f(binf, res[0]), f(bsup, res[1])
                    return (a[0] and b[0], [a[1], b[1]], [a[2], b[2]]), "interval_bounds_regularized:" + name, replay
                pend.ask(10, [is_min, tq, dq, vq, qmap(amb), core.to_q(float(cfg["ambiguity_threshold"])),
                              cfg["ambiguity_kernel_size"], cfg["vertical_depth"], core.to_q(float(q))], chk)
            else:
                if two_distinct:
                    orc = oracle_bounds(case, tq)
                    got = [[(a_, b_) for a_, b_ in zip(r1, r2)] for r1, r2 in zip(qmap(binf), qmap(bsup))]
                    if got != orc:
                        ctx.violation("bounds_def", f"interval bounds {binf.tolist()} / {bsup.tolist()} differ from the "
                                      f"extreme disparities with possibility >= {thr} widened around the best "
                                      f"({case['type_measure']} measure, volume {case['vol']})", replay)

                def chk(res, binf=binf, bsup=bsup, name=name):
                    a = cmp_exact(binf, [[p[0] for p in row] for row in res])
                    b = cmp_exact(bsup, [[p[1] for p in row] for row in res])
                    return (a[0] and b[0], [a[1], b[1]], [a[2], b[2]]), "interval_bounds:" + name, replay
                pend.ask(4, [is_min, tq, dq, vq], chk)
        elif method == "std_intensity":
            band = new[0]
            w = case["window"]
            off = (w - 1) // 2
            im = np.array([[np.nan if x is None else x for x in row] for row in case["img"]], dtype=np.float64)
            want = np.full((nr, nc), np.nan)
            for r in range(off, nr - off):
                for c in range(off, nc - off):
                    win = im[r - off:r + off + 1, c - off:c + off + 1]
                    if np.isnan(win).any():
                        # a NaN pixel in the window: the property text does not say; only the model is compared
                        ctx.count("std_windows_with_nan_pixel")
                        want[r, c] = band[r, c]
                    else:
                        want[r, c] = np.std(win)
            if not np.allclose(band, want, rtol=1e-5, atol=1e-4, equal_nan=True):
                ctx.violation("std_def", f"intensity_std band {band.tolist()} is not the standard deviation of the "
                              f"{w}x{w} left window, NaN on the border (image {case['img']})", replay)

            def chk(res, band=band, name=name):
                # model: the whole band, None = NaN (border), Some v = the (zeroed) window variance
                var = [[core.q_of(x) for x in row] for row in res]
                ok = len(var) == nr and all(len(row) == nc for row in var) and all(
                    (np.isnan(band[r, c]) if var[r][c] is None else
                     (not np.isnan(band[r, c])) and core.close(float(band[r, c]) ** 2, var[r][c],
                                                              rel=2.0 ** -16, abs_=2.0 ** -16))
                    for r in range(nr) for c in range(nc))
                return (ok, band.tolist(), [[None if x is None else float(x) for x in row] for row in var]), \
                    "std:" + name, replay
            imgq = [[None if x is None else F(x) for x in row] for row in case["img"]]
            pend.ask(11, [core.to_q(10 ** (-15)), w, imgq], chk)
            pipe_steps.append([[ord(ch) for ch in name], METHOD_CODE[method], [core.to_q(10 ** (-15)), w, imgq]])

    # ---- WTA on the volume the confidence steps saw: bracket (spec) and model WTA (correspondence)
    try:
        dm = disparity.AbstractDisparity(**{"disparity_method": "wta", "invalid_disparity": -9999}) \
            .to_disp(m.left_cv, img, img)
    except Exception as exc:  # pylint: disable=broad-except
        ctx.mismatch("wta_raised", replay, f"{type(exc).__name__}: {exc}", "a disparity map")
        return
    d = dm["disparity_map"].data
    valid = ~np.all(np.isnan(a0), axis=2)
    names = names_of(dm) or []
    data = dm["confidence_measure"].data if names else None
    if not same(m.left_cv["cost_volume"].data, a0):
        ctx.violation("cost_volume_modified", "the disparity step changed the cost volume", replay)
    for st in case["steps"]:
        if st["cfg"]["confidence_method"] != "interval_bounds":
            continue
        if st["cfg"].get("regularization") and st["cfg"].get("quantile_regularization", 1.0) != 1.0:
            continue    # the property brackets the winner with the un-regularised or quantile-1 bounds
        parts = st["name"].split(".")
        suf = "." + parts[1] if len(parts) == 2 else ""
        ni, ns = "confidence_from_interval_bounds_inf" + suf, "confidence_from_interval_bounds_sup" + suf
        if names.count(ni) != 1 or names.count(ns) != 1:
            continue
        binf, bsup = data[:, :, names.index(ni)], data[:, :, names.index(ns)]
        ctx.count("bracket_checked_pixels", int(valid.sum()))
        bad = valid & ~((binf <= d) & (d <= bsup))
        if bad.any() and two_distinct:
            r, c = np.argwhere(bad)[0]
            ctx.violation("bounds_do_not_bracket_wta",
                          f"valid pixel ({r},{c}): interval [{binf[r, c]}, {bsup[r, c]}] does not contain the WTA "
                          f"disparity {d[r, c]} (step {st['name']} {st['cfg']}, {case['type_measure']} measure, "
                          f"curve {case['vol'][r][c]})", replay)

    def chk_wta(res):
        want = [[(F(-9999) if x == [] else dq[x[0]]) for x in row] for row in res]
        got = qmap(d)
        return (got == want, got, want), "wta", replay
    pend.ask(5, [is_min, vq], chk_wta)

    # ---- the concrete pipeline model (Model/ConfPipeline.v: these confidence steps, then the wta disparity step,
    #      run on the whole state) against the real datasets: disparity map, mask, names and VALUES of all bands
    if pipe_ok and len(pipe_steps) == len(case["steps"]) and abs(float(np.nanmax(np.abs(d)))) < 1e6:
        def chk_pipe(res, m=m, dm=dm, d=d):
            if len(res) != 4:
                return (False, "real run completed", res), "pipeline_model", replay
            why = []
            if qmap(d) != [[core.q_of(x) for x in row] for row in res[0]]:
                why.append("disparity_map")
            if dm["validity_mask"].data.tolist() != res[1]:
                why.append("validity_mask")
            for tag, ds, wire in (("disp", dm, res[2]), ("cv", m.left_cv, res[3])):
                got = names_of(ds)
                if wire in (0, 1):
                    if got != ([] if wire == 1 else None):
                        why.append(tag + " bands presence")
                    continue
                if got != ["".join(chr(x) for x in e[0]) for e in wire]:
                    why.append(tag + " band names")
                    continue
                dd = ds["confidence_measure"].data
                for j, e in enumerate(wire):
                    if got[j].startswith("confidence_from_intensity_std"):
                        # the model band holds the variance: compare the square of the real band
                        okb = all(core.close(None if np.isnan(dd[r, c, j]) else float(dd[r, c, j]) ** 2,
                                             core.q_of(e[1][r][c]), rel=2.0 ** -16, abs_=2.0 ** -16)
                                  for r in range(nr) for c in range(nc))
                    else:
                        okb = cmp_close(dd[:, :, j], e[1])[0]
                    if not okb:
                        why.append(f"{tag} band {got[j]}: real {dd[:, :, j].tolist()} model "
                                   f"{[[None if x == [] else float(core.q_of(x)) for x in row] for row in e[1]]}")
            return (not why, [names_of(dm), names_of(m.left_cv), d.tolist()], why), "pipeline_model", replay
        ctx.count("pipeline_model_cases")
        pend.ask(12, [pipe_steps, init_disp_bands, init_cv_bands,
                      [nr, nc, not is_min, 1, dq, vq, cv_in["validity_mask"].data.tolist()], 100, F(-9999)], chk_pipe)

    # ---- names and order of all bands in both datasets (model of allocate_confidence_map + suffix rule)
    def chk_names(res, m=m, table=table):
        out_ok = True
        got_all, want_all = [], []
        for ds, wire in ((m.left_disparity, res[0]), (m.left_cv, res[1])):
            got = names_of(ds)
            if wire == 0:
                want, ids = None, []
            elif wire == 1:
                want, ids = [], []
            else:
                want = ["".join(chr(x) for x in e[0]) for e in wire]
                ids = [e[1] for e in wire]
            got_all.append(got)
            want_all.append(want)
            if got != want:
                out_ok = False
            elif got:
                dd = ds["confidence_measure"].data
                for j, i in enumerate(ids):
                    if not same(dd[:, :, j], table[i]):
                        out_ok = False
        return (out_ok, got_all, want_all), "band_bookkeeping", replay
    pend.ask(6, [wire_steps, init_disp_wire, init_cv_wire], chk_names)

    key = None
    if two_distinct and ran:
        key = (json.dumps(case["vol"]), case["type_measure"], json.dumps(case["steps"], sort_keys=True))
    ctx.case(key)
    ctx.count("volumes_" + case["type_measure"])
    ctx.count("volumes_with_nan" if np.isnan(a0).any() else "volumes_without_nan")
    if np.all(np.isnan(a0), axis=2).any():
        ctx.count("volumes_with_invalid_pixel")
    if len(case["steps"]) >= 3:
        ctx.sample({"stream": "kernel", "shape": [nr, nc, nd], "measure": case["type_measure"],
                    "steps": [(s["name"], s["cfg"]) for s in case["steps"]],
                    "indicators": names_of(m.left_cv)}, limit=5)


# ------------------------------------------------------------------ pipeline stream (impl vs impl)
def gen_pipeline(rng):
    mc = rng.choice([{"matching_cost_method": "sad", "window_size": rng.choice([1, 3]), "subpix": rng.choice([1, 2])},
                     {"matching_cost_method": "census", "window_size": 3, "subpix": 1},
                     {"matching_cost_method": "zncc", "window_size": 3, "subpix": 1}])
    steps = [("matching_cost", mc)]
    n_conf = rng.choice([1, 2, 3, 4])
    mid = ["conf"] * n_conf + (["agg"] if rng.random() < 0.4 else [])
    rng.shuffle(mid)
    used = set()
    amb = []
    for i, k in enumerate(mid):
        if k == "agg":
            steps.append(("aggregation", {"aggregation_method": "cbca", "cbca_intensity": 5.0, "cbca_distance": 3}))
            continue
        nm = "cost_volume_confidence" if rng.random() < 0.3 else "cost_volume_confidence." + rng.choice(
            ["a", "b", "amb", "x.y", "2", "c."])
        while nm in used:
            nm += ("" if "." in nm else ".") + str(i)
        used.add(nm)
        m = rng.choice(["ambiguity", "risk", "interval_bounds", "std_intensity"])
        cfg = {"confidence_method": m}
        if m in ("ambiguity", "risk") and rng.random() < 0.7:
            cfg["eta_max"], cfg["eta_step"] = rng.choice(ETAS)
        if m == "ambiguity":
            cfg["normalization"] = rng.random() < 0.6
            p = nm.split(".")
            if len(p) != 2 or p[1] != "":
                amb.append(p[1] if len(p) == 2 else "")
        if m == "interval_bounds":
            cfg["possibility_threshold"] = rng.choice(THRESHOLDS)
            c = [s for s in amb if amb.count(s) == 1]
            if c and rng.random() < 0.5:
                cfg.update({"regularization": True, "ambiguity_indicator": rng.choice(c),
                            "vertical_depth": rng.choice([0, 2]), "quantile_regularization": rng.choice([1.0, 0.9])})
        steps.append((nm, cfg))
    steps.append(("disparity", {"disparity_method": "wta", "invalid_disparity": rng.choice([-9999, "NaN"])}))
    for _ in range(rng.randrange(0, 3)):
        k = rng.choice(["filter", "refinement", "validation"])
        if any(s[0] == k for s in steps):
            continue
        steps.append((k, {"filter": {"filter_method": "median", "filter_size": 3},
                          "refinement": {"refinement_method": "vfit"},
                          "validation": {"validation_method": "cross_checking_accurate"}}[k]))
    rows, cols = rng.randrange(8, 13), rng.randrange(10, 16)
    base = [[rng.randrange(0, 40) for _ in range(cols + 6)] for _ in range(rows)]
    left = [[base[r][c + 3] + rng.randrange(0, 3) for c in range(cols)] for r in range(rows)]
    right = [[base[r][c + 2] for c in range(cols)] for r in range(rows)]
    mask = [[1 if rng.random() < 0.04 else 0 for _ in range(cols)] for _ in range(rows)]
    return {"steps": steps, "left": left, "right": right, "mask": mask, "disp": [-2, 2], "checked": rng.random() < 0.5}


def run_pipeline(case, with_conf, upto_disparity=False):
    import pandora
    from pandora.state_machine import PandoraMachine
    from pandora import check_configuration

    L = pu.image_dataset(np.array(case["left"]), disp=tuple(case["disp"]), mask=np.array(case["mask"]))
    R = pu.image_dataset(np.array(case["right"]), disp=(-case["disp"][1], -case["disp"][0]),
                         mask=np.zeros_like(np.array(case["mask"])))
    pipe = {}
    for nm, cfg in case["steps"]:
        if not with_conf and nm.split(".")[0] == "cost_volume_confidence":
            continue
        pipe[nm] = copy.deepcopy(cfg)
        if upto_disparity and nm == "disparity":
            break
    user = {"input": {"left": {"disp": list(case["disp"])}}, "pipeline": pipe}
    cfg = check_configuration.update_conf(check_configuration.default_short_configuration, user)
    if case.get("checked"):
        # as pandora.main does: the configuration that is RUN is the one check_conf returned (completed with the
        # defaults, "indicator" included), on the machine that checked it
        rows, cols = np.array(case["left"]).shape[-2:]
        m = PandoraMachine()
        checked = check_configuration.check_pipeline_section(
            {"pipeline": copy.deepcopy(pipe)}, pu.meta_dataset(rows, cols, disp=tuple(case["disp"])),
            pu.meta_dataset(rows, cols, disp=(-case["disp"][1], -case["disp"][0])), m)
        cfg["pipeline"] = checked["pipeline"]
    else:
        m = PandoraMachine()
    left, right = pandora.run(m, L, R, cfg)
    return left, right, m


def run_pipeline_case(ctx, case):
    replay = {"stream": "pipeline", "case": case}
    try:
        l1, r1, m1 = run_pipeline(case, True)
        l0, r0, _ = run_pipeline(case, False)
    except Exception as exc:  # pylint: disable=broad-except
        ctx.mismatch("pipeline_raised", replay, f"{type(exc).__name__}: {exc}", "two runs")
        return
    ctx.traces += 2
    names_steps = [s[0] for s in case["steps"]]
    ctx.case(("pipeline", json.dumps(case["steps"]), json.dumps(case["left"])))
    ctx.count("pipelines_" + case["steps"][0][1]["matching_cost_method"])
    for a, b, side in ((l1, l0, "left"), (r1, r0, "right")):
        if ("disparity_map" in a.data_vars) != ("disparity_map" in b.data_vars):
            ctx.violation("confidence_steps_not_transparent", f"{side} products differ in presence", replay)
            continue
        if "disparity_map" not in a.data_vars:
            continue
        if not same(a["disparity_map"].data, b["disparity_map"].data) or not same(
                a["validity_mask"].data, b["validity_mask"].data):
            ctx.violation("confidence_steps_not_transparent",
                          f"{side} disparity map / validity mask of pipeline {names_steps} differ from those of the "
                          f"same pipeline without its confidence steps", replay)
    # indicator names produced by the real state machine: old ones, then each step's, in pipeline order
    want = []
    for nm, cfg in case["steps"]:
        if nm.split(".")[0] != "cost_volume_confidence":
            continue
        p = nm.split(".")
        suf = "." + p[1] if len(p) == 2 else ""
        want += ["confidence_from_" + w + suf for w in
                 {"ambiguity": ["ambiguity"], "risk": ["risk_max", "risk_min"],
                  "interval_bounds": ["interval_bounds_inf", "interval_bounds_sup"],
                  "std_intensity": ["intensity_std"]}[cfg["confidence_method"]]]
    got = names_of(l1) or []
    if got[:len(want)] != want:
        ctx.violation("pipeline_indicator_names", f"pipeline {names_steps}: indicators {got}, expected {want} first",
                      replay)
        return
    # spec on the real bands (any cost span): risk order, normalised ambiguity range, bracket of the WTA winner
    try:
        lw, _, mw = run_pipeline(case, True, upto_disparity=True)
    except Exception as exc:  # pylint: disable=broad-except
        ctx.mismatch("pipeline_raised", replay, f"{type(exc).__name__}: {exc}", "run up to disparity")
        return
    ctx.traces += 1
    conf = lw["confidence_measure"].data
    cvn = names_of(lw)
    d = lw["disparity_map"].data
    cvdata = mw.left_cv["cost_volume"].data
    valid = ~np.all(np.isnan(cvdata), axis=2)
    idx = 0
    seen_agg_after = {}
    for i, (nm, cfg) in enumerate(case["steps"]):
        if nm.split(".")[0] != "cost_volume_confidence":
            continue
        agg_after = any(s[0] == "aggregation" for s in case["steps"][i + 1:])
        k = NB_BANDS[cfg["confidence_method"]]
        bands = [conf[:, :, idx + j] for j in range(k)]
        idx += k
        meth = cfg["confidence_method"]
        if meth == "risk":
            rmax, rmin = bands
            fin_ = ~np.isnan(rmax)
            if not (np.all(rmin[fin_] >= 0) and np.all(rmin[fin_] <= rmax[fin_])):
                ctx.violation("risk_order", f"pipeline {names_steps}: 0 <= risk_min <= risk_max fails", replay)
        if meth == "ambiguity" and cfg.get("normalization", True):
            b = bands[0]
            if not (np.all(np.isfinite(b)) and b.min() >= 0 and b.max() <= 1):
                ctx.violation("ambiguity_normalised_not_in_01",
                              f"pipeline {names_steps}: normalised ambiguity not finite in [0,1]", replay)
        if meth == "interval_bounds" and not agg_after and not cfg.get("regularization"):
            binf, bsup = bands
            ctx.count("bracket_checked_pixels_pipeline", int(valid.sum()))
            bad = valid & ~((binf <= d) & (d <= bsup))
            if bad.any():
                r, c = np.argwhere(bad)[0]
                ctx.violation("bounds_do_not_bracket_wta",
                              f"pipeline {names_steps}: valid pixel ({r},{c}) interval [{binf[r, c]}, {bsup[r, c]}] "
                              f"does not contain the WTA disparity {d[r, c]} (curve {cvdata[r, c].tolist()})", replay)
    ctx.sample({"stream": "pipeline", "steps": names_steps, "indicators": cvn}, limit=8)


# ------------------------------------------------------------------ entry
CORPUS = [
    # eta probe: with eta_step 0.01 the 26th sample is 25 * float32(0.01) computed in float64, just below 0.25
    # (a float32 product would round to 0.25): the second pixel's cost 0.25 is NOT within eta_25
    {"vol": [[[0, 0.25], [0, 1], [0, 0.5]]], "disps": [0, 1], "type_measure": "min", "window": 1, "img": [[7, 9, 4]],
     "cv_bands": 0, "disp": "none", "seed_bands": 1,
     "steps": [{"name": "cost_volume_confidence", "cfg": {"confidence_method": "ambiguity", "normalization": False}},
               {"name": "cost_volume_confidence.r", "cfg": {"confidence_method": "risk"}}]},
    # D12 witness: 1-pixel volume, constant ambiguity map
    {"vol": [[[1, 2, 3]]], "disps": [-1, 0, 1], "type_measure": "min", "window": 1, "img": [[7]],
     "cv_bands": 0, "disp": "none", "seed_bands": 1,
     "steps": [{"name": "cost_volume_confidence", "cfg": {"confidence_method": "ambiguity"}}]},
    # D11 witness: similarity measure, the best cost is the maximum
    {"vol": [[[4, 0, 3], [0, 4, 4]]], "disps": [-1, 0, 1], "type_measure": "max", "window": 1, "img": [[7, 9]],
     "cv_bands": 0, "disp": "none", "seed_bands": 1,
     "steps": [{"name": "cost_volume_confidence.u", "cfg": {"confidence_method": "ambiguity", "normalization": False,
                                                             "eta_max": 0.5, "eta_step": 0.125}},
               {"name": "cost_volume_confidence.r", "cfg": {"confidence_method": "risk", "eta_max": 0.5,
                                                             "eta_step": 0.125}},
               {"name": "cost_volume_confidence.i", "cfg": {"confidence_method": "interval_bounds",
                                                             "possibility_threshold": 0.9}}]},
]


def run(ctx):
    _merge_proposed_known()
    ctx.gen_obligations = list(GEN_OBLIGATIONS)
    rng = ctx.rng
    quick = ctx.tier == "quick"
    model = core.Model("x12")
    pend = Pending()

    rc = getattr(ctx, "replay_case", None)
    if rc is not None:
        if rc.get("stream") == "pipeline":
            run_pipeline_case(ctx, rc["case"])
        else:
            run_kernel_case(ctx, rc["case"], pend)
    else:
        for case in CORPUS:
            run_kernel_case(ctx, copy.deepcopy(case), pend)
        n = 200 if quick else 4000
        for i in range(n):
            run_kernel_case(ctx, gen_case(rng, tiny=(i % 10 == 9)), pend)
        npipe = 24 if quick else 300
        for _ in range(npipe):
            run_pipeline_case(ctx, gen_pipeline(rng))

    # model answers, one batch
    res = model.batch(pend.queries)
    for r, chk in zip(res, pend.checks):
        if r is None:
            ctx.mismatch("model_stack_overflow", None, None, None)
            continue
        (ok, got, want), name, replay = chk(r)
        ctx.count("model_comparisons")
        if not ok:
            ctx.mismatch(name.split(":")[0], replay, got, want)
    ctx.stats["model_calls"] = model.calls
