"""C03 -- winner-takes-all picks each pixel's best cost inside its disparity interval.

T-gen : Gen/Constants.v (block size 100 of argmin_split/argmax_split, by ast); the theorems
        hold for every B >= 1 and are instantiated at the regenerated constant.
T-gen : Gen/WtaFns.v (translator/gen_wta_fns.py, ast): WinnerTakesAll.to_disp, argmin_split, argmax_split and
        extract_disparity_interval_from_cost_volume statement by statement over the numpy combinators of Lib/NpNd.v /
        Lib/NpNd3.v; Props/C03.v re-proves at every run that the generated to_disp (its block loops = the generated
        skeletons run by BlockSkeleton.exec) equals Model/Wta.v for ALL datasets and restates the C03 theorems on it;
        the storage-sharing list the translator derives is compared here with np.shares_memory on the real datasets.
T-corr: the extracted model of WinnerTakesAll.to_disp (NaN -> +-inf substitution, B x B block
        loop with running offsets, np.argmin/np.argmax first-index semantics, restoration,
        invalid_disparity, copies) against the real AbstractDisparity(**cfg).to_disp(cv) on
        synthetic cost-volume datasets; exact comparison of the disparity map, the cost volume
        after the call, disp_indices, the confidence bands and the validity mask.
Spec  : (i) the Coq Spec [wta_pixel] extracted with the model and applied to the real outputs
        (volumes up to 3500 pixels), (ii) an independent numpy oracle of the property on every
        volume (min/max of the computable costs, lowest index on ties, invalid_disparity, sampled
        disparity, inside the pixel interval when costs outside it are NaN, cost volume / bands /
        flags unchanged), (iii) crop metamorphic run (result independent of the position of the
        pixel relative to the 100-pixel blocks)."""
import fractions
import json
import math
import os
import random

import numpy as np
import xarray as xr

from harness import core

GEN = ["gen_constants", "gen_block_loops", "gen_wta_fns"]
EXTRACT_FILES = ["X03"]
DRIVERS = ["x03"]
RULE = ("synthetic cost volumes: shape from {1,2,99,100,101,199,200,201,250} x {1,3,101} (either orientation) x 2-5 "
        "disparities (step 1, 1/2 or 1/4), costs small integers or multiples of 1/4, NaN ratio 0/30/100 %, ties forced in "
        "~40 % of the pixels, min- and max-type measures, invalid_disparity in {-9999, 0, 7.5, NaN}, optional per-pixel "
        "interval masking (costs outside the pixel interval NaN, as C02 leaves them), a small stream of volumes containing "
        "+-inf; a case is non-trivial when the volume has >= 2 pixels and not all costs are NaN; distinct by (shape, nd, "
        "measure type, invalid, NaN ratio, ties, case seed)")
ASSUMES = [
    "the numpy primitives np.argmin/np.argmax (first index of the extremum), np.array_split, np.isnan, boolean-mask "
    "assignment and xarray's copy/deepcopy are hand-modelled (Model/Wta.v, Lib/Blocks.v) and validated by this "
    "correspondence on every run",
    "costs are NaN, finite or +-inf; wta_eq_spec is stated for volumes that do not contain the infinity which to_disp "
    "substitutes for NaN (+inf for min-type, -inf for max-type measures): Pandora's own measures never produce it; the "
    "behaviour on such volumes is modelled, compared with the code and shown by the witness C03_subst_inf_witness",
    "'inside the pixel's requested interval' relies on C02's masking (costs outside the pixel interval are NaN): named "
    "hypothesis cv_masked_outside_is_nan of C03_wta_within_pixel_interval",
    "float32 storage of the disparity coordinate: sampled disparities are multiples of 1/4 (exact)",
    "generated to_disp (Gen/WtaFns.v): the meaning of each numpy / xarray construct is the combinator of Lib/NpNd.v, "
    "Lib/NpNd3.v, Model/WtaNp.v it is mapped to (np.isnan, a[mask] = v, np.min / np.argmin / np.argmax(axis=2) incl. "
    "first-NaN rule and empty-axis error, a[I] with IndexError / negative wrap-around, astype(intNN) wrap-around, "
    "np.nan_to_num rewriting +-inf to +-float32 max, xr.Dataset shape check, dataset variables as record fields); the "
    "statements cover datasets whose cost volume has rank 3 and a NON-EMPTY disparity axis (numpy raises on an empty "
    "one), whose sampled disparities are not NaN, with one coordinate per row / column; arrays are total functions "
    "(dtype float32 of the map is not modelled: disparities exactly representable); self._invalid_disparity is a "
    "parameter (how it is read from the configuration is C05's); approximate_right_disparity has no caller in "
    "pandora/ and is not translated; img_left / img_right are unused by to_disp (any use is refused)",
]
TRUSTED = ["Gen/Constants.v produced by translator/gen_constants.py (ast pattern np.array_split(x, np.arange(B, n, B), axis))",
           "Gen/BlockLoops.v produced by translator/gen_block_loops.py (ast transliteration of the double block loop: split expressions, statements on the running offsets where they stand, slice bounds, arrays resolved to np.zeros / np.full_like / np.copy / sliding_window view / parameter expression; fail closed) and its reading as a program by Lib/BlockSkeleton.v exec (total arrays, slice writes neither clamped nor shape-checked)"]

TRUSTED.append("Gen/WtaFns.v produced by translator/gen_wta_fns.py (ast, statement-by-statement, fail closed; types the names, "
               "threads the two datasets as state, tracks storage / aliasing and refuses an in-place store into storage that "
               "something still read holds; replaces the double block loop by a hole instantiated in Coq with "
               "BlockSkeleton.exec of the generated skeleton) and the reading of numpy / xarray in Lib/NpNd.v, Lib/NpNd3.v, "
               "Model/WtaNp.v")

BIG = [1, 2, 99, 100, 101, 199, 200, 201, 250]
SMALL = [1, 3, 101]
INVALIDS = [-9999, 0, 7.5, "NaN"]
MASK_VALUES = [0, 0, 0, 1, 2, 4, 64, 128, 3, 66, 2048, 1 + 64 + 128]


# ------------------------------------------------------------------ case generation


def gen_params(rng, quick, idx):
    """parameters of one case (the arrays are derived from params['seed'])"""
    a, b = rng.choice(BIG), rng.choice(SMALL)
    if idx % 7 == 6:  # both sides around the block size, few disparities (model-side cost)
        a, b = rng.choice([99, 100, 101, 102]), rng.choice([99, 100, 101, 103])
        nd = 2
    else:
        nd = rng.randrange(2, 6)
        if a * b > 8000:
            nd = rng.randrange(2, 4)
    nr, nc = (a, b) if rng.random() < 0.5 else (b, a)
    return {
        "seed": rng.randrange(1 << 30), "nr": nr, "nc": nc, "nd": nd,
        "mx": rng.random() < 0.5, "invalid": rng.choice(INVALIDS),
        "nan_ratio": rng.choice([0.0, 0.3, 0.3, 0.3, 1.0]) if idx % 11 else 1.0,
        "ties": 0.4, "dstep": rng.choice([1, 1, 0.5, 0.25]), "dmin": rng.randrange(-4, 3),
        "interval": rng.random() < 0.4, "inf": False, "quarter": rng.random() < 0.3,
        "nind": rng.choice([0, 1, 2]),
    }


def gen_inf_params(rng):
    p = gen_params(rng, True, 0)
    p.update({"nr": rng.choice([1, 2, 5, 101]), "nc": rng.choice([1, 3, 7]), "nd": rng.randrange(2, 5),
              "inf": True, "nan_ratio": 0.3, "interval": False})
    return p


def build_case(p):
    r = random.Random(p["seed"])
    nprng = np.random.RandomState(p["seed"] % (1 << 31))
    nr, nc, nd = p["nr"], p["nc"], p["nd"]
    scale = 0.25 if p["quarter"] else 1.0
    cost = nprng.randint(-6, 12, size=(nr, nc, nd)).astype(np.float32) * np.float32(scale)
    # ties: copy one cost of the pixel onto another disparity (often the extremum)
    tie = nprng.rand(nr, nc) < p["ties"]
    src = nprng.randint(0, nd, size=(nr, nc))
    dst = nprng.randint(0, nd, size=(nr, nc))
    ext_idx = cost.argmax(axis=2) if p["mx"] else cost.argmin(axis=2)
    use_ext = nprng.rand(nr, nc) < 0.7
    src = np.where(use_ext, ext_idx, src)
    rr, cc = np.nonzero(tie)
    cost[rr, cc, dst[rr, cc]] = cost[rr, cc, src[rr, cc]]
    if p.get("deep"):
        # a disparity axis longer than 32767 samples whose winners sit beyond index 32767 (index types narrower than
        # the axis would wrap)
        cost[:] = np.float32(-5.0 if p["mx"] else 5.0)
        for j in range(nc):
            cost[0, j, nd - 7 - 10 * j] = np.float32(13.0 if p["mx"] else -7.0)
    disps = np.array([p["dmin"] + k * p["dstep"] for k in range(nd)], dtype=np.float64)
    lo = hi = None
    if p["interval"]:
        # per-pixel interval [lo, hi] inside the sampled range; costs outside are NaN (C02 masking)
        a = nprng.randint(0, nd, size=(nr, nc))
        b = nprng.randint(0, nd, size=(nr, nc))
        ilo, ihi = np.minimum(a, b), np.maximum(a, b)
        k = np.arange(nd)[None, None, :]
        outside = (k < ilo[..., None]) | (k > ihi[..., None])
        cost[outside] = np.nan
        lo, hi = disps[ilo], disps[ihi]
    if p["nan_ratio"] >= 1.0:
        cost[:] = np.nan
    elif p["nan_ratio"] > 0:
        cost[nprng.rand(nr, nc, nd) < p["nan_ratio"]] = np.nan
        # whole pixels without any computable cost
        cost[nprng.rand(nr, nc) < 0.08] = np.nan
    if p["inf"]:
        m = nprng.rand(nr, nc, nd)
        cost[m < 0.2] = np.inf
        cost[(m >= 0.2) & (m < 0.4)] = -np.inf
    nind = p["nind"]
    conf = None
    if nind:
        conf = (nprng.randint(-8, 9, size=(nr, nc, nind)).astype(np.float32)) * np.float32(0.25)
        conf[nprng.rand(nr, nc, nind) < 0.1] = np.nan
    mask = np.array(MASK_VALUES, dtype=np.uint16)[nprng.randint(0, len(MASK_VALUES), size=(nr, nc))]
    del r
    return {"cost": cost, "disps": disps, "conf": conf, "mask": mask, "lo": lo, "hi": hi}


def cv_dataset(p, arrs):
    from rasterio import Affine  # pylint: disable=import-outside-toplevel

    nr, nc = p["nr"], p["nc"]
    data = {"cost_volume": (["row", "col", "disp"], arrs["cost"].copy()),
            "validity_mask": (["row", "col"], arrs["mask"].copy())}
    coords = {"row": np.arange(nr), "col": np.arange(nc), "disp": arrs["disps"].copy()}
    if arrs["conf"] is not None:
        data["confidence_measure"] = (["row", "col", "indicator"], arrs["conf"].copy())
        coords["indicator"] = ["confidence_from_ambiguity", "confidence_from_risk_max"][: arrs["conf"].shape[2]]
    ds = xr.Dataset(data, coords=coords)
    # the window of the matching cost that produced the volume is the caller's (attrs offset_row_col / window_size):
    # to_disp carries the flags over whatever it is
    off = p.get("offset", p["seed"] % 3 if min(nr, nc) > 4 else 0)
    ds.attrs = {"measure": "zncc" if p["mx"] else "sad", "subpixel": int(round(1 / p["dstep"])), "offset_row_col": off,
                "window_size": 2 * off + 1, "type_measure": "max" if p["mx"] else "min", "cmax": 12, "band_correl": None,
                "crs": None, "transform": Affine(1.0, 0.0, 0.0, 0.0, 1.0, 0.0),
                "disparity_source": [int(math.floor(arrs["disps"][0])), int(math.ceil(arrs["disps"][-1]))]}
    return ds


# ------------------------------------------------------------------ canonical forms


def q_of_float(x):
    """float -> wire form of an option Q / cost"""
    x = float(x)
    if math.isnan(x):
        return []
    if math.isinf(x):
        return [1 if x > 0 else -1]
    f = fractions.Fraction(*x.as_integer_ratio())
    return [f.numerator, f.denominator]


_QCACHE = {}


def wire_float(x):
    v = _QCACHE.get(x)
    if v is None:
        v = q_of_float(x)
        if x == x:
            _QCACHE[x] = v
    return v


def wire_array(a):
    """nd float array -> nested lists of wire values (cached per distinct float)"""
    def rec(x):
        if isinstance(x, list):
            return [rec(y) for y in x]
        return wire_float(x)
    return rec(a.tolist())


def invalid_value(inv):
    return float("nan") if inv == "NaN" else inv


def run_impl(p, arrs):
    from pandora import disparity  # pylint: disable=import-outside-toplevel

    cv = cv_dataset(p, arrs)
    wta = disparity.AbstractDisparity(**{"disparity_method": "wta", "invalid_disparity": p["invalid"]})
    out = wta.to_disp(cv)
    return cv, out


def failed_step_stream(ctx, rng, n):
    """'the step leaves the cost volume values unchanged', also when it does not complete: a cost volume that
    lacks the flags (allocate_cost_volume + compute_cost_volume only, as the library's own unit tests build it) makes
    to_disp raise; the caller's cost volume must hold the costs it held (its NaN costs included)"""
    from pandora import disparity  # pylint: disable=import-outside-toplevel

    for i in range(n):
        p = gen_inf_params(rng)
        p.update({"inf": False, "nr": rng.choice([2, 5, 101]), "nan_ratio": 0.4})
        arrs = build_case(p)
        cv = cv_dataset(p, arrs).drop_vars("validity_mask")
        before = cv["cost_volume"].data.copy()
        wta = disparity.AbstractDisparity(**{"disparity_method": "wta", "invalid_disparity": p["invalid"]})
        try:
            wta.to_disp(cv)
            ctx.count("to_disp_without_flags_returned")
        except Exception as exc:  # pylint: disable=broad-except
            ctx.count("to_disp_without_flags_raised_" + type(exc).__name__)
        ctx.traces += 1
        ctx.case(("failed_step", p["seed"]))
        if not same(cv["cost_volume"].data, before):
            k = int(np.sum(~((cv["cost_volume"].data == before) | (np.isnan(cv["cost_volume"].data) & np.isnan(before)))))
            ctx.violation("wta_cv_changed_by_a_step_that_failed",
                          f"to_disp on a {p['nr']}x{p['nc']}x{p['nd']} cost volume without validity_mask does not complete, "
                          f"and {k} costs of the caller's volume differ afterwards (NaN costs replaced by +-inf stay so)",
                          {"params": p, "without_flags": True})


def impl_wire(p, arrs, cv, out):
    nr, nc = p["nr"], p["nc"]
    conf = out["confidence_measure"].data if "confidence_measure" in out.data_vars else np.zeros((nr, nc, 0), np.float32)
    return [wire_array(out["disparity_map"].data), wire_array(cv["cost_volume"].data),
            wire_array(cv["disp_indices"].data), wire_array(conf),
            [[int(v) for v in row] for row in out["validity_mask"].data.tolist()]]


def model_arg(p, arrs, B=0):
    nr, nc = p["nr"], p["nc"]
    conf = arrs["conf"] if arrs["conf"] is not None else np.zeros((nr, nc, 0), np.float32)
    inv = invalid_value(p["invalid"])
    return [p["mx"], B, nr, nc, [q_of_float(d) for d in arrs["disps"]], q_of_float(inv),
            wire_array(arrs["cost"]), wire_array(conf), [[int(v) for v in row] for row in arrs["mask"].tolist()]]


def same(a, b):
    """NaN-aware exact equality of two float arrays (inf included)"""
    return a.shape == b.shape and bool(np.all((a == b) | (np.isnan(a) & np.isnan(b))))


# ------------------------------------------------------------------ property oracle (independent of the model)


def oracle_check(ctx, p, arrs, cv, out):
    """the property sentence, checked on the real outputs; returns number of violations recorded"""
    cost, disps = arrs["cost"], arrs["disps"]
    disp = out["disparity_map"].data
    inv = invalid_value(p["invalid"])
    comp = ~np.isnan(cost)
    anyc = comp.any(axis=2)
    with np.errstate(all="ignore"):
        import warnings  # pylint: disable=import-outside-toplevel
        with warnings.catch_warnings():
            warnings.simplefilter("ignore")
            ext = np.nanmax(cost, axis=2) if p["mx"] else np.nanmin(cost, axis=2)
    cand = comp & (cost == ext[..., None])
    idx = cand.argmax(axis=2)
    want = np.where(anyc, disps[idx], inv).astype(np.float64)
    got = disp.astype(np.float64)
    bad = ~((got == want) | (np.isnan(got) & np.isnan(want)))
    n = 0
    replay = {"params": p}
    if bad.any():
        r, c = [int(v) for v in np.argwhere(bad)[0]]
        costs = cost[r, c].tolist()
        has_sub = bool(np.any(cost[r, c] == (-np.inf if p["mx"] else np.inf)))
        if has_sub:
            # outside the stated domain (ASSUMES: the volume contains the infinity that to_disp substitutes for NaN);
            # modelled, compared with the code, shown by the witness C03_subst_inf_witness, reported as an observation
            ctx.count("obs_pixels_departing_because_cost_equals_substituted_infinity", int(bad.sum()))
            if "obs_example_substituted_infinity" not in ctx.stats:
                ctx.stats["obs_example_substituted_infinity"] = {
                    "type": "max" if p["mx"] else "min", "costs": [repr(x) for x in costs], "disps": disps.tolist(),
                    "to_disp": repr(float(got[r, c])), "least_index_among_extrema_of_non_nan_costs": repr(float(want[r, c]))}
            only_sub = bad & ~np.any(cost == (-np.inf if p["mx"] else np.inf), axis=2)
            if only_sub.any():
                r, c = [int(v) for v in np.argwhere(only_sub)[0]]
                has_sub = False
                costs = cost[r, c].tolist()
        if not has_sub:
            key = "wta_invalid_pixel" if not anyc[r, c] else "wta_not_best"
            ctx.violation(key, f"pixel ({r},{c}) of a {p['nr']}x{p['nc']}x{p['nd']} {'max' if p['mx'] else 'min'}-type volume: "
                               f"costs {costs} over disparities {disps.tolist()}, invalid_disparity {p['invalid']}: "
                               f"to_disp gives {got[r, c]}, the property requires {want[r, c]}",
                          dict(replay, pixel=[r, c], costs=[repr(x) for x in costs], got=repr(got[r, c]), want=repr(want[r, c])))
            n += 1
    # one of the sampled disparities
    if anyc.any() and not np.isin(got[anyc], disps).all():
        ctx.violation("wta_not_a_sample", "a pixel with a computable cost received a value that is not a sampled disparity", replay)
        n += 1
    # inside the pixel's interval when costs outside it are NaN
    if arrs["lo"] is not None and anyc.any():
        inside = (got >= arrs["lo"]) & (got <= arrs["hi"])
        if not inside[anyc].all():
            r, c = [int(v) for v in np.argwhere(anyc & ~inside)[0]]
            ctx.violation("wta_outside_interval", f"pixel ({r},{c}): disparity {got[r, c]} outside its interval "
                                                  f"[{arrs['lo'][r, c]}, {arrs['hi'][r, c]}]", dict(replay, pixel=[r, c]))
            n += 1
    # the cost volume, bands and flags are left / carried over unaltered
    if not same(cv["cost_volume"].data, cost) or cv["cost_volume"].data.dtype != cost.dtype:
        ctx.violation("wta_cv_changed", "the cost volume values differ after to_disp", replay)
        n += 1
    if not np.array_equal(out["validity_mask"].data, arrs["mask"]) or not np.array_equal(cv["validity_mask"].data, arrs["mask"]) \
            or out["validity_mask"].data.dtype != arrs["mask"].dtype:
        ctx.violation("wta_flags_changed", "validity mask not carried over unaltered", replay)
        n += 1
    if arrs["conf"] is not None:
        if "confidence_measure" not in out.data_vars or not same(out["confidence_measure"].data, arrs["conf"]) \
                or not same(cv["confidence_measure"].data, arrs["conf"]) \
                or list(out.coords["indicator"].data) != list(cv.coords["indicator"].data):
            ctx.violation("wta_bands_changed", "confidence bands not carried over unaltered", replay)
            n += 1
    elif "confidence_measure" in out.data_vars:
        ctx.violation("wta_bands_changed", "a confidence band appeared", replay)
        n += 1
    return n


def crop_check(ctx, p, arrs, out, rng):
    """impl-vs-impl: the same pixels placed elsewhere relative to the 100-pixel blocks"""
    nr, nc = p["nr"], p["nc"]
    if nr * nc < 4:
        return
    r0 = rng.randrange(0, max(1, min(nr - 1, 120)))
    c0 = rng.randrange(0, max(1, min(nc - 1, 120)))
    r1 = rng.randrange(r0 + 1, nr + 1)
    c1 = rng.randrange(c0 + 1, nc + 1)
    sub = dict(arrs)
    sub["cost"] = arrs["cost"][r0:r1, c0:c1].copy()
    sub["mask"] = arrs["mask"][r0:r1, c0:c1].copy()
    sub["conf"] = None if arrs["conf"] is None else arrs["conf"][r0:r1, c0:c1].copy()
    q = dict(p, nr=r1 - r0, nc=c1 - c0)
    _, o2 = run_impl(q, sub)
    ctx.count("crop_runs")
    if not same(o2["disparity_map"].data, out["disparity_map"].data[r0:r1, c0:c1]):
        ctx.violation("wta_block_dependent", f"to_disp on the crop rows {r0}:{r1}, cols {c0}:{c1} differs from the crop of "
                                             f"to_disp on the whole {nr}x{nc} volume", {"params": p, "crop": [r0, r1, c0, c1]})


# ------------------------------------------------------------------ storage sharing (generated list vs the real datasets)


def generated_shares():
    """the list g_to_disp_shares of coq/Gen/WtaFns.v"""
    import re  # pylint: disable=import-outside-toplevel
    path = os.path.join(core.COQ, "Gen", "WtaFns.v")
    try:
        text = open(path).read()
    except OSError:
        return None
    m = re.search(r"Definition g_to_disp_shares : list share :=\s*\[(.*?)\]\.", text, re.S)
    if not m:
        return None
    return sorted(set(re.findall(r'\("([^"]*)"%string, "([^"]*)"%string\)', m.group(1))))


def impl_shares(cv, out):
    """pairs (variable of disp_map, variable of cv) whose arrays share memory after the real to_disp"""
    pairs = []
    cvv = {k: cv[k].data for k in cv.data_vars}
    cvv["coord:disp"] = cv.coords["disp"].data
    for a in out.data_vars:
        for b, arr in cvv.items():
            if np.shares_memory(out[a].data, arr):
                pairs.append((a, b))
    if out.attrs is cv.attrs:
        pairs.append(("attrs", "attrs"))
    return sorted(pairs)


def shares_check(ctx, p, cv, out, gen):
    if gen is None:
        return
    want = [x for x in gen if "confidence_measure" in cv.data_vars or "confidence_measure" not in x]
    got = impl_shares(cv, out)
    ctx.count("storage_sharing_checked")
    if got != want:
        ctx.mismatch("to_disp_storage_sharing", {"params": p}, {"shares_memory": got}, {"g_to_disp_shares": want})


# ------------------------------------------------------------------ main


def run(ctx):
    rng = ctx.rng
    quick = ctx.tier == "quick"
    model = core.Model("x03")
    cases = []
    if getattr(ctx, "replay_case", None) is None or ctx.replay_case.get("without_flags"):
        state = rng.getstate()
        failed_step_stream(ctx, random.Random(rng.randrange(1 << 30)), 6 if quick else 60)
        rng.setstate(state)
    if getattr(ctx, "replay_case", None) is not None:
        cases = [] if ctx.replay_case.get("without_flags") else [ctx.replay_case["params"]]
    else:
        n_main = 48 if quick else 1500
        for i in range(n_main):
            cases.append(gen_params(rng, quick, i))
        for _ in range(8 if quick else 100):
            cases.append(gen_inf_params(rng))
        deep = gen_params(rng, quick, 0)
        deep.update({"nr": 1, "nc": 1, "nd": 32800, "deep": True, "interval": False, "nan_ratio": 0.0, "ties": 0.0,
                     "dstep": 1, "quarter": False, "inf": False, "nind": 0})
        cases.append(deep)
        if not quick:
            # all shape pairs around the block boundaries with 2 disparities
            for a in list(range(98, 103)) + list(range(198, 203)):
                for b in list(range(98, 103)) + list(range(198, 203)):
                    q = gen_params(rng, quick, 0)
                    q.update({"nr": a, "nc": b, "nd": 2, "interval": False})
                    cases.append(q)
    ctx.stats["shapes"] = {}
    gen_sh = generated_shares()
    if gen_sh is None:
        ctx.broken_obligation("gen_wta_fns:g_to_disp_shares", "coq/Gen/WtaFns.v or its list g_to_disp_shares is missing")
    batch = []
    CH = 12
    for start in range(0, len(cases), CH):
        chunk = cases[start:start + CH]
        built = []
        margs = []
        for p in chunk:
            arrs = build_case(p)
            cv, out = run_impl(p, arrs)
            ctx.traces += 1
            built.append((p, arrs, cv, out))
            margs.append((1, model_arg(p, arrs)))
            npix = p["nr"] * p["nc"]
            if npix <= 3500 or getattr(ctx, "replay_case", None) is not None:
                inv = invalid_value(p["invalid"])
                margs.append((2, [p["mx"], [q_of_float(d) for d in arrs["disps"]], q_of_float(inv),
                                  wire_array(arrs["cost"].reshape(npix, p["nd"]))]))
        mres = model.batch(margs)
        k = 0
        for p, arrs, cv, out in built:
            mr = mres[k]
            k += 1
            npix = p["nr"] * p["nc"]
            key = None
            if npix >= 2 and not np.isnan(arrs["cost"]).all():
                key = (p["nr"], p["nc"], p["nd"], p["mx"], str(p["invalid"]), p["nan_ratio"], p["seed"])
            ctx.case(key)
            ctx.count("cases_inf" if p["inf"] else "cases_main")
            ctx.count("type_max" if p["mx"] else "type_min")
            ctx.count("invalid_" + str(p["invalid"]))
            ctx.count("nan_ratio_%d" % int(100 * p["nan_ratio"]))
            ctx.count("pixels", npix)
            ctx.count("pixels_without_computable_cost", int((np.isnan(arrs["cost"]).all(axis=2)).sum()))
            with np.errstate(all="ignore"):
                import warnings  # pylint: disable=import-outside-toplevel
                with warnings.catch_warnings():
                    warnings.simplefilter("ignore")
                    e = np.nanmax(arrs["cost"], axis=2) if p["mx"] else np.nanmin(arrs["cost"], axis=2)
            ctx.count("pixels_with_tied_extremum", int(((arrs["cost"] == e[..., None]).sum(axis=2) >= 2).sum()))
            if p["interval"]:
                ctx.count("cases_interval_masked")
            sk = f"{p['nr']}x{p['nc']}"
            ctx.stats["shapes"][sk] = ctx.stats["shapes"].get(sk, 0) + 1
            if p["nr"] * p["nc"] > 10000:
                ctx.sample({"shape": [p["nr"], p["nc"], p["nd"]], "type": "max" if p["mx"] else "min",
                            "invalid": p["invalid"], "nan_ratio": p["nan_ratio"], "seed": p["seed"],
                            "pixel_0_0": {"costs": [repr(float(x)) for x in arrs["cost"][0, 0]],
                                          "disps": arrs["disps"].tolist(),
                                          "disparity": repr(float(out["disparity_map"].data[0, 0]))}})
            # correspondence (exact)
            iw = impl_wire(p, arrs, cv, out)
            if iw != mr:
                which = [n for n, a, b in zip(["disparity_map", "cost_volume", "disp_indices", "confidence", "mask"], iw, mr)
                         if a != b]
                det_i, det_m = None, None
                if "disparity_map" in which:
                    for r in range(p["nr"]):
                        if iw[0][r] != mr[0][r]:
                            c = [j for j in range(p["nc"]) if iw[0][r][j] != mr[0][r][j]][0]
                            det_i = {"pixel": [r, c], "disp": iw[0][r][c], "costs": [repr(float(x)) for x in arrs["cost"][r, c]]}
                            det_m = {"pixel": [r, c], "disp": mr[0][r][c]}
                            break
                ctx.mismatch("to_disp", {"params": p, "differs": which}, det_i, det_m)
            # spec check 1: Coq Spec wta_pixel on the real output
            if npix <= 3500 or getattr(ctx, "replay_case", None) is not None:
                sp = mres[k]
                k += 1
                got = [x for row in iw[0] for x in row]
                ctx.count("pixels_checked_by_extracted_spec", npix)
                if got != sp:
                    subv = -np.inf if p["mx"] else np.inf
                    flat = arrs["cost"].reshape(npix, p["nd"])
                    diff = [i for i in range(npix) if got[i] != sp[i]]
                    real = [i for i in diff if not np.any(flat[i] == subv)]
                    ctx.count("obs_extracted_spec_departs_on_substituted_infinity", len(diff) - len(real))
                    if real:
                        j = real[0]
                        r, c = divmod(j, p["nc"])
                        ctx.violation("wta_not_best", f"pixel ({r},{c}): to_disp gives {got[j]}, Spec.wta_pixel gives {sp[j]} "
                                                      f"for costs {flat[j].tolist()}", {"params": p, "pixel": [r, c]})
            # spec check 2: independent oracle of the whole property sentence
            oracle_check(ctx, p, arrs, cv, out)
            # the storage the translator says is shared / fresh, on the real datasets
            shares_check(ctx, p, cv, out, gen_sh)
            # spec check 3: crop metamorphic
            if not p["inf"] and (rng.random() < (0.5 if quick else 0.3)):
                crop_check(ctx, p, arrs, out, rng)
    ctx.gen_obligations = ["1 <= Gen.Constants.wta_argmin_block /\\ 1 <= Gen.Constants.wta_argmax_block (vm_compute; the "
                           "theorems are instantiated at these constants in Props/C03.v)",
                           "skeleton_wf Gen.BlockLoops.argmin_split = true /\\ skeleton_wf Gen.BlockLoops.argmax_split = true /\\ "
                           "wta_skeleton_ok false/true (offsets from 0, np.zeros output, arg-min/arg-max of the inner chunk) /\\ "
                           "sk_B = Gen.Constants.wta_argmin_block / wta_argmax_block (C03_block_loop_skeleton, vm_compute on the "
                           "skeleton translator/gen_block_loops.py reads in disparity.py with ast; fail closed)",
                           "generated to_disp = model: for every cost volume dataset (cv_rep), code_to_disp = g_to_disp over "
                           "skel_block_loop3 of the generated skeletons gives the model's disparity map, cost volume afterwards "
                           "and disp_indices, no numpy / xarray error, bands / flags / attrs / coords the same arrays "
                           "(C03_gen_to_disp_is_model; Gen/WtaFns.v regenerated by translator/gen_wta_fns.py, ast, fail closed); "
                           "C03_gen_wta_eq_spec / _invalid_when_no_cost / _cv_unchanged / _carries_flags_and_bands / "
                           "_block_independent restate C03 on the generated function",
                           "forallb (fresh_in Gen.WtaFns.g_to_disp_shares) [disparity_map; validity_mask; disparity_interval] = true "
                           "(C03_gen_result_storage_fresh, vm_compute on the storage-sharing list the translator derives)"]
