"""C06 -- refinement moves a disparity by at most half a sample, never for the worse.

T-gen : Gen/RefineConsts.v (PANDORA_MSK_PIXEL_INVALID, ..._STOPPED_INTERPOLATION) regenerated from
        pandora.constants; obligation consts_wf re-proved by vm_compute on every run.
        Gen/RefineKernels.v (translator/gen_refine_kernels.py, Python `ast`, fail closed): the bodies of
        Vfit.refinement_method, Quadratic.refinement_method and of the (row, col) loop nest of
        AbstractRefinement.loop_refinement as direct Gallina terms over the float semantics of Lib/FloatQ.v
        (option Q, NaN = None, ZeroDivisionError, int() truncation, Python index wrap-around); obligations
        C06_gen_vfit_eq / C06_gen_quadratic_eq / C06_gen_pixel_eq (Proofs/RefineGenP.v): the regenerated kernels
        are equivalent to the hand-written model for ALL inputs, re-proved on every run against the text the
        code has now; the headline theorems are restated on the generated definitions (C06_gen_*).  An edit of
        the three kernels that changes what is computed breaks one of these (or the translator refuses the
        shape) whether or not the correspondence sample meets a distinguishing input.
T-corr: the extracted model (Model/Refine.v: vfit, quadratic, loop_pixel, refine_steps, approx_pixel)
        against the REAL compiled kernels, always through the public entry points
        AbstractRefinement(**cfg).subpixel_refinement(cv, disp) / approximate_subpixel_refinement:
        synthetic volumes (one designed cost triple + disparity + mask per pixel), sequences of
        refinement steps on the same volume, the exhaustive domain {0..4,NaN}^3 x {on,off grid} x
        {min,max} x {vfit,quadratic}.
        Plus FULL LEGAL PIPELINES through the real state machine (pandora.run on small image pairs:
        matching_cost [sad|ssd|zncc, subpix 1|2], disparity, then any mix of median / bilateral filter,
        interpolating cross-checking validation and 1-4 refinement steps): every execution of
        refinement_run is intercepted, the state it received (cost volume, disparity map, mask; left and,
        with cross_checking_accurate, right) is given to the model and to the oracle, and the invariant
        the theorems assume of reachable states (valid pixel => finite disparity inside [dmin, dmax], one
        cost per sample) is checked on it.
Spec  : an independent Python oracle of the property clauses (closed forms of the user guide, exact
        Fractions) applied to the real outputs of every single step."""
import math
from fractions import Fraction as F

import numpy as np
import xarray as xr

from harness import core

GEN = ["gen_refine_consts", "gen_refine_kernels"]
EXTRACT_FILES = ["X06"]
DRIVERS = ["x06"]
RULE = ("a case is one pixel of one call of subpixel_refinement (or approximate_subpixel_refinement): a cost row whose "
        "triple around the pixel's sample is drawn from 14 classes (float32 costs around 2^24 with near ties, strict extremum, flat, equal-left/right, symmetric, "
        "NaN at 0/1/2/both, monotone up/down, centre worst, random), a disparity from 7 classes (inside sample, on "
        "dmin, on dmax, off-grid k/8, off-grid within one sample of dmin / of dmax, invalid_disparity), a mask from "
        "valid-with-information-bits (incl. bit 3 from an earlier step) or every invalid bit; method in {vfit, "
        "quadratic} x measure in {min,max} x subpix in {1,2,4}; 1-3 refinement steps on the same volume. Non-trivial: "
        "the pixel is valid and its centre cost is a number (the per-pixel guard is reached). Distinct by (method(s), "
        "measure, subpix, sample index relative to the ends, off-grid fraction, cost triple, mask). Pipeline cases: every "
        "pixel of every state a real legal pipeline (sad|ssd|zncc, subpix 1|2, median/bilateral filters, interpolating "
        "cross-checking, 1-4 refinement steps, masks, per-pixel disparity grids) hands to refinement_run, left and right maps; same non-triviality "
        "rule, distinct by (method, measure, subpix, sample index, off-grid fraction, triple, mask).")
ASSUMES = [
    "costs and disparities are exact rationals in the model; the kernels compute in float64 and store the disparity in "
    "float32: values are compared with core.close (bridging rule b), decisions (stopped / refined, flags, unchanged) "
    "exactly; generators use integer costs and disparities that are multiples of 1/8 so no decision is within rounding",
    "reachable states are over-approximated by the invariant pixel_ok: a valid pixel carries a finite disparity inside "
    "[dmin, dmax] (any rational, on or off the sampling grid) and the cost row has one cost per sample; the check "
    "verifies it on every state a real pipeline hands to refinement_run; int(NaN) and reads beyond the disparity axis "
    "are explicit POut outcomes of the model and the totality theorems prove they are not reached under the invariant",
    "'its sample sits on an end of the interval' is read as: less than one whole sample between the received disparity "
    "and dmin or dmax (for a disparity that is a sample: d = dmin or d = dmax, theorem C06_near_end_on_grid); the pixel's "
    "sample is the one at or just below the received disparity; a valid pixel whose sample has a NaN cost (not one of "
    "the property's three cases) must be left unchanged, which is what the code does",
    "the pixel's disparity interval is the disparity range of the cost volume; with per-pixel disparity grids the "
    "narrower interval of a pixel is seen by the kernel only as NaN costs (clause 'a neighbouring cost is NaN')",
    "numba semantics modelled, validated by the correspondence on every run: index -1 wraps around, no bounds check, "
    "uint16 mask updated in place with |=, int() truncates",
    "loop_approximate_refinement (not called by any pipeline of this version) is modelled and compared on integer right "
    "disparities only; no theorem is stated about it",
    "each pixel is independent of the others (prange write sets are the subject of C18)",
    "T-gen covers the two refinement_method bodies, the pixel body of loop_refinement and the shape of its call in "
    "subpixel_refinement (argument order, d_min/d_max = first/last disparity); float literals are read as the decimal "
    "they denote (1.0e-15 = 1/10^15), float rounding and the float32 store of the disparity are outside the generated "
    "terms as they are outside the model; loop_approximate_refinement is not translated",
]
TRUSTED = ["Gen/RefineConsts.v produced by translator/gen_refine_consts.py from the imported pandora.constants",
           "Gen/RefineKernels.v produced by translator/gen_refine_kernels.py (ast of pandora/refinement/vfit.py, quadratic.py, "
           "refinement.py) and the semantics it targets: coq/Lib/FloatQ.v (exact rational arithmetic with NaN, comparisons "
           "with NaN false, x/0 raises, Python min/max, int() truncates) and Model.Refine.read (index wrap-around, no "
           "bounds check)"]

METHODS = ["vfit", "quadratic"]
MEASURES = ["min", "max"]
INVALID_BITS = [0, 1, 6, 7, 8, 9]
INFO_BITS = [2, 4, 5, 10, 11]
STOPPED = 8
INVALID = 0b01111000011
TRIPLES = ["strict", "strict", "strict", "flat", "eq_left", "eq_right", "sym", "nan0", "nan2", "nan1", "nan02",
           "mono_up", "mono_down", "worst", "random", "random", "large", "large"]
DISPS = ["inside", "inside", "inside", "inside", "dmin", "dmax", "offgrid", "offgrid", "near_dmin", "near_dmax",
         "invalid", "invalid"]


# ------------------------------------------------------------------ case generation


def gen_triple(rng, cls):
    """triple for a 'min' measure (mirrored by the caller for 'max'); None = NaN"""
    lo = rng.randrange(0, 40)
    a, b = rng.randrange(1, 20), rng.randrange(1, 20)
    if cls == "strict":
        return [lo + a, lo, lo + b]
    if cls == "flat":
        return [lo, lo, lo]
    if cls == "eq_left":
        return [lo, lo, lo + b]
    if cls == "eq_right":
        return [lo + a, lo, lo]
    if cls == "sym":
        return [lo + a, lo, lo + a]
    if cls == "nan0":
        return [None, lo, lo + b]
    if cls == "nan2":
        return [lo + a, lo, None]
    if cls == "nan1":
        return [lo + a, None, lo + b]
    if cls == "nan02":
        return [None, lo, None]
    if cls == "mono_up":
        return [lo, lo + a, lo + a + b]
    if cls == "mono_down":
        return [lo + a + b, lo + a, lo]
    if cls == "worst":
        return [lo, lo + a, lo + rng.randrange(0, a + 1)]
    if cls == "large":
        # float32 costs at the level of ssd on 12..16-bit radiometry (2^24: consecutive float32 are 2 apart), near ties
        lo = 2 ** 24 + 2 * rng.randrange(0, 8)
        return [lo + 2 * rng.randrange(0, 4), lo, lo + 2 * rng.randrange(0, 4)]
    return [rng.randrange(0, 60), rng.randrange(0, 60), rng.randrange(0, 60)]


def gen_pixel(rng, measure, s, dmin, dmax, dcls=None, tcls=None):
    """-> dict(cv=[int|None]*nd, disp=Fraction|None, mask=int, dcls, tcls)"""
    nd = (dmax - dmin) * s + 1
    dcls = dcls or rng.choice(DISPS)
    tcls = tcls or rng.choice(TRIPLES)
    row = [None if rng.random() < 0.06 else rng.randrange(0, 60) for _ in range(nd)]
    mask = 0
    for b in INFO_BITS:
        if rng.random() < 0.12:
            mask |= 1 << b
    if rng.random() < 0.15:
        mask |= STOPPED  # left by an earlier refinement step
    eighths = 8 * (dmax - dmin)
    if dcls == "inside":
        k = rng.randrange(1, nd - 1)
        d = dmin + F(k, s)
    elif dcls == "dmin":
        k, d = 0, F(dmin)
    elif dcls == "dmax":
        k, d = nd - 1, F(dmax)
    elif dcls == "near_dmin":
        j = rng.choice([j for j in range(1, 8) if (j * s) % 8 != 0 and j * s < 8])
        d = dmin + F(j, 8)
        k = 0
    elif dcls == "near_dmax":
        j = rng.choice([j for j in range(1, 8) if (j * s) % 8 != 0 and j * s < 8])
        d = dmax - F(j, 8)
        k = math.floor((d - dmin) * s)
    elif dcls == "offgrid":
        j = rng.choice([j for j in range(1, eighths) if (j * s) % 8 != 0])
        d = dmin + F(j, 8)
        k = math.floor((d - dmin) * s)
    else:  # invalid pixel: any disparity, also invalid_disparity values outside the interval and NaN
        k = rng.randrange(0, nd)
        d = rng.choice([dmin + F(k, s), F(-9999), None, dmin + F(rng.randrange(0, eighths + 1), 8)])
        mask |= 1 << rng.choice(INVALID_BITS)
        if rng.random() < 0.3:
            mask |= 1 << rng.choice(INVALID_BITS)
    tri = gen_triple(rng, tcls)
    if measure == "max":
        tri = [None if c is None else (2 ** 25 if tcls == "large" else 60) - c for c in tri]
    for off, c in zip((-1, 0, 1), tri):
        i = k + off
        if i == -1:
            i = nd - 1  # where Python's wrap-around would read
        if 0 <= i < nd:
            row[i] = c
    return {"cv": row, "disp": d, "mask": mask, "dcls": dcls, "tcls": tcls}


def gen_image(rng, npix):
    s = rng.choice([1, 1, 2, 4])
    dmin = rng.randrange(-3, 2)
    dmax = dmin + rng.choice([2, 3, 4] if s < 4 else [2, 3])
    measure = rng.choice(MEASURES)
    r = rng.random()
    if r < 0.6:
        methods = [rng.choice(METHODS)]
    elif r < 0.9:
        methods = [rng.choice(METHODS), rng.choice(METHODS)]
    else:
        methods = [rng.choice(METHODS) for _ in range(3)]
    px = [gen_pixel(rng, measure, s, dmin, dmax) for _ in range(npix)]
    return {"methods": methods, "measure": measure, "subpix": s, "dmin": dmin, "dmax": dmax, "pixels": px}


def exhaustive_images():
    """{0..4,NaN}^3 x {on-grid, off-grid} x {min,max} x {vfit,quadratic}; interval [-2,2], subpix 1, sample 0"""
    vals = [0, 1, 2, 3, 4, None]
    out = []
    for method in METHODS:
        for measure in MEASURES:
            px = []
            for c0 in vals:
                for c1 in vals:
                    for c2 in vals:
                        for d in (F(0), F(1, 8)):
                            px.append({"cv": [7, c0, c1, c2, 9], "disp": d, "mask": 0,
                                       "dcls": "inside" if d == 0 else "offgrid", "tcls": "exhaustive"})
            out.append({"methods": [method], "measure": measure, "subpix": 1, "dmin": -2, "dmax": 2, "pixels": px})
    return out


def corpus_images():
    """the witnesses of the defects seen in this property (DESIGN section 4), replayed on every run"""
    return [
        # D3: pixel on dmin / dmax, refinement twice
        {"methods": ["vfit", "vfit"], "measure": "min", "subpix": 1, "dmin": -2, "dmax": 2, "pixels": [
            {"cv": [1, 2, 3, 4, 5], "disp": F(-2), "mask": 0, "dcls": "dmin", "tcls": "corpus"},
            {"cv": [5, 4, 3, 2, 1], "disp": F(2), "mask": 0, "dcls": "dmax", "tcls": "corpus"},
            {"cv": [5, 4, 3, 4, 5], "disp": F(1), "mask": 0, "dcls": "inside", "tcls": "corpus"}]},
        # D4: flat triple under quadratic (costs [5,2,2,2,7], disparity 0 as left by a median filter)
        {"methods": ["quadratic"], "measure": "min", "subpix": 1, "dmin": -2, "dmax": 2, "pixels": [
            {"cv": [5, 2, 2, 2, 7], "disp": F(0), "mask": 0, "dcls": "inside", "tcls": "corpus"}]},
        {"methods": ["quadratic"], "measure": "max", "subpix": 2, "dmin": 0, "dmax": 2, "pixels": [
            {"cv": [1, 3, 3, 3, 0], "disp": F(1), "mask": 4, "dcls": "inside", "tcls": "corpus"}]},
        # D13: off-grid disparity within one sample of dmin: index -1 reads the cost of dmax
        {"methods": ["vfit"], "measure": "min", "subpix": 1, "dmin": -2, "dmax": 2, "pixels": [
            {"cv": [1, 5, 5, 5, 2], "disp": F(-7, 4), "mask": 0, "dcls": "near_dmin", "tcls": "corpus"}]},
        {"methods": ["quadratic"], "measure": "min", "subpix": 1, "dmin": -2, "dmax": 2, "pixels": [
            {"cv": [1, 5, 5, 5, 2], "disp": F(-7, 4), "mask": 0, "dcls": "near_dmin", "tcls": "corpus"}]},
        # its mirror image: off-grid disparity within half a sample of dmax is pushed above dmax
        {"methods": ["vfit"], "measure": "min", "subpix": 1, "dmin": -2, "dmax": 2, "pixels": [
            {"cv": [9, 9, 5, 1, 2], "disp": F(7, 4), "mask": 0, "dcls": "near_dmax", "tcls": "corpus"}]},
        # and the out-of-range read it leads to at the next step
        {"methods": ["vfit", "vfit"], "measure": "min", "subpix": 1, "dmin": -2, "dmax": 2, "pixels": [
            {"cv": [9, 9, 5, 1, 2], "disp": F(7, 4), "mask": 0, "dcls": "near_dmax", "tcls": "corpus"}]},
    ]


# ------------------------------------------------------------------ the implementation


def shape_of(n):
    """rows x cols with rows*cols >= n, a few rows so that the prange nest is really 2-D"""
    rows = 1 if n < 4 else (2 if n < 12 else (3 if n < 40 else 6))
    cols = -(-n // rows)
    return rows, cols


def build_datasets(img):
    """(cv, disp) as the pipeline hands them to the refinement step (float32 volume and map, uint16 mask,
    disparity coordinates from the real get_disparity_range); padded with invalid pixels to a rectangle"""
    from pandora import matching_cost

    s, dmin, dmax = img["subpix"], img["dmin"], img["dmax"]
    px = img["pixels"]
    n = len(px)
    rows, cols = shape_of(n)
    nd = (dmax - dmin) * s + 1
    cvd = np.full((rows * cols, nd), np.nan, dtype=np.float32)
    dm = np.full(rows * cols, np.nan, dtype=np.float32)
    mk = np.full(rows * cols, 1, dtype=np.uint16)
    for i, p in enumerate(px):
        cvd[i] = [np.nan if c is None else c for c in p["cv"]]
        dm[i] = np.nan if p["disp"] is None else float(p["disp"])
        mk[i] = p["mask"]
    coords = matching_cost.AbstractMatchingCost.get_disparity_range(dmin, dmax, s)
    assert len(coords) == nd
    cv = xr.Dataset({"cost_volume": (["row", "col", "disp"], cvd.reshape(rows, cols, nd))},
                    coords={"row": np.arange(rows), "col": np.arange(cols), "disp": coords})
    cv.attrs["subpixel"] = s
    cv.attrs["type_measure"] = img["measure"]
    cv.attrs["measure"] = "sad" if img["measure"] == "min" else "zncc"
    disp = xr.Dataset({"disparity_map": (["row", "col"], dm.reshape(rows, cols)),
                       "validity_mask": (["row", "col"], mk.reshape(rows, cols))},
                      coords={"row": np.arange(rows), "col": np.arange(cols)})
    return cv, disp


def snapshot(disp, n, with_coeff):
    d = disp["disparity_map"].data.reshape(-1)[:n]
    m = disp["validity_mask"].data.reshape(-1)[:n]
    c = disp["interpolated_coeff"].data.reshape(-1)[:n] if with_coeff else [float("nan")] * n
    return [(float(d[i]), float(c[i]), int(m[i])) for i in range(n)]


def run_impl(img):
    """-> list of per-step results: ('ok', [(disp, coeff, mask)...]) or ('raise', exception class)"""
    from pandora import refinement

    cv, disp = build_datasets(img)
    cv0 = cv["cost_volume"].data.copy()
    n = len(img["pixels"])
    steps = []
    for me in img["methods"]:
        try:
            refinement.AbstractRefinement(**{"refinement_method": me}).subpixel_refinement(cv, disp)
        except BaseException as exc:  # numba raises SystemError/ZeroDivisionError from the parallel region
            if isinstance(exc, KeyboardInterrupt):
                raise
            steps.append(("raise", type(exc).__name__))
            break
        steps.append(("ok", snapshot(disp, n, True)))
    same_cv = np.array_equal(cv0, cv["cost_volume"].data, equal_nan=True)
    return steps, same_cv


# ------------------------------------------------------------------ the model


def enc_q(x):
    return None if x is None else (x if isinstance(x, int) else F(x))


def model_case(img, methods=None):
    methods = img["methods"] if methods is None else methods
    px = [[[enc_q(c) for c in p["cv"]], enc_q(p["disp"]), p["mask"]] for p in img["pixels"]]
    return (2, [[METHODS.index(m) for m in methods], MEASURES.index(img["measure"]), img["dmin"], img["dmax"],
                img["subpix"], px])


def dec_model(r):
    """-> ('ok', [(disp, coeff, mask)]) | ('raise',) | ('out',)"""
    if r[0] == 0:
        return ("ok", [(core.q_of(t[0]), core.q_of(t[1]), t[2]) for t in r[1]])
    return ("raise",) if r[0] == 1 else ("out",)


def same_pixel(impl, mod):
    """impl: (float disp, float coeff, int mask); mod: (Fraction|None, Fraction|None, int)"""
    return core.close(impl[0], mod[0]) and core.close(impl[1], mod[1]) and impl[2] == mod[2]


# ------------------------------------------------------------------ the property oracle (independent of the model)


def fq(x):
    """float -> exact Fraction or None"""
    return None if (x is None or (isinstance(x, float) and math.isnan(x))) else F(x)


def optimum(method, measure, c0, c1, c2):
    """closed forms of the user guide: (shift, cost) of the V / parabola through (-1,c0) (0,c1) (1,c2)"""
    sg = 1 if measure == "min" else -1
    if method == "vfit":
        p = max(sg * c0, sg * c2) - sg * c1          # slope of the steeper side
        if p == 0:
            return F(0), c1
        return sg * (c0 - c2) / (2 * p), c1 - sg * abs(c0 - c2) / 2
    a = (c0 - 2 * c1 + c2) / 2
    b = (c2 - c0) / 2
    if a == 0:
        return F(0), c1
    return -b / (2 * a), c1 - b * b / (4 * a)


TOL = F(1, 2 ** 18)


def near(f, q):
    return f is not None and q is not None and abs(f - q) <= max(TOL, abs(q) * TOL)


def pixel_class(img, p, before, clause=None):
    """structural class of a pixel input (used as the key of a violation)"""
    s, dmin, dmax = img["subpix"], img["dmin"], img["dmax"]
    d, _, mask = before
    if mask & INVALID:
        return "invalid_pixel"
    if clause == "other_bits" and mask & STOPPED:
        return "bit3_already_set"
    dq = fq(d)
    if dq is None:
        return "valid_pixel_nan_disparity"
    x = (dq - dmin) * s
    on_grid = x.denominator == 1
    if not on_grid and (x < 1 or (dmax - dq) * s < 1):
        return "offgrid_within_one_sample_of_" + ("dmin" if x < 1 else "dmax")
    if dq < dmin or dq > dmax:
        return "disparity_outside_interval"
    if mask & STOPPED:
        return "bit3_already_set"
    k = math.floor(x)
    if 1 <= k <= len(p["cv"]) - 2:
        c0, c1, c2 = p["cv"][k - 1], p["cv"][k], p["cv"][k + 1]
        if c0 is not None and c0 == c1 == c2:
            return "flat_triple"
    return "ongrid" if on_grid else "offgrid"


def oracle_pixel(img, method, p, before, after):
    """property clauses on one pixel of one real step. before/after: (float disp, float coeff, int mask).
    -> list of (clause, text)"""
    s, dmin, dmax, measure = img["subpix"], img["dmin"], img["dmax"], img["measure"]
    d0, _, m0 = before
    d1, k1, m1 = after
    bad = []
    same_d = (d0 == d1) or (math.isnan(d0) and math.isnan(d1))
    if m0 & INVALID:
        if not (same_d and m1 == m0):
            bad.append(("invalid_untouched", f"invalid pixel (mask {m0}) changed: disparity {d0} -> {d1}, mask -> {m1}"))
        return bad
    dq = fq(d0)
    if dq is None or dq < dmin or dq > dmax:
        return bad  # outside the reachable states: the property says nothing (C04/C09 exclude them)
    x = (dq - dmin) * s
    k = math.floor(x)
    cv = p["cv"]
    nd = len(cv)
    c1 = cv[k]
    if c1 is None:
        # NaN centre of a valid pixel: outside the three cases of the property; must at least be left alone
        if not (same_d and m1 == m0):
            bad.append(("nan_centre_untouched", f"valid pixel with NaN centre cost changed: {d0}->{d1}, mask {m0}->{m1}"))
        return bad
    near_end = x < 1 or (dmax - dq) * s < 1          # its sample (below or above) sits on an end of the interval
    c0 = cv[k - 1] if k >= 1 else None
    c2 = cv[k + 1] if k + 1 < nd else None
    sg = 1 if measure == "min" else -1
    stop = near_end or c0 is None or c2 is None or sg * c1 > sg * c0 or sg * c1 > sg * c2
    d1q, k1q = fq(d1), fq(k1)
    if (m1 & ~STOPPED) != (m0 & ~STOPPED):
        bad.append(("other_bits", f"mask {m0} -> {m1}: a bit other than bit 3 changed"))
    if d1q is None or d1q < dmin or d1q > dmax:
        bad.append(("interval", f"disparity {d0} -> {d1} leaves [{dmin}, {dmax}]"))
    if d1q is not None and abs(d1q - dq) > F(1, 2 * s) + TOL:
        bad.append(("half_sample", f"disparity {d0} -> {d1} moves by more than 0.5/{s}"))
    if stop:
        if not (same_d and (m1 & STOPPED) and near(k1q, F(c1))):
            bad.append(("bit3_iff", f"pixel must stay at {d0} with bit 3 and coefficient {c1} "
                                    f"(near_end={near_end}, triple={[c0, c1, c2]}); got {d1}, mask {m1}, coeff {k1}"))
    else:
        sh, co = optimum(method, measure, F(c0), F(c1), F(c2))
        if (m1 & STOPPED) != (m0 & STOPPED):
            bad.append(("bit3_iff", f"bit 3 changed ({m0} -> {m1}) although the centre {c1} is an extremum of "
                                    f"{[c0, c1, c2]} away from the ends"))
        if not near(d1q, dq + sh / s):
            bad.append(("optimum", f"refined disparity {d1} is not {d0} + ({sh})/{s} for triple {[c0, c1, c2]}"))
        if not near(k1q, co):
            bad.append(("optimum_cost", f"coefficient {k1} is not the fitted cost {co} of {[c0, c1, c2]}"))
        if k1q is not None and sg * k1q > sg * c1 + TOL * max(1, abs(c1)):
            bad.append(("not_worse", f"coefficient {k1} is worse than the sample's cost {c1}"))
    return bad


def single_pixel_img(img, i, before, methods):
    p = dict(img["pixels"][i])
    d = fq(before[0])
    return {"methods": list(methods), "measure": img["measure"], "subpix": img["subpix"], "dmin": img["dmin"],
            "dmax": img["dmax"],
            "pixels": [{"cv": p["cv"], "disp": d, "mask": before[2], "dcls": p.get("dcls"), "tcls": p.get("tcls")}]}


def _jq(c):
    """a cost for a replay file: None | int | {"q": [num, den]}"""
    if c is None or isinstance(c, int):
        return c
    c = F(c)
    return int(c) if c.denominator == 1 else {"q": [c.numerator, c.denominator]}


def _unjq(c):
    return F(c["q"][0], c["q"][1]) if isinstance(c, dict) else c


def to_json(img):
    out = dict(img)
    out["dmin"], out["dmax"] = int(img["dmin"]), int(img["dmax"])
    out["pixels"] = [dict(p, cv=[_jq(c) for c in p["cv"]],
                          disp=None if p["disp"] is None else [F(p["disp"]).numerator, F(p["disp"]).denominator])
                     for p in img["pixels"]]
    return out


def from_json(img):
    out = dict(img)
    out["pixels"] = [dict(p, cv=[_unjq(c) for c in p["cv"]],
                          disp=None if p["disp"] is None else F(p["disp"][0], p["disp"][1])) for p in img["pixels"]]
    return out


# ------------------------------------------------------------------ check of one image (all its steps)


def isolated_step(ctx, img, me, before):
    """run every valid pixel of one step alone (1x1 image) on the real code and apply the oracle there:
    a raise in a worker thread of the parallel kernel is not reliably propagated (the call may return a
    partially processed map), so failures seen in a full image are re-established pixel by pixel.
    -> (number of violations reported, a pixel raises)"""
    n_viol, raised = 0, False
    for i, p in enumerate(img["pixels"]):
        if before[i][2] & INVALID:
            continue
        one = single_pixel_img(img, i, before[i], [me])
        st = run_impl(one)[0][-1]
        cls = pixel_class(img, p, before[i])
        where = (f"{me}/{img['measure']}/subpix {img['subpix']}, interval [{img['dmin']},{img['dmax']}], "
                 f"cv={p['cv']}, disp={before[i][0]}, mask={before[i][2]}")
        if st[0] == "raise":
            raised = True
            n_viol += 1
            ctx.count("oracle_fail_total")
            ctx.violation(f"raises_{me}_{cls}", f"{where}: subpixel_refinement raised {st[1]} (in a larger image the "
                          f"parallel kernel raises SystemError or silently returns a partially refined map)", to_json(one))
            continue
        for clause, text in oracle_pixel(img, me, p, before[i], st[1][0]):
            n_viol += 1
            ctx.count("oracle_fail_" + clause)
            ctx.violation(f"{clause}_{pixel_class(img, p, before[i], clause)}", f"{where}: {text}", to_json(one))
    return n_viol, raised


def check_image(ctx, img, model_res):
    """run the real code on img, diff with the model, apply the oracle to every real step"""
    steps, same_cv = run_impl(img)
    ctx.traces += len(steps)
    n = len(img["pixels"])
    if not same_cv:
        ctx.violation("cost_volume_modified", "the refinement step changed the cost volume", to_json(img))
    mod = dec_model(model_res)
    # --- the oracle, step by step, on the real states
    before = [(float("nan") if p["disp"] is None else float(np.float32(float(p["disp"]))), float("nan"), p["mask"])
              for p in img["pixels"]]
    raised = False
    for st, me in zip(steps, img["methods"]):
        fails = []
        if st[0] == "ok":
            for i in range(n):
                fails += [(i, c, t) for c, t in oracle_pixel(img, me, img["pixels"][i], before[i], st[1][i])]
        if st[0] == "raise" or fails or mod[0] == "raise":
            n_viol, raised = isolated_step(ctx, img, me, before)
            if st[0] == "raise" and not raised:
                ctx.violation(f"raises_{me}_not_isolated", f"subpixel_refinement({me}) raised {st[1]}; no single pixel "
                              f"reproduces it alone", to_json(img))
            if fails and n_viol == 0:
                i, clause, text = fails[0]
                ctx.violation(f"{clause}_only_in_context", f"pixel {i} (cv={img['pixels'][i]['cv']}): {text}; "
                              f"not reproduced when the pixel is alone", to_json(img))
        if raised or st[0] == "raise":
            raised = True
            break
        before = st[1]
    # --- correspondence with the model (the whole sequence, exact chain in the model)
    if mod[0] == "out":
        # the model predicts a read outside the disparity axis (undefined memory): nothing to compare;
        # it is a failure of totality by itself
        ctx.count("model_predicts_out_of_range_read")
        culprit = None
        for i in range(n):
            one = dict(img, pixels=[img["pixels"][i]])
            if dec_model(ctx.model.call(*model_case(one)))[0] == "out":
                culprit = one
                break
        cls = "unknown"
        if culprit:
            p = culprit["pixels"][0]
            cls = pixel_class(img, p, (float("nan") if p["disp"] is None else float(p["disp"]), 0.0, p["mask"]))
        ctx.violation(f"out_of_range_read_{cls}",
                      f"steps {img['methods']}: the kernel reads the cost volume outside the disparity axis "
                      f"(index = number of disparities; numba does no bounds check)" +
                      (f" for pixel cv={culprit['pixels'][0]['cv']} disp={culprit['pixels'][0]['disp']}" if culprit else ""),
                      to_json(culprit or img))
        return
    if mod[0] == "raise" or raised:
        if (mod[0] == "raise") != raised:
            ctx.mismatch("refine_steps", to_json(img), "a pixel raises" if raised else "no pixel raises",
                         "Raise" if mod[0] == "raise" else "no Raise")
        else:
            ctx.count("both_raise")
        return
    last = steps[-1]
    for i in range(n):
        if not same_pixel(last[1][i], mod[1][i]):
            one = dict(img, pixels=[img["pixels"][i]])
            ctx.mismatch("loop_pixel", to_json(one), [str(v) for v in last[1][i]], [str(v) for v in mod[1][i]])


def account(ctx, img):
    for p in img["pixels"]:
        s, dmin = img["subpix"], img["dmin"]
        valid = not p["mask"] & INVALID
        key = None
        if valid and p["disp"] is not None:
            x = (p["disp"] - dmin) * s
            k = math.floor(x)
            nd = len(p["cv"])
            if 0 <= k < nd and p["cv"][k] is not None:
                tri = (p["cv"][k - 1], p["cv"][k], p["cv"][k + 1] if k + 1 < nd else "end")
                pos = "lo" if k == 0 else ("hi" if k == nd - 1 else ("hi-1" if k == nd - 2 else "in"))
                key = (tuple(img["methods"]), img["measure"], s, pos, x - k, tri, p["mask"])
        ctx.case(key)
        ctx.count("disp_" + str(p.get("dcls")))
        ctx.count("triple_" + str(p.get("tcls")))
        ctx.count("pixels_valid" if valid else "pixels_invalid")
    ctx.count(f"images_steps_{len(img['methods'])}")
    ctx.count(f"images_subpix_{img['subpix']}")
    ctx.count("images_" + img["measure"])


# ------------------------------------------------------------------ right map, approximate method


def gen_approx(rng):
    """one image row of the LEFT cost volume and a right disparity map (integer disparities, as the
    approximate method produces them)"""
    s = rng.choice([1, 1, 2])
    dmin = rng.randrange(-3, 0)
    dmax = rng.randrange(1, 3)
    nd = (dmax - dmin) * s + 1
    ncol = rng.randrange(4, 9)
    measure = rng.choice(MEASURES)
    cvs = [[None if rng.random() < 0.08 else rng.randrange(0, 30) for _ in range(nd)] for _ in range(ncol)]
    px = []
    for col in range(ncol):
        mask = 0
        if rng.random() < 0.15:
            mask |= 1 << rng.choice(INVALID_BITS)
        if rng.random() < 0.15:
            mask |= 1 << rng.choice(INFO_BITS)
        if rng.random() < 0.1:
            mask |= STOPPED
        # right disparity d: the match is column col + d of the left volume, at disparity -d
        cands = [d for d in range(-dmax, -dmin + 1) if 0 <= col + d < ncol]
        d = rng.choice(cands)
        px.append([col, F(d), mask])
    return {"method": rng.choice(METHODS), "measure": measure, "subpix": s, "dmin": dmin, "dmax": dmax,
            "cvs": cvs, "pixels": px}


def check_approx(ctx, case, model_res):
    from pandora import matching_cost, refinement

    s, dmin, dmax = case["subpix"], case["dmin"], case["dmax"]
    ncol = len(case["cvs"])
    nd = len(case["cvs"][0])
    cvd = np.array([[np.nan if c is None else c for c in row] for row in case["cvs"]], dtype=np.float32)
    coords = matching_cost.AbstractMatchingCost.get_disparity_range(dmin, dmax, s)
    cv = xr.Dataset({"cost_volume": (["row", "col", "disp"], cvd.reshape(1, ncol, nd))},
                    coords={"row": [0], "col": np.arange(ncol), "disp": coords})
    cv.attrs["subpixel"] = s
    cv.attrs["type_measure"] = case["measure"]
    disp = xr.Dataset({"disparity_map": (["row", "col"], np.array([[float(p[1]) for p in case["pixels"]]], np.float32)),
                       "validity_mask": (["row", "col"], np.array([[p[2] for p in case["pixels"]]], np.uint16))},
                      coords={"row": [0], "col": np.arange(ncol)})
    jcase = dict(case, pixels=[[p[0], [p[1].numerator, p[1].denominator], p[2]] for p in case["pixels"]])
    if any(r[0] == 2 for r in model_res):
        ctx.count("approx_model_out_of_range")
        return
    def real(masks):
        disp["validity_mask"].data[:] = np.array([masks], np.uint16)
        disp["disparity_map"].data[:] = np.array([[float(p[1]) for p in case["pixels"]]], np.float32)
        try:
            out = refinement.AbstractRefinement(**{"refinement_method": case["method"]}).approximate_subpixel_refinement(cv, disp)
            return snapshot(out, ncol, True)
        except BaseException as exc:  # pylint: disable=broad-except
            if isinstance(exc, KeyboardInterrupt):
                raise
            return None

    masks = [p[2] for p in case["pixels"]]
    mraise = [i for i, r in enumerate(model_res) if r[0] == 1]
    ctx.traces += 1
    if mraise:
        # a raise is not reliably propagated from the parallel region: isolate the pixel the model names
        i = mraise[0]
        alone = [m if k == i else 1 for k, m in enumerate(masks)]
        if real(alone) is None:
            ctx.count("approx_both_raise")
            ctx.violation(f"raises_approximate_{case['method']}_flat_triple",
                          f"approximate_subpixel_refinement raised for right pixel {case['pixels'][i]}",
                          dict(jcase, pixels=[[p[0], p[1], a] for p, a in zip(jcase["pixels"], alone)]))
        else:
            ctx.mismatch("approx_pixel", dict(jcase, pixel=i), "no exception", "Raise")
        return
    impl = real(masks)
    if impl is None:
        ctx.mismatch("approx_pixel", jcase, "raised", "no Raise")
        ctx.violation(f"raises_approximate_{case['method']}", "approximate_subpixel_refinement raised", jcase)
        return
    for i, (im, r) in enumerate(zip(impl, model_res)):
        mod = (core.q_of(r[1]), core.q_of(r[2]), r[3])
        ctx.case(("approx", case["method"], case["measure"], s, case["pixels"][i][2], str(mod[0])))
        if not same_pixel(im, mod):
            ctx.mismatch("approx_pixel", dict(jcase, pixel=i), [str(v) for v in im], [str(v) for v in mod])
        # the flag clauses of the property hold for the right map too
        m0 = case["pixels"][i][2]
        if m0 & INVALID:
            if im[2] != m0 or im[0] != float(case["pixels"][i][1]):
                ctx.violation("approx_invalid_untouched", f"invalid right pixel changed (mask {m0} -> {im[2]})", dict(jcase, pixel=i))
        elif (im[2] & ~STOPPED) != (m0 & ~STOPPED):
            ctx.violation("approx_other_bits" + ("_bit3_already_set" if m0 & STOPPED else ""),
                          f"right map: mask {m0} -> {im[2]}: a bit other than bit 3 changed", dict(jcase, pixel=i))


# ------------------------------------------------------------------ full legal pipelines (real state machine)


def gen_pipeline_case(rng):
    """a small stereo pair and a legal pipeline containing 1-4 refinement steps, possibly after filters / an
    interpolating validation / earlier refinement steps"""
    meas = rng.choice(["sad", "sad", "ssd", "zncc"])
    win = rng.choice([1, 3])
    s = rng.choice([1, 1, 2])
    steps = [("matching_cost", {"matching_cost_method": meas, "window_size": win, "subpix": s}),
             ("disparity", {"disparity_method": "wta", "invalid_disparity": rng.choice([-9999, "NaN"])})]
    accurate = rng.random() < 0.35
    tail = []
    for _ in range(rng.randrange(1, 5)):
        tail.append(("refinement", {"refinement_method": rng.choice(METHODS)}))
    for _ in range(rng.randrange(0, 3)):
        f = rng.choice([{"filter_method": "median", "filter_size": 3},
                        {"filter_method": "bilateral", "sigma_color": float(rng.choice([2, 4])), "sigma_space": 1.0}])
        tail.insert(rng.randrange(0, len(tail)), ("filter", f))
    if accurate:
        v = {"validation_method": "cross_checking_accurate", "cross_checking_threshold": float(rng.choice([0, 1]))}
        if rng.random() < 0.7:
            v["interpolated_disparity"] = rng.choice(["mc-cnn", "sgm"])
        tail.insert(rng.randrange(0, len(tail)), ("validation", v))
    steps += tail
    names, seen = [], {}
    for k, c in steps:
        n = seen.get(k, 0)
        seen[k] = n + 1
        names.append([k if n == 0 else f"{k}.{n}", c])
    rows, cols = rng.randrange(7, 10), rng.randrange(10, 14)
    dmin = rng.randrange(-3, 0)
    dmax = dmin + rng.choice([2, 3, 4])
    maxv = rng.choice([6, 12, 40])
    left = [[rng.randrange(0, maxv) for _ in range(cols)] for _ in range(rows)]
    right = [[rng.randrange(0, maxv) for _ in range(cols)] for _ in range(rows)]
    ml = [[1 if rng.random() < 0.04 else 0 for _ in range(cols)] for _ in range(rows)] if rng.random() < 0.5 else None
    mr = [[1 if rng.random() < 0.04 else 0 for _ in range(cols)] for _ in range(rows)] if rng.random() < 0.5 else None
    grids = None
    if rng.random() < 0.35:
        # per-pixel disparity intervals (grids): each pixel's own interval is a sub-interval of [dmin, dmax]
        gmin = [[dmin + rng.randrange(0, 2) for _ in range(cols)] for _ in range(rows)]
        gmax = [[dmax - rng.randrange(0, 2) for _ in range(cols)] for _ in range(rows)]
        gmin[0][0], gmax[0][0] = dmin, dmax
        grids = [gmin, gmax]
    return {"pipeline": names, "left": left, "right": right, "mask_left": ml, "mask_right": mr, "interval": [dmin, dmax],
            "grids": grids}


def corpus_pipelines():
    """the two full pipelines on which D13 was confirmed through the real state machine (before fix cc4b5f5):
    (1) bilateral filter then vfit: pixel (6,4) received -1.5455, read index -1 and went to -2.0455 < dmin = -2;
    (2) vfit three times: pixel (0,6) went 1 -> 1.4167 -> 1.8333 -> 2.25 > dmax = 2 (a fourth step would have read
    the cost volume past its last disparity)"""
    mc = {"matching_cost_method": "sad", "window_size": 1, "subpix": 1}
    wta = {"disparity_method": "wta", "invalid_disparity": -9999}
    return [
        {"pipeline": [["matching_cost", mc], ["disparity", wta],
                      ["filter", {"filter_method": "bilateral", "sigma_color": 4.0, "sigma_space": 1.0}],
                      ["refinement", {"refinement_method": "vfit"}], ["refinement.1", {"refinement_method": "vfit"}]],
         "left": [[10, 2, 6, 4, 4, 4, 10, 11, 1, 2, 2, 3], [11, 10, 6, 0, 4, 9, 7, 1, 0, 5, 4, 8],
                  [4, 3, 0, 10, 8, 2, 1, 4, 11, 10, 1, 11], [6, 6, 9, 5, 6, 9, 2, 6, 2, 9, 9, 0],
                  [8, 9, 6, 8, 9, 5, 2, 1, 1, 8, 7, 6], [10, 8, 10, 9, 2, 11, 10, 0, 9, 4, 0, 10],
                  [8, 9, 10, 4, 4, 5, 6, 1, 8, 11, 11, 9], [5, 4, 4, 6, 7, 11, 0, 8, 8, 1, 10, 10]],
         "right": [[11, 3, 0, 2, 0, 5, 7, 8, 5, 1, 0, 2], [1, 6, 6, 3, 2, 5, 10, 11, 7, 10, 9, 2],
                   [1, 4, 7, 3, 5, 9, 8, 8, 3, 8, 3, 7], [10, 1, 3, 1, 8, 10, 5, 5, 1, 6, 10, 8],
                   [4, 4, 5, 10, 3, 11, 5, 8, 10, 6, 1, 0], [9, 5, 1, 10, 0, 5, 0, 1, 8, 1, 1, 8],
                   [4, 1, 4, 5, 1, 0, 4, 11, 9, 4, 0, 6], [10, 7, 8, 11, 2, 8, 11, 5, 4, 8, 9, 7]],
         "mask_left": None, "mask_right": None, "interval": [-2, 2]},
        {"pipeline": [["matching_cost", mc], ["disparity", wta], ["refinement", {"refinement_method": "vfit"}],
                      ["refinement.1", {"refinement_method": "vfit"}], ["refinement.2", {"refinement_method": "vfit"}],
                      ["refinement.3", {"refinement_method": "vfit"}]],
         "left": [[1, 4, 5, 4, 7, 11, 5, 2, 7], [7, 11, 2, 0, 4, 0, 11, 5, 6], [0, 8, 6, 5, 6, 9, 0, 7, 0],
                  [11, 2, 9, 3, 1, 3, 7, 5, 8]],
         "right": [[5, 8, 4, 7, 1, 9, 11, 5, 4], [0, 6, 1, 3, 5, 8, 9, 5, 2], [5, 4, 11, 8, 1, 4, 10, 5, 4],
                   [2, 1, 10, 2, 11, 11, 4, 7, 2]],
         "mask_left": None, "mask_right": None, "interval": [-2, 2]},
    ]


def run_pipeline(case):
    """pandora.run on the case; -> (snaps, error).  snaps: one entry per execution of subpixel_refinement inside
    refinement_run: (step name, side, method, cost volume, coords, subpix, type_measure, before, after)"""
    import pandora
    from pandora.state_machine import PandoraMachine
    from harness import pandora_util as pu

    itv = tuple(case["interval"])
    if case.get("grids"):
        L = pu.image_dataset(np.array(case["left"], dtype=np.float32), mask=case["mask_left"],
                             grids=(np.array(case["grids"][0]), np.array(case["grids"][1])))
    else:
        L = pu.image_dataset(np.array(case["left"], dtype=np.float32), disp=itv, mask=case["mask_left"])
    R = pu.image_dataset(np.array(case["right"], dtype=np.float32), disp=None, mask=case["mask_right"])
    cfg = {"pipeline": {n: dict(c) for n, c in case["pipeline"]}}
    m = PandoraMachine()
    snaps = []
    orig = m.refinement_run

    def grab(ds, coeff):
        return (ds["disparity_map"].data.copy(), ds["validity_mask"].data.copy(),
                ds["interpolated_coeff"].data.copy() if coeff else None)

    def spy(c, step, _orig=orig):
        sides = [("left", "left_cv", "left_disparity")]
        if m.right_disp_map == "cross_checking_accurate":
            sides.append(("right", "right_cv", "right_disparity"))
        pre = {sd: (getattr(m, cvn)["cost_volume"].data.copy(), grab(getattr(m, dn), False)) for sd, cvn, dn in sides}
        err = None
        try:
            _orig(c, step)
        except BaseException as exc:  # pylint: disable=broad-except
            if isinstance(exc, KeyboardInterrupt):
                raise
            err = type(exc).__name__
        for sd, cvn, dn in sides:
            cvds = getattr(m, cvn)
            snaps.append({"step": step, "side": sd, "method": c["pipeline"][step]["refinement_method"],
                          "cv": pre[sd][0], "coords": cvds.coords["disp"].data.copy(),
                          "subpix": int(cvds.attrs["subpixel"]), "measure": cvds.attrs["type_measure"],
                          "before": pre[sd][1], "after": None if err else grab(getattr(m, dn), True),
                          "cv_after": cvds["cost_volume"].data.copy(), "error": err})
        if err:
            raise RuntimeError("refinement raised " + err)

    m.refinement_run = spy
    try:
        pandora.run(m, L, R, cfg)
    except BaseException as exc:  # pylint: disable=broad-except
        if isinstance(exc, KeyboardInterrupt):
            raise
        return snaps, f"{type(exc).__name__}: {str(exc)[:100]}"
    return snaps, None


def snap_to_img(snap):
    """the state one refinement step received, as an image of the synthetic kind (exact Fractions)"""
    cv = snap["cv"]
    rows, cols, nd = cv.shape
    d0, m0, _ = snap["before"]
    px = []
    for r in range(rows):
        for c in range(cols):
            row = [fq(float(v)) for v in cv[r, c]]
            px.append({"cv": row, "disp": fq(float(d0[r, c])), "mask": int(m0[r, c]), "dcls": "pipeline", "tcls": "pipeline"})
    coords = snap["coords"]
    return {"methods": [snap["method"]], "measure": snap["measure"], "subpix": snap["subpix"],
            "dmin": fq(float(coords[0])), "dmax": fq(float(coords[-1])), "pixels": px}


def check_pipeline(ctx, case):
    names = [n for n, _ in case["pipeline"]]
    snaps, err = run_pipeline(case)
    ctx.traces += 1
    ctx.count("pipelines_run")
    if err is not None:
        ctx.count("pipelines_raised")
        ctx.violation("pipeline_raises", f"legal pipeline {names} raised {err}", case)
    imgs = []
    for snap in snaps:
        img = snap_to_img(snap)
        n = len(img["pixels"])
        s, dmin, dmax = img["subpix"], img["dmin"], img["dmax"]
        where = f"pipeline {names}, step {snap['step']} ({snap['side']} map)"
        ctx.count("pipeline_refinement_steps")
        ctx.count("pipeline_steps_" + snap["side"])
        # --- the invariant the theorems assume of reachable states
        nd = snap["cv"].shape[2]
        if dmin.denominator != 1 or dmax.denominator != 1 or nd != (dmax - dmin) * s + 1:
            ctx.violation("invariant_cost_row_does_not_fit", f"{where}: {nd} costs for [{dmin},{dmax}] subpix {s}", case)
            continue
        img["dmin"], img["dmax"] = int(dmin), int(dmax)
        offgrid = 0
        for i, p in enumerate(img["pixels"]):
            if p["mask"] & INVALID:
                continue
            d = p["disp"]
            if d is None or d < dmin or d > dmax:
                ctx.violation("invariant_valid_pixel_outside_interval",
                              f"{where}: valid pixel {i} (mask {p['mask']}) carries disparity {d} outside [{dmin},{dmax}]", case)
            elif ((d - dmin) * s).denominator != 1:
                offgrid += 1
        ctx.count("pipeline_valid_offgrid_pixels", offgrid)
        if not np.array_equal(snap["cv"], snap["cv_after"], equal_nan=True):
            ctx.violation("cost_volume_modified", f"{where}: the refinement step changed the cost volume", case)
        if snap["after"] is None:
            continue
        imgs.append((img, snap, where))
    if not imgs:
        return
    mres = ctx.model.batch([model_case(img) for img, _, _ in imgs])
    for (img, snap, where), mr in zip(imgs, mres):
        n = len(img["pixels"])
        mod = dec_model(mr)
        d0, m0, _ = snap["before"]
        d1, m1, c1 = snap["after"]
        before = [(float(d0.reshape(-1)[i]), float("nan"), int(m0.reshape(-1)[i])) for i in range(n)]
        after = [(float(d1.reshape(-1)[i]), float(c1.reshape(-1)[i]), int(m1.reshape(-1)[i])) for i in range(n)]
        for i, p in enumerate(img["pixels"]):
            valid = not p["mask"] & INVALID
            key = None
            if valid and p["disp"] is not None and img["dmin"] <= p["disp"] <= img["dmax"]:
                x = (p["disp"] - img["dmin"]) * img["subpix"]
                k = math.floor(x)
                if p["cv"][k] is not None:
                    key = ("pipe", snap["method"], img["measure"], img["subpix"], k, x - k,
                           tuple(p["cv"][max(0, k - 1):k + 2]), p["mask"])
            ctx.case(key)
            for clause, text in oracle_pixel(img, snap["method"], p, before[i], after[i]):
                ctx.count("oracle_fail_" + clause)
                one = single_pixel_img(img, i, before[i], [snap["method"]])
                ctx.violation(f"{clause}_{pixel_class(img, p, before[i], clause)}",
                              f"{where}, pixel {i}: {text}", to_json(one))
            # "stays inside the PIXEL's disparity interval" with per-pixel grids (left map): a pixel that received a
            # sample of its own interval must end inside its own interval (theorem C06_pixel_moved_costed + NaN costs
            # outside the pixel's interval)
            if case.get("grids") and snap["side"] == "left" and valid and p["disp"] is not None:
                cols = len(case["left"][0])
                lo, hi = case["grids"][0][i // cols][i % cols], case["grids"][1][i // cols][i % cols]
                on_grid = ((p["disp"] - img["dmin"]) * img["subpix"]).denominator == 1
                if on_grid and lo <= p["disp"] <= hi:
                    ctx.count("pixel_grid_interval_checked")
                    a = fq(after[i][0])
                    if a is None or a < lo or a > hi:
                        ctx.count("oracle_fail_pixel_interval")
                        ctx.violation("pixel_interval_ongrid", f"{where}, pixel {i} with own interval [{lo},{hi}]: sample "
                                      f"{p['disp']} refined to {after[i][0]}, outside its interval", case)
        if mod[0] != "ok":
            ctx.mismatch("pipeline_refine_step", {"where": where, "case": case}, "returned", mod[0])
            continue
        for i in range(n):
            if not same_pixel(after[i], mod[1][i]):
                one = single_pixel_img(img, i, before[i], [snap["method"]])
                ctx.mismatch("pipeline_loop_pixel", to_json(one), [str(v) for v in after[i]], [str(v) for v in mod[1][i]])


# ------------------------------------------------------------------ entry point


def run(ctx):
    rng = ctx.rng
    ctx.model = core.Model("x06")
    quick = ctx.tier == "quick"

    if getattr(ctx, "replay_case", None) is not None:
        rc = ctx.replay_case
        if "pipeline" in rc:
            images, approx = [], []
        elif "cvs" in rc:
            images = []
            approx = [dict(rc, pixels=[[p[0], F(p[1][0], p[1][1]), p[2]] for p in rc["pixels"]])]
            approx[0].pop("pixel", None)
        else:
            images = [from_json(rc)]
            approx = []
    else:
        images = corpus_images() + exhaustive_images()
        ctx.stats["corpus_images"] = len(corpus_images())
        ctx.stats["exhaustive_pixels"] = sum(len(i["pixels"]) for i in exhaustive_images())
        n_img = 60 if quick else 1200
        for _ in range(n_img):
            images.append(gen_image(rng, 50))
        # every (disparity class x triple class x method x measure x subpix) at least once, single step
        for me in METHODS:
            for measure in MEASURES:
                for s in (1, 2, 4):
                    dmin = rng.randrange(-3, 1)
                    dmax = dmin + 3
                    px = [gen_pixel(rng, measure, s, dmin, dmax, dcls, tcls)
                          for dcls in sorted(set(DISPS)) for tcls in sorted(set(TRIPLES))]
                    images.append({"methods": [me], "measure": measure, "subpix": s, "dmin": dmin, "dmax": dmax,
                                   "pixels": px})
        approx = [gen_approx(rng) for _ in range(60 if quick else 1200)]

    mres = ctx.model.batch([model_case(img) for img in images])
    for img, mr in zip(images, mres):
        account(ctx, img)
        check_image(ctx, img, mr)
    for img in images[len(corpus_images()):][:3]:
        p = img["pixels"][0]
        ctx.sample({"methods": img["methods"], "measure": img["measure"], "subpix": img["subpix"],
                    "interval": [img["dmin"], img["dmax"]], "cv": p["cv"], "disp": str(p["disp"]), "mask": p["mask"]})

    if getattr(ctx, "replay_case", None) is not None and "pipeline" in ctx.replay_case:
        pcases = [ctx.replay_case]
    elif getattr(ctx, "replay_case", None) is not None:
        pcases = []
    else:
        pcases = corpus_pipelines() + [gen_pipeline_case(rng) for _ in range(24 if quick else 400)]
    for pc in pcases:
        check_pipeline(ctx, pc)
    ctx.stats["pipelines"] = len(pcases)

    if approx:
        ares = ctx.model.batch([(3, [METHODS.index(c["method"]), MEASURES.index(c["measure"]), c["dmin"], c["dmax"],
                                     c["subpix"], c["cvs"], c["pixels"]]) for c in approx])
        for c, r in zip(approx, ares):
            check_approx(ctx, c, r)
        ctx.stats["approx_rows"] = len(approx)

    ctx.gen_obligations = [
        "consts_wf (mkK Gen.RefineConsts.msk_invalid Gen.RefineConsts.msk_stopped) = true (vm_compute)",
        "C06_gen_vfit_eq: forall m oc0 c1 oc2 d, Gen.RefineKernels.vfit K oc0 (Some c1) oc2 d m ~ Model.Refine.vfit K m oc0 c1 oc2 "
        "(Proofs/RefineGenP.v gen_vfit_eq, re-proved against the regenerated text of Vfit.refinement_method)",
        "C06_gen_quadratic_eq: forall m oc0 c1 oc2 d, Gen.RefineKernels.quadratic K oc0 (Some c1) oc2 d m ~ "
        "Model.Refine.quadratic K m oc0 c1 oc2 (gen_quadratic_eq, regenerated text of Quadratic.refinement_method)",
        "C06_gen_pixel_eq: forall me m dmin dmax s cv disp mask, 0 < s -> Gen.RefineKernels.loop_pixel (called with the "
        "generated method) ~ Model.Refine.loop_pixel (gen_loop_pixel_eq, regenerated text of the pixel body of "
        "AbstractRefinement.loop_refinement)",
    ]
