"""C14 -- occlusion/mismatch filling touches only flagged pixels, fills from valid ones.

T-gen : Gen/ValConst.v (pandora/constants.py) re-checked equal to the model's constants; Gen/Callbacks.v
        (ast of PandoraMachine.validation_run) re-checked equal to the call structure of validation_interp_run;
        Gen/InterpKernels.v (ast of the four numba kernels, of find_valid_neighbors and of the two
        interpolated_disparity methods: pixel bodies and call plans as Gallina) re-proved equal, on every pixel of
        every map, to the pixel functions of Model/Interp.v (Proofs/InterpGenP.v), the headline theorems restated
        on the generated definitions (C14_gen_*).
T-corr: Model/Interp.v (extracted, fid 1) against the real
        validation.AbstractInterpolation(interpolated_disparity=m).interpolated_disparity(ds)
        (compiled numba kernels, public entry point), exact comparison of the disparity map
        and of the validity mask after the call, both methods.
Spec  : the property sentence as a short independent Python oracle on the outputs of the
        REAL code (failing-input search): untouched pixels, flag swaps, filled value finite
        and inside the range of valid disparities, something valid in sight, border."""
import hashlib
import itertools
import json
import os
from fractions import Fraction

import numpy as np
import xarray as xr

from harness import core
from harness import pandora_util as pu

GEN = ["gen_valconst", "gen_callbacks", "gen_interp_kernels"]
EXTRACT_FILES = ["X14"]
DRIVERS = ["x14"]
RULE = ("a case = a disparity map (1..7 x 1..9, values k/4, invalid_disparity -9999 or NaN) + a validity mask laid "
        "out over {valid, invalid, occluded (8), mismatched (9)} (+ informational bits) + a method (mc-cnn, sgm) + "
        "offset 0/1.  Layout classes: none_valid, one_valid, one_path, borders, mixed, sparse, tall, wide, "
        "refill (flagged pixels already carrying bit 4/5), exhaustive 2x3 and 1x5 over the four states.  A case is "
        "non-trivial when at least one flagged pixel is filled and at least one pixel stays unchanged; distinct by "
        "content digest.  Second stream: PandoraMachine.validation_run (cross_checking_accurate + interpolated_disparity) "
        "on left/right disparity datasets generated as for C07 (1..6 x 1..14, thresholds 0..2, offsets 0..3), "
        "non-trivial when some mask changes between cross-check and final")
ASSUMES = [
    "numba/numpy primitives used by the kernels (np.argmax of booleans, np.nanmedian, np.argsort with NaN last and "
    "insertion sort below 15 elements, int() truncation, Python index wrap-around / slice clipping, uint16 += / -= / "
    "|=, float32 buffers holding the float32 disparities exactly) are hand-modelled (Model/Interp.v list functions, "
    "Model/InterpPrims.v) and validated by this correspondence on every run; how the kernels combine them is "
    "regenerated from the source (Gen/InterpKernels.v)",
    "each kernel iteration writes only its own pixel of the output copies and reads only the input arrays: checked "
    "on the source by translator/gen_interp_kernels.py (outputs touched only as out_x[col, row], no store into the "
    "inputs, loop nest and np.copy prelude as expected), the kernel = per-pixel function glue (kernel_disp / "
    "kernel_val) is hand-written",
    "valid pixels hold finite disparities (NaN only on invalid pixels) for the value-range theorem "
    "(C14_filled_between_min_max_valid, hypothesis valid_range)",
    "no pixel carries bit 8 and bit 9 together (hypothesis never_both of the clause theorems and of "
    "C14_sgm_meets_spec): established by the cross-check (C14_cross_check_never_both) and preserved by the "
    "interpolation (C14_never_both_preserved); on such a pixel sgm's `-= 512; += 256` carries "
    "(C14_sgm_both_bits_carry)",
    "border pixels hold bit 0 only when the interpolation starts (C07_xcheck_border_bit0): cases with other "
    "states on the border are used for the correspondence only",
]
TRUSTED = ["Gen/ValConst.v produced by translator/gen_valconst.py from the imported pandora.constants",
           "Gen/Callbacks.v produced by translator/gen_callbacks.py from the ast of state_machine.py",
           "Gen/InterpKernels.v produced by translator/gen_interp_kernels.py from the ast of interpolated_disparity.py "
           "and img_tools.py (statement-by-statement translation, fail closed), read with the semantics of "
           "Model/InterpPrims.v and Lib/FloatQ.v"]

INV = 0b01111000011
OCC, MIS, FOCC, FMIS = 256, 512, 16, 32
DIRS8 = [(0, 1), (-1, 1), (-1, 0), (-1, -1), (0, -1), (1, -1), (1, 0), (1, 1)]
DIRS16 = [(0, 2), (-1, 2), (-2, 2), (-2, 1), (-2, 0), (-2, -1), (-2, -2), (-1, -2),
          (0, -2), (1, -2), (2, -2), (2, -1), (2, 0), (2, 1), (2, 2), (1, 2)]   # half units
METHODS = ["mc-cnn", "sgm"]
# VERIF_AS_FOUND=1 compares with the model of the code before the `fix:` commits (fid 3): used once to validate
# that model against the unrepaired tree; the delivered check uses fid 1
MODEL_FID = 3 if os.environ.get("VERIF_AS_FOUND") == "1" else 1


# ---------------------------------------------------------------- generators

def gen_layout(rng, kind):
    """returns (n0, n1, states) with states[r][c] in 'v' valid, 'i' invalid, 'o' occluded, 'm' mismatched"""
    n0, n1 = rng.randrange(1, 8), rng.randrange(1, 10)
    if kind == "tall":
        n0, n1 = rng.randrange(4, 8), rng.randrange(1, 3)
    elif kind == "wide":
        n0, n1 = rng.randrange(1, 3), rng.randrange(5, 10)
    elif kind in ("borders", "one_path"):
        n0, n1 = rng.randrange(3, 8), rng.randrange(3, 10)

    def pick(w):
        return rng.choices("viom", weights=w)[0]
    if kind == "none_valid":
        st = [[pick([0, 2, 3, 3]) for _ in range(n1)] for _ in range(n0)]
    elif kind == "one_valid":
        st = [[pick([0, 2, 3, 3]) for _ in range(n1)] for _ in range(n0)]
        st[rng.randrange(n0)][rng.randrange(n1)] = "v"
    elif kind == "one_path":
        st = [[pick([0, 3, 2, 2]) for _ in range(n1)] for _ in range(n0)]
        r0, c0 = rng.randrange(n0), rng.randrange(n1)
        st[r0][c0] = rng.choice("om")
        dr, dc = rng.choice(DIRS16)
        k = rng.randrange(1, max(n0, n1) + 1)
        r1, c1 = r0 + int(dr * k / 2), c0 + int(dc * k / 2)
        if 0 <= r1 < n0 and 0 <= c1 < n1 and (r1, c1) != (r0, c0):
            st[r1][c1] = "v"
    elif kind == "borders":
        st = [[pick([8, 1, 0, 0]) for _ in range(n1)] for _ in range(n0)]
        for r in range(n0):
            for c in range(n1):
                if (r in (0, n0 - 1) or c in (0, n1 - 1)) and rng.random() < 0.7:
                    st[r][c] = rng.choice("om")
    elif kind == "sparse":
        st = [[pick([1, 3, 4, 4]) for _ in range(n1)] for _ in range(n0)]
    else:  # mixed, tall, wide, refill
        w = rng.choice([[5, 1, 2, 2], [3, 2, 3, 3], [6, 1, 1, 3], [6, 1, 3, 1], [2, 1, 4, 4]])
        st = [[pick(w) for _ in range(n1)] for _ in range(n0)]
    return n0, n1, st


def dress(rng, n0, n1, st, kind, values=None):
    """states -> disparity map (Fractions/None) and mask"""
    invalid_disp = rng.choice([Fraction(-9999), None])
    offset = 1 if (n0 >= 3 and n1 >= 3 and rng.random() < 0.2) else 0
    # a quarter of the offset cases keep arbitrary states on the border (never left by the cross-check: outside the
    # property's domain, used only to tie mc-cnn's final mask_border to the model)
    dirty_border = offset == 1 and rng.random() < 0.25
    disp, mask = [], []
    for r in range(n0):
        drow, mrow = [], []
        for c in range(n1):
            s = st[r][c]
            if offset and (r in (0, n0 - 1) or c in (0, n1 - 1)) and not dirty_border:
                drow.append(invalid_disp)
                mrow.append(1)   # after cross-checking border pixels hold bit 0 only
                continue
            v = Fraction(rng.randrange(-12, 13), 4) if values is None else values[r][c]
            m = 0
            if rng.random() < 0.2:
                m |= rng.choice([4, 8, 1024, 2048, 4 | 2048])
            if s == "v" and rng.random() < 0.15:
                m |= rng.choice([16, 32])      # filled by an earlier validation step: valid
            if s in "om" and kind == "refill" and rng.random() < 0.5:
                m |= rng.choice([16, 32, 48])  # flagged again after having been filled
            if s == "i":
                m |= rng.choice([1, 2, 64, 128, 2 | 64, 1 | 128, 64 | 128])
                v = invalid_disp if rng.random() < 0.85 else v
            elif s == "o":
                m |= OCC
            elif s == "m":
                m |= MIS
            drow.append(v)
            mrow.append(m)
        disp.append(drow)
        mask.append(mrow)
    return {"kind": kind, "n0": n0, "n1": n1, "offset": offset, "disp": disp, "mask": mask}


def exhaustive(rng, n0, n1):
    cells = n0 * n1
    for combo in itertools.product("viom", repeat=cells):
        st = [list(combo[r * n1:(r + 1) * n1]) for r in range(n0)]
        vals = [[Fraction(((r * n1 + c) * 7) % 11 - 5, 4) for c in range(n1)] for r in range(n0)]
        # plain masks, distinct values, no offset
        cs = {"kind": f"exhaustive{n0}x{n1}", "n0": n0, "n1": n1, "offset": 0, "disp": [], "mask": []}
        for r in range(n0):
            cs["disp"].append([Fraction(-9999) if st[r][c] == "i" else vals[r][c] for c in range(n1)])
            cs["mask"].append([{"v": 0, "i": 2, "o": OCC, "m": MIS}[st[r][c]] for c in range(n1)])
        yield cs


def corpus():
    F = Fraction
    bad = F(-9999)
    # D5 (DESIGN.md section 4): 3x3, centre flagged, everything else invalid
    for flag in (MIS, OCC):
        yield {"kind": "corpus-D5", "n0": 3, "n1": 3, "offset": 0,
               "disp": [[bad, bad, bad], [bad, F(5, 4), bad], [bad, bad, bad]],
               "mask": [[2, 2, 2], [2, flag, 2], [2, 2, 2]]}
    # a single valid neighbour (sgm occlusion needs two)
    yield {"kind": "corpus-D5", "n0": 3, "n1": 3, "offset": 0,
           "disp": [[bad, bad, bad], [F(2), F(5, 4), bad], [bad, bad, bad]],
           "mask": [[2, 2, 2], [0, OCC, 2], [2, 2, 2]]}
    # unfinished path in a column: the zero of np.zeros enters the median (mc-cnn mismatch as found)
    yield {"kind": "corpus-D5", "n0": 4, "n1": 1, "offset": 0,
           "disp": [[F(3)], [F(1)], [bad], [bad]], "mask": [[0], [MIS], [2], [2]]}
    yield {"kind": "corpus-D5", "n0": 1, "n1": 1, "offset": 0, "disp": [[F(1)]], "mask": [[MIS]]}
    # refill: a pixel already filled once (bit 4) is flagged occlusion again
    yield {"kind": "corpus-refill", "n0": 1, "n1": 3, "offset": 0,
           "disp": [[F(1), F(2), F(3)]], "mask": [[0, OCC | FOCC, 0]]}


def case_to_json(cs):
    out = dict(cs)
    out["disp"] = [[None if v is None else [v.numerator, v.denominator] for v in row] for row in cs["disp"]]
    return out


def case_from_json(js):
    out = dict(js)
    out["disp"] = [[None if v is None else Fraction(v[0], v[1]) for v in row] for row in js["disp"]]
    return out


# ---------------------------------------------------------------- real code

def run_impl(cs, method):
    from pandora import validation

    disp = np.array([[np.nan if v is None else float(v) for v in row] for row in cs["disp"]], dtype=np.float32)
    mask = np.array(cs["mask"], dtype=np.uint16)
    n0, n1 = disp.shape
    ds = xr.Dataset({"disparity_map": (["row", "col"], disp), "validity_mask": (["row", "col"], mask)},
                    coords={"row": np.arange(n0), "col": np.arange(n1)})
    ds.attrs["offset_row_col"] = cs["offset"]
    interp = validation.AbstractInterpolation(**{"validation_method": "cross_checking_accurate",
                                                 "interpolated_disparity": method})
    interp.interpolated_disparity(ds)
    d = [[core.to_q(v) if np.isfinite(v) else (None if np.isnan(v) else "inf") for v in row]
         for row in ds["disparity_map"].data]
    m = ds["validity_mask"].data.astype(int).tolist()
    return d, m


# ---------------------------------------------------------------- the property on the outputs of the real code

def rays(method_kernel, n0, n1, r, c):
    """pixels along each documented scan direction from (r, c), nearest first, up to the image edge"""
    out = []
    if method_kernel == "mc_cnn_occlusion":
        out.append([(r, k) for k in range(c - 1, -1, -1)])
        out.append([(r, k) for k in range(c + 1, n1)])
        return out
    dirs = DIRS16 if method_kernel == "mc_cnn_mismatch" else [(2 * a, 2 * b) for a, b in DIRS8]
    for dr, dc in dirs:
        ray = []
        i = 1
        while True:
            rr, cc = r + int(dr * i / 2), c + int(dc * i / 2)   # int(): towards zero
            if not (0 <= rr < n0 and 0 <= cc < n1):
                break
            if (rr, cc) != (r, c) and (not ray or ray[-1] != (rr, cc)):
                ray.append((rr, cc))
            i += 1
        out.append(ray)
    return out


# ---- Spec/Interp.v transcribed (paths as positions, first valid pixel, median, second lowest |d|): the outputs the
# Spec allows for a case; written from the Spec, not from the kernels (directions as (drow, dcol), rays followed
# until they leave the map, two passes, each from the map before the pass)
DIRS8_RC = [(1, 0), (1, -1), (0, -1), (-1, -1), (-1, 0), (-1, 1), (0, 1), (1, 1)]
DIRS16_RC = [(2, 0), (2, -1), (2, -2), (1, -2), (0, -2), (-1, -2), (-2, -2), (-2, -1),
             (-2, 0), (-2, 1), (-2, 2), (-1, 2), (0, 2), (1, 2), (2, 2), (2, 1)]


def _quot2(x):
    return x // 2 if x >= 0 else -((-x) // 2)


def _swapped(a, b, m):
    return (m & ~(1 << a)) | (1 << b)


def _first_valid(path, n0, n1, mask):
    i = 1
    while True:
        r, c = path(i)
        if not (0 <= r < n0 and 0 <= c < n1):
            return None
        if (mask[r][c] & INV) == 0:
            return (r, c)
        i += 1


def _contributions(kind, dirs, n0, n1, d, m, r, c):
    out = []
    for dr, dc in dirs:
        if kind == "half":
            p = _first_valid(lambda i: (r + _quot2(dr * i), c + _quot2(dc * i)), n0, n1, m)
        else:
            p = _first_valid(lambda i: (r + dr * i, c + dc * i), n0, n1, m)
        out.append(None if p is None else d[p[0]][p[1]])
    return [x for x in out if x is not None]


def _median(fin):
    s = sorted(fin)
    n = len(s)
    return (s[n // 2 - 1] + s[n // 2]) / 2 if n % 2 == 0 else s[n // 2]


def spec_outputs(cs, method):
    """(allowed disparities per pixel: a set, mask per pixel) according to Spec/Interp.v; None when the case is
    outside the Spec's domain (a pixel carrying both bits 8 and 9)"""
    n0, n1, off = cs["n0"], cs["n1"], cs["offset"]
    d0, m0 = cs["disp"], cs["mask"]
    if any((m0[r][c] & OCC) and (m0[r][c] & MIS) for r in range(n0) for c in range(n1)):
        return None
    if off > 0 and any(m0[r][c] != 1 for r in range(n0) for c in range(n1)
                       if r < off or r >= n0 - off or c < off or c >= n1 - off):
        return None   # the cross-check leaves bit 0 only on the border
    d1 = [row[:] for row in d0]
    m1 = [row[:] for row in m0]
    if method == "mc-cnn":
        for r in range(n0):
            for c in range(n1):
                if m0[r][c] & OCC:
                    p = _first_valid(lambda i: (r, c - i), n0, n1, m0) or _first_valid(lambda i: (r, c + i), n0, n1, m0)
                    if p is not None:
                        d1[r][c], m1[r][c] = d0[p[0]][p[1]], _swapped(8, 4, m0[r][c])
        d2 = [[{v} for v in row] for row in d1]
        m2 = [row[:] for row in m1]
        for r in range(n0):
            for c in range(n1):
                if m1[r][c] & MIS:
                    fin = _contributions("half", DIRS16_RC, n0, n1, d1, m1, r, c)
                    if fin:
                        d2[r][c], m2[r][c] = {_median(fin)}, _swapped(9, 5, m1[r][c])
                if off > 0 and (r < off or r >= n0 - off or c < off or c >= n1 - off):
                    m2[r][c] = 1
        return d2, m2
    for r in range(n0):
        for c in range(n1):
            if m0[r][c] & MIS:
                touches = any(m0[rr][cc] & OCC for rr in range(max(0, r - 1), min(n0 - 1, r + 1) + 1)
                              for cc in range(max(0, c - 1), min(n1 - 1, c + 1) + 1))
                if touches:
                    m1[r][c] = _swapped(9, 8, m0[r][c])
                else:
                    fin = _contributions("straight", DIRS8_RC, n0, n1, d0, m0, r, c)
                    if fin:
                        d1[r][c], m1[r][c] = _median(fin), _swapped(9, 5, m0[r][c])
    d2 = [[{v} for v in row] for row in d1]
    m2 = [row[:] for row in m1]
    for r in range(n0):
        for c in range(n1):
            if m1[r][c] & OCC:
                fin = _contributions("straight", DIRS8_RC, n0, n1, d1, m1, r, c)
                if len(fin) >= 2:
                    second = sorted(abs(x) for x in fin)[1]
                    d2[r][c], m2[r][c] = {x for x in fin if abs(x) == second}, _swapped(8, 4, m1[r][c])
    return d2, m2


def check_property(ctx, cs, method, d1, m1):
    spec = spec_outputs(cs, method)
    if spec is not None:
        sd, sm = spec
        for r in range(cs["n0"]):
            for c in range(cs["n1"]):
                if m1[r][c] != sm[r][c] or d1[r][c] not in sd[r][c]:
                    ctx.violation("not_as_spec_" + method.replace("-", "_"),
                                  f"{method}, map {cs['n0']}x{cs['n1']}: pixel ({r},{c}) mask {cs['mask'][r][c]} "
                                  f"disparity {cs['disp'][r][c]} ends with mask {m1[r][c]} disparity {d1[r][c]}; "
                                  f"Spec/Interp.v allows mask {sm[r][c]} disparity in "
                                  f"{sorted(map(str, sd[r][c]))}",
                                  {"case": case_to_json(cs), "method": method})
                    break
            else:
                continue
            break
    else:
        return 0, 0   # outside the property's domain: correspondence only
    n0, n1, off = cs["n0"], cs["n1"], cs["offset"]
    d0, m0 = cs["disp"], cs["mask"]
    replay = {"case": case_to_json(cs), "method": method}
    valid_vals = [d0[r][c] for r in range(n0) for c in range(n1) if (m0[r][c] & INV) == 0 and d0[r][c] is not None]
    lo, hi = (min(valid_vals), max(valid_vals)) if valid_vals else (None, None)
    n_filled = n_kept = 0

    def viol(key, what):
        ctx.violation(key, f"{method}, map {n0}x{n1}: " + what, replay)

    def earlier_filled(r, c):
        """filled by the first kernel of the method (the second kernel takes such a pixel for a valid one)"""
        if method == "mc-cnn":
            return (m0[r][c] & OCC) != 0 and (m1[r][c] & OCC) == 0
        return (m0[r][c] & MIS) != 0 and (m1[r][c] & (MIS | OCC)) == 0 and (m1[r][c] & FMIS) != 0

    for r in range(n0):
        for c in range(n1):
            a, b = m0[r][c], m1[r][c]
            border = off > 0 and (r < off or r >= n0 - off or c < off or c >= n1 - off)
            if border:
                if b != 1:
                    viol("border_not_bit0", f"border pixel ({r},{c}) ends with mask {b}")
                if d1[r][c] != d0[r][c]:
                    viol("unflagged_pixel_changed", f"border pixel ({r},{c}) disparity {d0[r][c]} -> {d1[r][c]}")
                continue
            if (a & (OCC | MIS)) == 0:
                n_kept += 1
                if b != a or d1[r][c] != d0[r][c]:
                    viol("unflagged_pixel_changed",
                         f"pixel ({r},{c}) without bit 8/9: mask {a} -> {b}, disparity {d0[r][c]} -> {d1[r][c]}")
                continue
            if (a & OCC) and (a & MIS):
                continue  # never produced by the cross-check
            # which kernel is in charge
            if a & OCC:
                kern = "mc_cnn_occlusion" if method == "mc-cnn" else "sgm_occlusion"
                swapped = (a & ~OCC) | FOCC
                converted = None
            else:
                touching = any((m0[rr][cc] & OCC) != 0
                               for rr in range(max(0, r - 1), min(n0 - 1, r + 1) + 1)
                               for cc in range(max(0, c - 1), min(n1 - 1, c + 1) + 1))
                if method == "sgm" and touching:
                    kern, swapped, converted = "sgm_occlusion", (a & ~MIS) | FOCC, (a & ~MIS) | OCC
                else:
                    kern = "mc_cnn_mismatch" if method == "mc-cnn" else "sgm_mismatch"
                    swapped, converted = (a & ~MIS) | FMIS, None
            if b == a or (converted is not None and b == converted):
                # not filled: stays flagged invalid, disparity untouched
                if d1[r][c] != d0[r][c]:
                    viol("unfilled_pixel_disparity_changed", f"pixel ({r},{c}) keeps mask {b} but disparity "
                         f"{d0[r][c]} -> {d1[r][c]}")
                continue
            carry = (kern.endswith("occlusion") and (a & FOCC)) or (kern.endswith("mismatch") and (a & FMIS))
            if b != swapped:
                if carry:
                    viol("refill_carry_filled_bit_already_set",
                         f"pixel ({r},{c}) flagged {a} already carries the filled bit: `+=` gives mask {b} "
                         f"(the filled bit is cleared and the next bit is raised) instead of {swapped}")
                else:
                    viol("wrong_flag_swap", f"pixel ({r},{c}) handled by {kern}: mask {a} -> {b}, expected {swapped}"
                         f"{' or ' + str(converted) if converted is not None else ''} or unchanged")
                continue
            n_filled += 1
            # filled: something valid must be in sight, value finite and inside the valid range
            sight = 0
            for ray in rays(kern, n0, n1, r, c):
                if any((m0[rr][cc] & INV) == 0 or earlier_filled(rr, cc) for rr, cc in ray):
                    sight += 1
            need = 2 if kern == "sgm_occlusion" else 1
            v = d1[r][c]
            if sight < need:
                key = {"mc_cnn_occlusion": "mc_cnn_occlusion_no_valid_in_row",
                       "mc_cnn_mismatch": "mc_cnn_mismatch_no_valid_in_sight",
                       "sgm_occlusion": "sgm_occlusion_lt2_valid_neighbours",
                       "sgm_mismatch": "sgm_mismatch_no_valid_neighbour"}[kern]
                viol(key, f"pixel ({r},{c}) flagged {a} has {sight} scan direction(s) with a valid pixel, yet it is "
                     f"marked filled (mask {b}) with disparity {v}")
            elif v is None or v == "inf" or lo is None or not lo <= v <= hi:
                viol(kern + "_value_outside_valid_range",
                     f"pixel ({r},{c}) filled with {v}; valid disparities of the map span [{lo}, {hi}]")
            elif kern == "mc_cnn_occlusion":
                left = [d0[r][k] for k in range(c - 1, -1, -1) if (m0[r][k] & INV) == 0]
                right = [d0[r][k] for k in range(c + 1, n1) if (m0[r][k] & INV) == 0]
                want = left[0] if left else right[0]
                if v != want:
                    viol("mc_cnn_occlusion_wrong_source", f"pixel ({r},{c}) filled with {v}, first valid pixel to the "
                         f"left (else right) holds {want}")
    return n_filled, n_kept


# ---------------------------------------------------------------- validation_run of the state machine

def run_validation_stream(ctx, model, n_cases):
    """PandoraMachine.validation_run (state_machine.py:462-481) with interpolated_disparity, on left/right
    disparity datasets generated as in C07: (a) exact comparison with the extracted validation_interp_run;
    (b) the property on the real outputs: each final dataset must be what Spec/Interp.v allows from the dataset
    as the real cross-check leaves it (so: both datasets interpolated, after both cross-checks)."""
    from pandora import validation
    from pandora.state_machine import PandoraMachine
    from harness.props import c07

    rng = ctx.rng
    cases = []
    if getattr(ctx, "replay_case", None) is not None:
        cases = [(c07.case_from_json(ctx.replay_case["case"]), ctx.replay_case["method"])]
    else:
        for i in range(n_cases):
            cs = c07.gen_case(rng, rng.choice(["structured", "structured", "half", "tiny", "edge"]))
            cs["thr_is_int"] = False
            cases.append((cs, METHODS[i % 2]))
    margs = []
    for cs, method in cases:
        dmin, dmax = cs["interval"]
        margs.append((5, [c07.enc_ds(cs["L"], cs["maskL"], (dmin, dmax), cs["offset"]),
                          c07.enc_ds(cs["R"], cs["maskR"], (-dmax, -dmin), cs["offset"]), cs["thr"],
                          METHODS.index(method)]))
    mres = model.batch(margs)

    def snap(ds):
        d = [[core.to_q(v) if np.isfinite(v) else (None if np.isnan(v) else "inf") for v in row]
             for row in ds["disparity_map"].data]
        return d, ds["validity_mask"].data.astype(int).tolist()

    shared = PandoraMachine()
    for idx, ((cs, method), mr) in enumerate(zip(cases, mres)):
        if getattr(ctx, "replay_case", None) is not None and ctx.replay_case.get("history"):
            idx = 2
        dmin, dmax = cs["interval"]
        replay = {"stream": "validation_run", "case": c07.case_to_json(cs), "method": method}
        vcfg = {"validation_method": "cross_checking_accurate", "cross_checking_threshold": float(cs["thr"]),
                "interpolated_disparity": method}
        # the real callback; every other case on a machine object with a history (it has checked a pipeline whose
        # validation step fills with the OTHER method, and has run the earlier cases of this kind): the filling is
        # that of the configuration of THIS run
        if idx % 4 >= 2:
            mach = shared
            other = METHODS[1 - METHODS.index(method)]
            mach.check_conf({"pipeline": {
                "matching_cost": {"matching_cost_method": "sad", "window_size": 1, "subpix": 1},
                "disparity": {"disparity_method": "wta", "invalid_disparity": -9999},
                "validation": {"validation_method": "cross_checking_accurate", "interpolated_disparity": other}}},
                pu.meta_dataset(8, 9, (-2, 2)), pu.meta_dataset(8, 9, None))
            ctx.count("validation_run_on_a_machine_with_a_history")
            replay["history"] = "check_conf with interpolated_disparity=%s first" % other
        else:
            mach = PandoraMachine()
        mach.left_disparity = c07.make_ds(cs["L"], cs["maskL"], (dmin, dmax), cs["offset"], cs["nbL"])
        mach.right_disparity = c07.make_ds(cs["R"], cs["maskR"], (-dmax, -dmin), cs["offset"], cs["nbR"])
        mach.right_disp_map = "cross_checking_accurate"
        mach.validation_run({"pipeline": {"validation": dict(vcfg)}}, "validation")
        fl, fr = snap(mach.left_disparity), snap(mach.right_disparity)
        ctx.traces += 1
        ctx.count("validation_run_cases")
        model_out = ([[core.q_of(v) for v in row] for row in mr[0]], mr[1],
                     [[core.q_of(v) for v in row] for row in mr[2]], mr[3])
        if (fl[0], fl[1], fr[0], fr[1]) != model_out:
            ctx.mismatch("validation_run-" + method, replay,
                         {"left": [str(fl[0]), fl[1]], "right": [str(fr[0]), fr[1]]},
                         {"left": [str(model_out[0]), model_out[1]], "right": [str(model_out[2]), model_out[3]]})
        # the property: the real cross-checks alone, then what the Spec allows from there
        val = validation.AbstractValidation(validation_method="cross_checking_accurate",
                                            cross_checking_threshold=float(cs["thr"]))
        left = c07.make_ds(cs["L"], cs["maskL"], (dmin, dmax), cs["offset"], cs["nbL"])
        right = c07.make_ds(cs["R"], cs["maskR"], (-dmax, -dmin), cs["offset"], cs["nbR"])
        left = val.disparity_checking(left, right)
        right = val.disparity_checking(right, left)
        nontrivial = False
        for side, mid_ds, fin in (("left", left, fl), ("right", right, fr)):
            md, mm = snap(mid_ds)
            mid = {"kind": "validation_run", "n0": len(md), "n1": len(md[0]), "offset": cs["offset"], "disp": md,
                   "mask": mm}
            spec = spec_outputs(mid, method)
            if spec is None:
                continue
            sd, sm = spec
            bad = [(r, c) for r in range(mid["n0"]) for c in range(mid["n1"])
                   if fin[1][r][c] != sm[r][c] or fin[0][r][c] not in sd[r][c]]
            if bad:
                r, c = bad[0]
                ctx.violation("validation_run_" + side + "_not_interpolated_as_spec",
                              f"validation_run with interpolated_disparity={method}: {side} dataset, pixel ({r},{c}) "
                              f"holds mask {mm[r][c]} disparity {md[r][c]} after the cross-checks and ends with mask "
                              f"{fin[1][r][c]} disparity {fin[0][r][c]}; Spec/Interp.v allows mask {sm[r][c]} disparity "
                              f"in {sorted(map(str, sd[r][c]))}", replay)
            if any(mm[r][c] != fin[1][r][c] for r in range(mid["n0"]) for c in range(mid["n1"])):
                nontrivial = True
        digest = None
        if nontrivial:
            digest = hashlib.sha1(json.dumps(replay, sort_keys=True).encode()).hexdigest()[:16]
        ctx.case(digest)


# ---------------------------------------------------------------- run

def run(ctx):
    rng = ctx.rng
    quick = ctx.tier == "quick"
    model = core.Model("x14")

    cases = list(corpus())
    n = {"none_valid": 25, "one_valid": 40, "one_path": 60, "borders": 60, "mixed": 200, "sparse": 80, "tall": 50,
         "wide": 50, "refill": 35}
    if not quick:
        n = {k: v * 20 for k, v in n.items()}
    for kind, k in n.items():
        for _ in range(k):
            n0, n1, st = gen_layout(rng, kind)
            cases.append(dress(rng, n0, n1, st, kind))
    ex = list(exhaustive(rng, 2, 3)) + list(exhaustive(rng, 1, 5))
    if quick:
        ex = ex[::6]
    cases += ex
    ctx.stats["exhaustive_cases"] = len(ex)
    ctx.gen_obligations = ["Gen.ValConst constants = Model constants (C14_constants_match, reflexivity on the "
                           "regenerated file)",
                           "Gen.Callbacks validation_run call structure = the one validation_interp_run models "
                           "(C14_validation_run_calls, reflexivity on the regenerated file)",
                           "Gen.InterpKernels.occ_mc_pixel = Model.Interp.occ_mc_pixel on every pixel of every map "
                           "(C14_gen_occ_mc_eq, re-proved on the regenerated file)",
                           "Gen.InterpKernels.mis_mc_pixel = Model.Interp.mis_mc_pixel on every pixel of every map, incl. "
                           "the float direction table = the half-unit table, int() truncation, range(1, max_path_length), "
                           "NaN-initialised buffer, all-NaN guard (C14_gen_mis_mc_eq)",
                           "Gen.InterpKernels.find_valid_neighbors = Model.Interp.find_valid_neighbors, and the direction "
                           "tables of both sgm kernels = dirs8 (C14_gen_fvn_eq)",
                           "Gen.InterpKernels.occ_sgm_pixel = Model.Interp.occ_sgm_pixel, incl. argsort(|v|)[1] and its NaN "
                           "guard (C14_gen_occ_sgm_eq, C14_gen_argsort_second)",
                           "Gen.InterpKernels.mis_sgm_pixel = Model.Interp.mis_sgm_pixel, incl. the 3x3 occlusion test on "
                           "`valid` with clipped slices (C14_gen_mis_sgm_eq)",
                           "Gen.InterpKernels call plans: mc-cnn = occlusion, mismatch, mask_border; sgm = mismatch, "
                           "occlusion (C14_gen_plans); hence ginterp = interp (C14_gen_interp_eq) and the C14_gen_* clauses"]
    if getattr(ctx, "replay_case", None) is not None:
        if ctx.replay_case.get("stream") == "validation_run":
            run_validation_stream(ctx, model, 1)
            return
        cases = [case_from_json(ctx.replay_case["case"])]
    else:
        run_validation_stream(ctx, model, 160 if quick else 4000)

    margs = []
    for cs in cases:
        for mi in range(2):
            margs.append((MODEL_FID, [mi, cs["n0"], cs["n1"], cs["offset"], cs["disp"], cs["mask"]]))
    mres = model.batch(margs)

    for i, cs in enumerate(cases):
        ctx.count("cases_" + cs["kind"].split("-")[0])
        digest = None
        for mi, method in enumerate(METHODS):
            if getattr(ctx, "replay_case", None) is not None and ctx.replay_case.get("method") not in (None, method):
                continue
            d1, m1 = run_impl(cs, method)
            ctx.traces += 1
            md, mm = mres[2 * i + mi]
            md = [[core.q_of(v) for v in row] for row in md]
            if d1 != md or m1 != mm:
                ctx.mismatch("interp-" + method, {"case": case_to_json(cs), "method": method},
                             {"disp": [[None if v is None else str(v) for v in row] for row in d1], "mask": m1},
                             {"disp": [[None if v is None else str(v) for v in row] for row in md], "mask": mm})
            n_filled, n_kept = check_property(ctx, cs, method, d1, m1)
            ctx.count("filled_pixels_" + method, n_filled)
            if n_filled > 0 and n_kept > 0:
                digest = hashlib.sha1(json.dumps(case_to_json(cs), sort_keys=True).encode()).hexdigest()[:16]
            if n_filled > 0 and cs["n0"] <= 3 and cs["n1"] <= 5 and cs["kind"] in ("mixed", "borders", "one_path"):
                ctx.sample({"kind": cs["kind"], "method": method,
                            "disp": [[None if v is None else float(v) for v in row] for row in cs["disp"]],
                            "mask": cs["mask"],
                            "disp_after": [[None if v is None else float(v) for v in row] for row in d1],
                            "mask_after": m1}, limit=6)
        ctx.case(digest)
    ctx.stats["spec_clauses_checked_on_impl"] = [
        "outputs of the real code are among those Spec/Interp.v allows (independent transcription of the Spec: first "
        "valid pixel along each path, median, second lowest |d|, bit swaps, border)",
        "pixels without bit 8/9 keep disparity and mask", "flag swap 8->4 / 9->5 / sgm 9->8->4, or pixel untouched",
        "filled value finite and within [min,max] of the valid disparities", "filled => a valid pixel in sight along "
        "the kernel's directions (two for sgm occlusion)", "mc-cnn occlusion source = first valid left else right",
        "border pixels end with mask 1",
        "PandoraMachine.validation_run: left and right final datasets = what the Spec allows from the datasets as "
        "the real cross-checks leave them"]
