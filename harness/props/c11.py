"""C11 -- cross-based aggregation averages costs over the combined support region.

T-gen : translator/gen_cbca_kernels.py rewrites coq/Gen/CbcaKernels.v from the `ast` of the five numba kernels
        (cbca_step_1..4, cross_support) as trees of the IR of Lib/KernelIR.v; Props/C11.v re-proves at every run
        that they are the canonical trees (C11_gen_*_canonical) for which Proofs/CbcaIRP.v proves, for all inputs,
        evaluation = Model/Cbca.v (C11_gen_*_eq) and the headline on the generated kernels (C11_gen_model_eq_spec).
T-corr (kernels): the IR evaluator extracted with the REGENERATED trees (Extract/X11K.v) against the compiled numba
        kernels called one by one on inputs the pipeline never produces (arbitrary arm tables inside their bounds,
        arbitrary running sums, NaN / +-inf pixels and costs, shuffled range_col, empty axes), compared for equality:
        validates the semantics written in Lib/KernelIR.v and the translator.
T-corr: the extracted model (Model/Cbca.v: mask -> NaN, 3x3 median, shifted right masks, crop,
        cross_support loops, cbca_step_1..4 with their sentinel reads, anchor, NaN re-injection,
        normalisation, plane loop) against the REAL code driven as the state machine drives it:
        matching_cost (sad / census, integer radiometry) -> allocate_cost_volume -> validity_mask ->
        compute_cost_volume -> cv_masked -> AbstractAggregation(cbca).cost_volume_aggregation
        (compiled numba kernels), plus the arms through the public computes_cross_supports.
Spec  : independent brute-force oracle written from the property text (region = vertical arm, then
        horizontal arms of each arm pixel, each arm the shorter of the left arm and the right arm at
        col + d) applied to the REAL aggregated volume."""
import math
from fractions import Fraction as F

import numpy as np

from harness import core
from harness import pandora_util as pu

GEN = ["gen_cbca_kernels"]
EXTRACT_FILES = ["X11", "X11K"]
DRIVERS = ["x11", "x11k"]
RULE = ("one case = one image pair (5..12 x 6..14, integer radiometry, flat / piecewise-constant / ramp / noisy "
        "textures so that arms are long, cut by intensity jumps, by masks or by the image sides), masks on none / "
        "left / right / both sides (pixels, blocks, whole columns; several mask conventions), matching cost sad or "
        "census with window 1/3/5 and subpix 1/2/4, disparity interval inside [-4,4], cbca_distance 1..6, "
        "cbca_intensity 1..40 (multiples of 1/4); every (pixel, disparity) of the aggregated volume is one "
        "evaluation; it is non-trivial when its input cost is not NaN and its support region has >= 2 pixels; "
        "distinct by (shape of the region: arm lengths per arm pixel, number of NaN costs inside, plane kind)")
ASSUMES = [
    "monoband images (cbca.py indexes im as a 2-D array)",
    "images are finite or NaN (no +-inf radiometry); the cost volume holds finite values or NaN (no +-inf): guard of "
    "C11_nan_preserved, guaranteed by the matching costs (C02) and checked on every generated volume",
    "the cost is NaN wherever the right correspondent col + d falls outside the (shifted) right image: guard of "
    "C11_model_eq_spec, guaranteed by the matching costs (C02) and checked on every generated volume",
    "the shifted right images come from img_tools.shift_right_img (scipy zoom, order 1): given to the model as data "
    "(bridging rule c); they are exact multiples of 1/4 on integer radiometry (checked on every case)",
    "the 3x3 median filter is modelled per pixel (its 100-pixel chunking is C10's); the Coq spec takes the filtered "
    "images from the same definition (the Python oracle recomputes the median independently)",
    "float32 accumulation: on the generated domain every running sum is an exact float32 (checked bound), the final "
    "quotient is compared with the bridging tolerance (rule b)",
]
TRUSTED = ["numba's compilation of the kernels: it implements the Python / numpy semantics written once in "
           "Lib/KernelIR.v (negative-index wrap-around, range, break, value of a loop variable after a loop, slices, "
           "IEEE inf / NaN); int16 / int64 / float32 / float64 widths are recorded in the trees but integers and "
           "rationals are exact in the evaluator (int32 arms: C11_gen_arms_fit_int32; exact float sums: checked domain of "
           "the correspondence)",
           "translator/gen_cbca_kernels.py (one ast construct -> one IR constructor; numbering of the variables)",
           "scipy.ndimage.zoom (shifted right images) and np.nanmedian"]
GEN_OBLIGATIONS = [
    "C11_gen_cross_support_canonical: Gen.CbcaKernels.cross_support = Model.CbcaIR.cross_support (eq_refl on the tree "
    "regenerated from cbca.py cross_support: loop headers, break condition, increments, minimum-arm expression, "
    "initial value of the four loop variables, dtypes, numba signature)",
    "C11_gen_step1_canonical: Gen.CbcaKernels.cbca_step_1 = Model.CbcaIR.cbca_step_1 (eq_refl)",
    "C11_gen_step2_canonical: Gen.CbcaKernels.cbca_step_2 = Model.CbcaIR.cbca_step_2 (eq_refl)",
    "C11_gen_step3_canonical: Gen.CbcaKernels.cbca_step_3 = Model.CbcaIR.cbca_step_3 (eq_refl)",
    "C11_gen_step4_canonical: Gen.CbcaKernels.cbca_step_4 = Model.CbcaIR.cbca_step_4 (eq_refl)",
    "C11_gen_cross_support_eq / C11_gen_step1_eq .. C11_gen_step4_eq: forall inputs, run_kernel (generated tree) "
    "succeeds (no access outside an array) and returns Model.cross_support / step1 / step2, sum2 / step3 / step4, sum4 "
    "(Proofs/CbcaIRP.v gen_* instantiated with the generated trees)",
    "C11_gen_model_eq_spec: generated cross_support on both images, the four generated kernels chained as the plane "
    "loop chains them, anchor + NaN re-injection + division = agg_spec, for every image pair, plane and pixel",
    "C11_gen_arms_fit_int32: the arms stored by cross_support fit the int32 cells (cbca_distance <= 2^31 or sides <= 2^31)",
    "C11_gen_example_runs: vm_compute of the evaluator on the generated cross_support (distance-1 witness) and "
    "cbca_step_1 (NaN cost, sentinel read)",
]


# ---------------------------------------------------------------- oracle written from the property text


def o_masked(im, msk, valid):
    return [[None if (msk is not None and msk[r][c] != valid) else im[r][c] for c in range(len(im[0]))]
            for r in range(len(im))]


def o_median3(I):
    """3x3 median over the usable pixels of the window; border pixels and masked pixels untouched"""
    nr, nc = len(I), len(I[0])
    out = [row[:] for row in I]
    for r in range(1, nr - 1):
        for c in range(1, nc - 1):
            if I[r][c] is None:
                continue
            w = sorted(I[r + a][c + b] for a in (-1, 0, 1) for b in (-1, 0, 1) if I[r + a][c + b] is not None)
            n = len(w)
            out[r][c] = w[n // 2] if n % 2 else (w[n // 2 - 1] + w[n // 2]) / 2
    return out


def o_crop(I, off):
    return I if off == 0 else [row[off:len(row) - off] for row in I[off:len(I) - off]]


def o_arm(I, r, c, dr, dc, dist, inten):
    """longest run of pixels from p in direction (dr, dc): closer than dist, inside, not masked, intensity jump
    < inten; one pixel minimum when the neighbour exists and is not masked; a masked pixel has no arm"""
    nr, nc = len(I), len(I[0])
    if not (0 <= r < nr and 0 <= c < nc) or I[r][c] is None:
        return 0

    def ok(j):
        rr, cc = r + j * dr, c + j * dc
        return (j < dist and 0 <= rr < nr and 0 <= cc < nc and I[rr][cc] is not None
                and abs(I[r][c] - I[rr][cc]) < inten)

    k = 0
    while ok(k + 1):
        k += 1
    if k == 0:
        rr, cc = r + dr, c + dc
        if 0 <= rr < nr and 0 <= cc < nc and I[rr][cc] is not None:
            k = 1
    return k


def o_region(IL, IR, r, c, shift, dist, inten):
    """combined support region of pixel (r, c); its correspondent is (r, c + shift) in IR"""
    def comb(rr, dr, dc):
        return min(o_arm(IL, rr, c, dr, dc, dist, inten), o_arm(IR, rr, c + shift, dr, dc, dist, inten))

    top, bot = comb(r, -1, 0), comb(r, 1, 0)
    reg, shape = [], []
    for rr in range(r - top, r + bot + 1):
        le, ri = comb(rr, 0, -1), comb(rr, 0, 1)
        reg += [(rr, cc) for cc in range(c - le, c + ri + 1)]
        shape.append((le, ri))
    return reg, (top, bot, tuple(shape))


# ---------------------------------------------------------------- case generation


def texture(rng, nr, nc, amp, kind=None):
    kind = kind or rng.choice(["noise", "flat", "pieces", "ramp", "smooth"])
    if kind == "noise":
        a = [[rng.randrange(0, amp) for _ in range(nc)] for _ in range(nr)]
    elif kind == "flat":
        v = rng.randrange(0, amp)
        a = [[v + (rng.randrange(0, 3) if rng.random() < 0.2 else 0) for _ in range(nc)] for _ in range(nr)]
    elif kind == "pieces":
        cr, cc = rng.randrange(1, nr), rng.randrange(1, nc)
        q = [rng.randrange(0, amp) for _ in range(4)]
        a = [[q[(r >= cr) * 2 + (c >= cc)] + rng.randrange(0, 2) for c in range(nc)] for r in range(nr)]
    elif kind == "ramp":
        s, t = rng.randrange(0, 6), rng.randrange(0, 6)
        a = [[min(amp - 1, s * c + t * r) for c in range(nc)] for r in range(nr)]
    else:
        base = rng.randrange(0, amp)
        a = [[max(0, min(amp - 1, base + rng.randrange(-3, 4) + c // 3 * rng.choice([0, 1, 4]))) for c in range(nc)]
             for r in range(nr)]
    return a, kind


def gen_mask(rng, nr, nc, codes):
    kind = rng.choice(["none", "none", "pixels", "pixels", "block", "column", "row", "dense"])
    if kind == "none":
        return None, kind
    m = [[0] * nc for _ in range(nr)]
    if kind in ("pixels", "dense"):
        p = 0.07 if kind == "pixels" else 0.3
        for r in range(nr):
            for c in range(nc):
                if rng.random() < p:
                    m[r][c] = rng.choice(codes)
    elif kind == "block":
        r0, c0 = rng.randrange(nr), rng.randrange(nc)
        for r in range(r0, min(nr, r0 + rng.randrange(1, 4))):
            for c in range(c0, min(nc, c0 + rng.randrange(1, 4))):
                m[r][c] = rng.choice(codes)
    elif kind == "column":
        c0 = rng.randrange(nc)
        for r in range(nr):
            m[r][c0] = codes[0]
    else:
        r0 = rng.randrange(nr)
        for c in range(nc):
            m[r0][c] = codes[0]
    return m, kind


def gen_case(rng, force=None):
    force = force or {}
    nr, nc = rng.randrange(5, 13), rng.randrange(6, 15)
    amp = rng.choice([6, 40, 200, 1000])
    left, kl = texture(rng, nr, nc, amp)
    if rng.random() < 0.6:  # right = shifted left + noise: arms of both images interact
        s = rng.randrange(-2, 3)
        right = [[left[r][min(nc - 1, max(0, c - s))] + (rng.randrange(0, 3) if rng.random() < 0.3 else 0)
                  for c in range(nc)] for r in range(nr)]
        kr = "shifted-left"
    else:
        right, kr = texture(rng, nr, nc, amp)
    # the mask convention is the dataset's (attrs valid_pixels / no_data_mask): the valid code need not be the lowest
    valid, nodata, codes = rng.choice([(0, 1, [1, 2, 3]), (0, 1, [1, 2, 3]), (5, 7, [7, 8, 9]), (1, 0, [0, 2, 3]),
                                       (4, 2, [2, 0, 7])])
    m_l, kml = gen_mask(rng, nr, nc, [101, 102, 103])
    m_r, kmr = gen_mask(rng, nr, nc, [101, 102, 103])
    recode = lambda m: [[valid if v == 0 else codes[v - 101] for v in row] for row in m] if m else None
    m_l, m_r = recode(m_l), recode(m_r)
    win = rng.choice([1, 1, 3, 3, 5])
    method = "sad" if win == 1 else rng.choice(["sad", "census"])
    sub = rng.choice([1, 1, 2, 4])
    dmin = rng.randrange(-4, 3)
    dmax = min(4, dmin + rng.randrange(0, 4 if sub < 4 else 3))
    dist = rng.choice([1, 2, 2, 3, 3, 4, 5, 6])
    inten = rng.choice([F(rng.randrange(1, 41)), F(rng.randrange(1, 41)), F(rng.randrange(4, 161), 4)])
    case = dict(nr=nr, nc=nc, left=left, right=right, mask_left=m_l, mask_right=m_r, valid=valid, nodata=nodata,
                method=method, window=win, subpix=sub, dmin=dmin, dmax=dmax, distance=dist,
                intensity=[inten.numerator, inten.denominator],
                kinds=dict(left=kl, right=kr, mask_left=kml, mask_right=kmr))
    force = dict(force)
    if force.pop("edgy_right", False):
        # quarter-pixel planes on both sides of 0 and a right image with intensity edges of its own: the supports of the
        # four shifted right images differ, so every plane depends on WHICH shifted image its arms are read in
        case["right"], kr = texture(rng, nr, nc, 40, rng.choice(["pieces", "noise"]))
        case["kinds"]["right"] = kr
        case["intensity"] = [rng.choice([6, 10, 15]), 1]
    case.update(force)
    return case


def gen_strip_case(rng):
    """a strip longer than the 100-window block of the 3x3 median filter (median_filter works by blocks of 100 x 100
    windows): noisy radiometry, so that the arms depend on every filtered value, columns / rows 99..104 included"""
    short, long_ = rng.randrange(3, 6), rng.randrange(103, 131)
    nr, nc = (short, long_) if rng.random() < 0.6 else (long_, short)
    amp = rng.choice([8, 12])   # differences of filtered values around the intensity threshold below
    left = [[rng.randrange(0, amp) for _ in range(nc)] for _ in range(nr)]
    right = [[left[r][min(nc - 1, c + 1)] + rng.randrange(0, 3) for c in range(nc)] for r in range(nr)]
    m_l, kml = gen_mask(rng, nr, nc, [1, 2, 3]) if rng.random() < 0.4 else (None, "none")
    return dict(nr=nr, nc=nc, left=left, right=right, mask_left=m_l, mask_right=None, valid=0, nodata=1,
                method="sad", window=1, subpix=1, dmin=-1, dmax=0, distance=rng.choice([2, 3, 4]),
                intensity=[rng.choice([2, 3]), 1],
                kinds=dict(left="noise-strip", right="shifted-left", mask_left=kml, mask_right="none"))


# ---------------------------------------------------------------- implementation side


def build_inputs(case):
    from pandora import matching_cost
    from pandora.criteria import validity_mask

    L = pu.image_dataset(case["left"], disp=(case["dmin"], case["dmax"]), mask=case["mask_left"])
    R = pu.image_dataset(case["right"], disp=None, mask=case["mask_right"])
    for ds in (L, R):
        ds.attrs["valid_pixels"] = case["valid"]
        ds.attrs["no_data_mask"] = case["nodata"]
    mc = matching_cost.AbstractMatchingCost(matching_cost_method=case["method"], window_size=case["window"],
                                            subpix=case["subpix"])
    dmin, dmax = L["disparity"].sel(band_disp="min"), L["disparity"].sel(band_disp="max")
    grid = mc.allocate_cost_volume(L, (dmin, dmax))
    grid = validity_mask(L, R, grid)
    cv = mc.compute_cost_volume(L, R, grid)
    mc.cv_masked(L, R, cv, dmin, dmax)
    return L, R, cv


_AGG = {}


def aggregator(case):
    """One aggregation object per (distance, intensity), REUSED by every later case with the same parameters, as an
    API user may do; each new object is first run once on a 3x4 pair (smaller than most distances), so that a
    parameter or buffer that the object keeps from one call to the next shows in the comparison with the
    (stateless) model on the following cases.  Deterministic, hence identical under --replay."""
    from pandora import aggregation

    key = (case["distance"], tuple(case["intensity"]))
    if key not in _AGG:
        agg = aggregation.AbstractAggregation(aggregation_method="cbca", cbca_intensity=float(F(*case["intensity"])),
                                              cbca_distance=case["distance"])
        warm = dict(nr=3, nc=4, left=[[1, 2, 3, 4]] * 3, right=[[1, 2, 3, 4]] * 3, mask_left=None, mask_right=None,
                    valid=0, nodata=1, method="sad", window=1, subpix=1, dmin=0, dmax=0)
        L, R, cv = build_inputs(warm)
        agg.cost_volume_aggregation(L, R, cv)
        _AGG[key] = agg
    return _AGG[key]


def rows_q(a):
    return [[core.to_q(x) for x in row] for row in np.asarray(a).tolist()]


def evaluate(ctx, case, model_out, check_planes):
    """one case: impl run, correspondence with the model output, spec oracle on the impl output"""
    from pandora.img_tools import shift_right_img

    nr, nc, sub, dist = case["nr"], case["nc"], case["subpix"], case["distance"]
    inten = F(*case["intensity"])
    L, R, cv, before, disps, off, shifted = case["_built"]
    agg = aggregator(case)
    cross_l, cross_r = agg.computes_cross_supports(L, R, cv)
    agg.cost_volume_aggregation(L, R, cv)
    after = cv["cost_volume"].data
    ctx.traces += 1
    nd = len(disps)
    small = {k: v for k, v in case.items() if not k.startswith("_")}

    # ---- correspondence: arms, then the volume
    m_vol, m_cross = model_out
    impl_cross = [cross_l.tolist(), [x.tolist() for x in cross_r]]
    if impl_cross != m_cross:
        ctx.mismatch("cross_support", small, _first_diff(impl_cross, m_cross), "model arms differ (see case)")
    n_bad = 0
    for k in range(nd):
        for r in range(nr):
            for c in range(nc):
                f = float(after[r, c, k])
                q = core.q_of(m_vol[k][r][c])
                if not core.close(f, q):
                    n_bad += 1
                    if n_bad == 1:
                        ctx.mismatch("aggregated_volume", small,
                                     {"plane": k, "row": r, "col": c, "impl": f},
                                     {"model": None if q is None else float(q)})
    # ---- spec oracle on the real output
    i_l = o_crop(o_median3(o_masked(rows_q(case["left"]), case["mask_left"], case["valid"])), off)
    i_rs = []
    for s, ds in enumerate(shifted):
        m = case["mask_right"]
        if m is not None and s != 0:
            v = case["valid"]
            m = [[v if (m[r][c] == v and m[r][c + 1] == v) else v + 1 for c in range(nc - 1)] for r in range(nr)]
        i_rs.append(o_crop(o_median3(o_masked(rows_q(ds["im"].data), m, case["valid"])), off))
    masks = case["mask_left"] is not None or case["mask_right"] is not None
    for k in range(nd):
        dq = core.to_q(float(disps[k]))
        fl = math.floor(dq)
        s = int((dq - fl) * sub)
        plane = "int" if s == 0 else f"sub{s}/{sub}"
        for r in range(nr):
            for c in range(nc):
                cost, out = float(before[r, c, k]), float(after[r, c, k])
                inside = off <= r < nr - off and off <= c < nc - off
                if not inside:
                    ctx.case(None)
                    if not (cost == out or (math.isnan(cost) and math.isnan(out))):
                        ctx.violation("outside_offset_changed", f"cost outside the computable area changed at "
                                      f"({r},{c},d={float(dq)}): {cost} -> {out}", small)
                    continue
                if math.isnan(cost):
                    ctx.case(None)
                    ctx.count("pixels_nan_cost")
                    if not math.isnan(out):
                        ctx.violation("nan_lost", f"NaN cost at ({r},{c},d={float(dq)}) became {out}", small)
                    continue
                if math.isnan(out):
                    ctx.case(None)
                    ctx.violation("nan_created", f"cost {cost} at ({r},{c},d={float(dq)}) became NaN", small)
                    continue
                rr, cc = r - off, c - off
                if not 0 <= cc + fl < len(i_rs[s][0]):
                    ctx.case(None)
                    ctx.broken_obligation("assumption:cost_nan_when_correspondent_outside",
                                          {"case": small, "pixel": (r, c, float(dq)), "cost": cost})
                    continue
                reg, shape = o_region(i_l, i_rs[s], rr, cc, fl, dist, inten)
                vals = [float(before[a + off, b + off, k]) for a, b in reg]
                n_nan = sum(1 for v in vals if math.isnan(v))
                want = sum(core.to_q(v) for v in vals if not math.isnan(v)) / len(reg)
                ctx.case((shape, n_nan, plane) if len(reg) >= 2 else None)
                ctx.count("pixels_checked")
                ctx.count("region_size_%s" % ("1" if len(reg) == 1 else "2-9" if len(reg) < 10 else
                                              "10-29" if len(reg) < 30 else "30+"))
                if n_nan:
                    ctx.count("regions_with_nan_costs")
                if not core.close(out, want):
                    key = "region_mean"
                    if dist == 1 and masks:
                        key = "distance1_masked_neighbour"
                    ctx.violation(key, f"aggregated cost at (row {r}, col {c}, d={float(dq)}) is {out}; the mean of "
                                  f"the computable costs over the {len(reg)}-pixel support region is {float(want)} "
                                  f"(cbca_distance={dist}, cbca_intensity={float(inten)}, window={case['window']}, "
                                  f"subpix={sub}, masks={'yes' if masks else 'no'})", small)
    # ---- each plane is aggregated independently of the others (impl-vs-impl, bitwise)
    if check_planes and nd >= 2:
        k = ctx.rng.randrange(nd)
        cv2 = case["_cv0"].copy(deep=True)
        data = cv2["cost_volume"].data
        for j in range(nd):
            if j != k:
                data[:, :, j] = data[:, :, j] * 3 + 1
                data[ctx.rng.randrange(nr), :, j] = np.nan
        aggregator(case).cost_volume_aggregation(L, R, cv2)
        a, b = cv2["cost_volume"].data[:, :, k], after[:, :, k]
        ctx.count("plane_independence_runs")
        if not np.array_equal(a, b, equal_nan=True):
            ctx.violation("plane_dependence", f"plane {k} changed when only the other planes were modified", small)


def _first_diff(a, b, path=()):
    if isinstance(a, list) and isinstance(b, list) and len(a) == len(b):
        for i, (x, y) in enumerate(zip(a, b)):
            d = _first_diff(x, y, path + (i,))
            if d is not None:
                return d
        return None
    return None if a == b else {"at": list(path), "impl": a, "model": b}



# ---------------------------------------------------------------- direct correspondence: IR evaluator on the
# regenerated trees (Extract/X11K.v) = compiled numba kernels


def _cell(x):
    """numpy scalar -> cell of the extraction protocol / canonical form: int, Fraction, None (NaN), [1] / [-1] (inf)"""
    if isinstance(x, (int, np.integer)):
        return int(x)
    x = float(x)
    if math.isnan(x):
        return None
    if math.isinf(x):
        return [1] if x > 0 else [-1]
    return F(*x.as_integer_ratio())


def _cells(a):
    a = np.asarray(a)
    if a.ndim == 0:
        return _cell(a[()])
    return [_cells(x) for x in a]


def _arr(a):
    """(shape, nested cells)"""
    a = np.asarray(a)
    return [list(a.shape), _cells(a)]


def _canon(v):
    """decoded model cell / nested -> canonical python (Fraction for (n d), None for ())"""
    if isinstance(v, int):
        return v
    if v == []:
        return None
    return v


def _model_arrays(res):
    """decoded enc_res -> list of (shape, nested) with cells canonical; None when the evaluation failed"""
    if isinstance(res, int):
        return None
    out = []
    for a in res:
        shape, data = a[0], a[1]

        def conv(x, depth):
            if depth == 0:
                if isinstance(x, int):
                    return x
                if x == []:
                    return None
                if len(x) == 2:
                    return F(x[0], x[1])
                return x
            return [conv(y, depth - 1) for y in x]
        out.append([shape, conv(data, len(shape))])
    return out


def _impl_arrays(arrs):
    out = []
    for a in arrs:
        a = np.asarray(a)
        shape, data = list(a.shape), _cells(a)

        def conv(x, depth):
            if depth == 0:
                if isinstance(x, F) and x.denominator == 1 and False:
                    return x
                return x
            return [conv(y, depth - 1) for y in x]
        out.append([shape, conv(data, len(shape))])
    return out


def _same(impl, model):
    """exact comparison; an int of the model equals the same float of the implementation (dtype promotion)"""
    if isinstance(impl, list) and isinstance(model, list):
        return len(impl) == len(model) and all(_same(a, b) for a, b in zip(impl, model))
    if isinstance(impl, list) or isinstance(model, list):
        return False
    if impl is None or model is None:
        return impl is None and model is None
    return F(impl) == F(model)


def _rand_arms(rng, nr, nc, bounded, dtype):
    """(nr, nc, 4) arm table: [left, right, top, bot]; bounded = inside the image (the left table), else only >= 0"""
    a = np.zeros((nr, nc, 4), dtype=dtype)
    for r in range(nr):
        for c in range(nc):
            if bounded:
                lim = [c, nc - 1 - c, r, nr - 1 - r]
                a[r, c] = [rng.randrange(0, x + 1) if rng.random() < 0.8 else x for x in lim]
            else:
                a[r, c] = [rng.choice([0, 0, 1, 2, 3, 9, 300]) for _ in range(4)]
    return a


def _rand_cols(rng, nc, nc_r):
    k = rng.randrange(0, nc + 1)
    rc = rng.sample(range(nc), k)
    if rng.random() < 0.6:
        rc.sort()
    rcr = [rng.randrange(nc_r) for _ in rc]
    return np.array(rc, dtype=np.int64), np.array(rcr, dtype=np.int64)


def _rand_floats(rng, nr, nc, dtype, special):
    a = np.zeros((nr, nc), dtype=dtype)
    for r in range(nr):
        for c in range(nc):
            u = rng.random()
            if u < special:
                a[r, c] = rng.choice([np.nan, np.nan, np.nan, np.inf, -np.inf])
            else:
                a[r, c] = rng.randrange(-60, 61) * rng.choice([1, 1, 0.5, 0.25])
    return a


def kernel_cases(rng, n):
    """n direct calls per kernel: (fid, name, impl thunk, model argument, replay description)"""
    from pandora.aggregation import cbca

    # the arm tables given to steps 2 and 4 have the integer type cross_support returns
    arm_t = cbca.cross_support(np.zeros((1, 1), dtype=np.float32), 1, np.float32(1.0)).dtype
    out = []
    for i in range(n):
        # ---- cross_support
        nr, nc = rng.randrange(1, 8), rng.randrange(1, 9)
        if i % 15 == 0:
            nr, nc = rng.choice([(0, 3), (3, 0), (1, 1)])
        amp = rng.choice([4, 12, 60])
        img = np.zeros((nr, nc), dtype=np.float32)
        for r in range(nr):
            for c in range(nc):
                u = rng.random()
                img[r, c] = (np.inf if u < 0.15 else np.nan if u < 0.18 else -np.inf if u < 0.21
                             else rng.randrange(0, amp) + rng.choice([0, 0, 0.5]))
        length = rng.choice([1, 1, 2, 2, 3, 4, 6, 40000])
        inten = F(rng.randrange(1, 41), rng.choice([1, 1, 2, 4]))
        out.append((1, "cross_support",
                    (lambda img=img, length=length, inten=inten:
                     [cbca.cross_support(img, length, np.float32(float(inten)))]),
                    [length, inten] + _arr(img),
                    {"kernel": "cross_support", "len_arms": length, "intensity": str(inten), "image": img.tolist()}))
        # ---- cbca_step_1
        nr, nc = rng.randrange(1, 7), rng.randrange(1, 9)
        if i % 15 == 1:
            nr, nc = rng.choice([(0, 3), (3, 0), (1, 1)])
        cv = _rand_floats(rng, nr, nc, np.float32, rng.choice([0.0, 0.15, 0.4]))
        out.append((2, "cbca_step_1", (lambda cv=cv: [cbca.cbca_step_1(cv)]), _arr(cv),
                    {"kernel": "cbca_step_1", "cv": cv.tolist()}))
        # ---- cbca_step_2
        nr, nc, nc_r = rng.randrange(1, 6), rng.randrange(1, 8), rng.randrange(1, 8)
        s1 = _rand_floats(rng, nr, nc + 1, np.float64, rng.choice([0.0, 0.0, 0.1]))
        c_l, c_r = _rand_arms(rng, nr, nc, True, arm_t), _rand_arms(rng, nr, nc_r, False, arm_t)
        rc, rcr = _rand_cols(rng, nc, nc_r)
        out.append((3, "cbca_step_2",
                    (lambda s1=s1, c_l=c_l, c_r=c_r, rc=rc, rcr=rcr: list(cbca.cbca_step_2(s1, c_l, c_r, rc, rcr))),
                    _arr(s1) + _arr(c_l) + _arr(c_r) + [_cells(rc), _cells(rcr)],
                    {"kernel": "cbca_step_2", "step1": s1.tolist(), "cross_left": c_l.tolist(),
                     "cross_right": c_r.tolist(), "range_col": rc.tolist(), "range_col_right": rcr.tolist()}))
        # ---- cbca_step_3
        nr, nc = rng.randrange(1, 7), rng.randrange(1, 9)
        if i % 15 == 2:
            nc = 0
        s2 = _rand_floats(rng, nr, nc, np.float64, rng.choice([0.0, 0.0, 0.1]))
        out.append((4, "cbca_step_3", (lambda s2=s2: [cbca.cbca_step_3(s2)]), _arr(s2),
                    {"kernel": "cbca_step_3", "step2": s2.tolist()}))
        # ---- cbca_step_4
        nr, nc, nc_r = rng.randrange(1, 6), rng.randrange(1, 8), rng.randrange(1, 8)
        s3 = _rand_floats(rng, nr + 1, nc, np.float64, rng.choice([0.0, 0.0, 0.1]))
        sm2 = np.array([[rng.randrange(0, 12) for _ in range(nc)] for _ in range(nr)], dtype=np.float32).reshape(nr, nc)
        c_l, c_r = _rand_arms(rng, nr, nc, True, arm_t), _rand_arms(rng, nr, nc_r, False, arm_t)
        rc, rcr = _rand_cols(rng, nc, nc_r)
        out.append((5, "cbca_step_4",
                    (lambda s3=s3, sm2=sm2, c_l=c_l, c_r=c_r, rc=rc, rcr=rcr:
                     list(cbca.cbca_step_4(s3, sm2, c_l, c_r, rc, rcr))),
                    _arr(s3) + _arr(sm2) + _arr(c_l) + _arr(c_r) + [_cells(rc), _cells(rcr)],
                    {"kernel": "cbca_step_4", "step3": s3.tolist(), "sum2": sm2.tolist(), "cross_left": c_l.tolist(),
                     "cross_right": c_r.tolist(), "range_col": rc.tolist(), "range_col_right": rcr.tolist()}))
    return out


def kernel_correspondence(ctx, n):
    cases = kernel_cases(ctx.rng, n)
    mres = core.Model("x11k").batch([(fid, arg) for fid, _, _, arg, _ in cases])
    for (fid, name, thunk, _, desc), res in zip(cases, mres):
        impl = _impl_arrays(thunk())
        model = _model_arrays(res)
        ctx.traces += 1
        ctx.count("kernel_calls_" + name)
        if model is None:
            ctx.mismatch("kernel_ir:" + name, desc, "the compiled kernel returned", "the IR evaluation failed "
                         "(access outside an array or type error)")
        elif not _same(impl, model):
            ctx.mismatch("kernel_ir:" + name, desc, _first_diff(_plain(impl), _plain(model)), "IR evaluator differs")


def _plain(x):
    if isinstance(x, list):
        return [_plain(y) for y in x]
    if isinstance(x, F):
        return float(x)
    return x



# ---------------------------------------------------------------- arms longer than 32767 pixels
# C11_gen_arms_fit_int32 (Props/C11.v) bounds an arm by min(cbca_distance - 1, image side - 1): no sample of small
# images can exercise the width of the integer type the arms are stored in, so one wide flat row is run on every check.


def wide_image_regression(ctx, full):
    """1 x 33000 flat pair, cbca_distance 40000: every pixel of the row is in every arm, so the left arm of column c is
    c, its right arm n - 1 - c (closed form of the specification on a flat unmasked row), and the aggregated cost of a
    constant cost plane is that constant whatever the region"""
    from pandora.aggregation import cbca

    n, dist = 33000, 40000
    replay = {"wide_row": True, "nc": n, "distance": dist, "left": 7, "right": 9, "intensity": [5, 1]}
    img = np.full((1, n), 7, dtype=np.float32)
    cross = cbca.cross_support(img, dist, np.float32(5.0))
    ctx.traces += 1
    cols = np.arange(n)
    want = np.zeros((n, 4), dtype=np.int64)
    want[:, 0] = np.minimum(dist - 1, cols)
    want[:, 1] = np.minimum(dist - 1, n - 1 - cols)
    ctx.case(("wide_row", "arms"))
    ctx.count("wide_row_arm_checks", 4 * n)
    got = cross[0].astype(np.int64)
    arms_ok = np.array_equal(got, want)
    if not arms_ok:
        c, k = [int(x) for x in np.argwhere(got != want)[0]]
        ctx.violation("arm_longer_than_32767",
                      f"cross_support on a flat 1 x {n} row with cbca_distance={dist}: arm {['left', 'right', 'top', 'bot'][k]} "
                      f"of column {c} is {int(got[c, k])}; the longest run of the specification has {int(want[c, k])} pixels",
                      replay)
    if not full:
        return
    case = dict(nr=1, nc=n, left=[[7] * n], right=[[9] * n], mask_left=None, mask_right=None, valid=0, nodata=1,
                method="sad", window=1, subpix=1, dmin=0, dmax=0, distance=dist, intensity=[5, 1])
    L, R, cv = build_inputs(case)
    before = cv["cost_volume"].data.copy()
    aggregator(case).cost_volume_aggregation(L, R, cv)
    after = cv["cost_volume"].data
    ctx.traces += 1
    ctx.case(("wide_row", "aggregate"))
    ctx.count("wide_row_aggregate_checks", n)
    if not (before == 2).all():
        ctx.broken_obligation("assumption:wide_row_costs", "sad of constant images 7 and 9 is not 2 everywhere")
        return
    bad = np.argwhere(~(np.abs(after[0, :, 0] - 2.0) <= 2.0 ** -16))
    if bad.size:
        c = int(bad[0][0])
        ctx.violation("region_mean" if arms_ok else "arm_longer_than_32767",
                      f"flat 1 x {n} pair (left 7, right 9, sad, window 1, d = 0), cbca_distance={dist}: every input cost is "
                      f"2, so every regional mean is 2; the aggregated cost of column {c} is {float(after[0, c, 0])} "
                      f"({bad.shape[0]} columns differ)", replay)


def prepare(ctx, case):
    """build the real pre-aggregation volume and the model argument; None when outside the exact domain"""
    from pandora.img_tools import shift_right_img

    try:
        L, R, cv = build_inputs(case)
    except Exception as exc:  # pylint: disable=broad-except
        ctx.count("matching_cost_refused_" + pu.exc_class(exc))
        return None
    before = cv["cost_volume"].data.copy()
    disps = [float(x) for x in cv.coords["disp"].data]
    off = int(cv.attrs["offset_row_col"])
    sub = int(cv.attrs["subpixel"])
    nr, nc = case["nr"], case["nc"]
    if nr - 2 * off < 1 or nc - 2 * off < 2:
        ctx.count("skipped_empty_crop")
        return None
    shifted = shift_right_img(R, sub)
    for ds in shifted:
        x = ds["im"].data * 4
        if not np.array_equal(x, np.round(x)):
            ctx.count("skipped_shift_not_quarter")
            return None
    if np.isinf(before).any():
        ctx.broken_obligation("assumption:no_inf_cost", {k: v for k, v in case.items() if not k.startswith("_")})
        return None
    finite = before[np.isfinite(before)]
    cmax = float(np.abs(finite).max()) if finite.size else 0.0
    if cmax * 4 * nr * (2 * min(case["distance"], max(nr, nc)) + 1) >= 2 ** 24:
        ctx.count("skipped_sums_not_exact_in_float32")
        return None
    case["_built"] = (L, R, cv, before, disps, off, shifted)
    case["_cv0"] = cv.copy(deep=True)
    vol = [[[core.to_q(before[r, c, k]) for c in range(nc)] for r in range(nr)] for k in range(len(disps))]
    inten = F(*case["intensity"])
    arg = [nr, nc, off, sub, case["distance"], inten, case["valid"], case["valid"],
           rows_q(case["left"]), case["mask_left"] or [], [rows_q(ds["im"].data) for ds in shifted],
           case["mask_right"] or [], [core.to_q(d) for d in disps], vol]
    return arg


# regression corpus: the witness of the defect repaired by the `fix:` commit (cbca_distance = 1 next to a masked
# pixel) and hand-made corner cases
CORPUS = [
    dict(nr=5, nc=6, left=[[10, 10, 10, 10, 10, 10]] * 5, right=[[14, 14, 14, 14, 14, 14]] * 5,
         mask_left=[[0, 0, 0, 0, 0, 0], [0, 0, 1, 0, 0, 0], [0, 0, 0, 0, 0, 0], [0, 0, 0, 0, 2, 0], [0, 0, 0, 0, 0, 0]],
         mask_right=None, valid=0, nodata=1, method="sad", window=1, subpix=1, dmin=-1, dmax=1, distance=1,
         intensity=[5, 1], kinds=dict(left="flat", right="flat", mask_left="pixels", mask_right="none")),
    dict(nr=6, nc=8, left=[[3 * c + r for c in range(8)] for r in range(6)],
         right=[[3 * c + r + 1 for c in range(8)] for r in range(6)],
         mask_left=None, mask_right=[[0] * 8, [0, 0, 0, 3, 0, 0, 0, 0]] + [[0] * 8] * 4, valid=0, nodata=1,
         method="sad", window=3, subpix=2, dmin=-2, dmax=1, distance=6, intensity=[7, 1],
         kinds=dict(left="ramp", right="ramp", mask_left="none", mask_right="pixels")),
    dict(nr=5, nc=7, left=[[7] * 7] * 5, right=[[7] * 7] * 5, mask_left=None, mask_right=None, valid=0, nodata=1,
         method="census", window=5, subpix=4, dmin=0, dmax=1, distance=4, intensity=[1, 4],
         kinds=dict(left="flat", right="flat", mask_left="none", mask_right="none")),
]


def run(ctx):
    rng = ctx.rng
    ctx.gen_obligations = list(GEN_OBLIGATIONS)
    quick = ctx.tier == "quick"
    model = core.Model("x11")
    if getattr(ctx, "replay_case", None) is not None and ctx.replay_case.get("wide_row"):
        wide_image_regression(ctx, True)
        return
    if getattr(ctx, "replay_case", None) is not None:
        cases = [dict(ctx.replay_case)]
    else:
        kernel_correspondence(ctx, 60 if quick else 600)
        wide_image_regression(ctx, True)
        n = 150 if quick else 3000
        cases = [dict(c) for c in CORPUS]
        # long arms and arms cut by masks / sides are forced on a share of the cases
        for i in range(n):
            force = {}
            if i % 10 == 0:
                force = {"distance": 6, "window": 1, "method": "sad"}
            elif i % 10 == 1:
                force = {"distance": 1}
            elif i % 10 == 3:
                force = {"edgy_right": True, "subpix": 4, "dmin": rng.choice([-2, -1]), "dmax": rng.choice([0, 1]),
                         "window": 1, "method": "sad", "distance": rng.choice([3, 4, 5])}
            elif i % 50 == 2:
                # "every cbca_distance >= 1": far beyond the image, around the int16 / int32 limits
                force = {"distance": rng.choice([300, 32767, 32768, 40000, 65536, 70000, 2 ** 31 - 1]),
                         "window": 1, "method": "sad"}
            cases.append(gen_case(rng, force))
        for _ in range(6 if quick else 60):
            cases.append(gen_strip_case(rng))
    batch = 50
    for start in range(0, len(cases), batch):
        chunk = []
        for case in cases[start:start + batch]:
            arg = prepare(ctx, case)
            if arg is not None:
                chunk.append((case, arg))
        margs = []
        for _, arg in chunk:
            margs += [(1, arg), (2, arg)]
        mres = model.batch(margs)
        for i, (case, _) in enumerate(chunk):
            ctx.count("volumes")
            ctx.count("volumes_%s_w%d_sub%d" % (case["method"], case["window"], case["subpix"]))
            ctx.count("volumes_distance_%d" % case["distance"])
            ctx.count("volumes_masks_%s" % ("both" if case["mask_left"] and case["mask_right"] else
                                            "left" if case["mask_left"] else "right" if case["mask_right"] else "none"))
            evaluate(ctx, case, (mres[2 * i], mres[2 * i + 1]), check_planes=(i % 3 == 0))
            if case.get("kinds") and case["distance"] >= 3:
                ctx.sample({k: v for k, v in case.items() if k in ("nr", "nc", "method", "window", "subpix", "dmin",
                                                                    "dmax", "distance", "intensity", "kinds")}, limit=6)
            case.pop("_built", None)
            case.pop("_cv0", None)
