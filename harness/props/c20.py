"""C20 -- reported margins are a pure, monotone function of the checked pipeline.

T-gen : Gen/Margins.v (margin expression of every step class + which check callback registers
        under which map) regenerated from /repo; obligation tables_ok re-proved by vm_compute.
T-corr: extracted check_margins against machine.margins.to_dict() after the real check_conf on
        random accepted pipelines (suffixes, windows, filter sizes, sigma_space incl. values where
        3*sigma+1 is integral, images smaller than the bilateral window, matching-cost step values).
Spec  : independent Python oracle of the documented table + global formula, non-negativity,
        monotonicity (pipeline vs pipeline + one step), validation round no-op."""
import sys
import types
from fractions import Fraction

from harness import core
from harness import pandora_util as pu

GEN = ["gen_margins", "gen_tables"]
EXTRACT_FILES = ["X20"]
DRIVERS = ["x20"]
RULE = ("random accepted pipelines (1-9 steps, suffixed names) with random parameters, fresh machine per case; "
        "non-trivial = at least one margin-bearing step besides matching_cost; distinct by (step names, parameters, "
        "image shape); monotonicity pairs = the same pipeline with one more step inserted")
ASSUMES = [
    "sigma_space values are multiples of 1/8 so that int(3*sigma_space+1) is computed exactly by the float code",
    "matching-cost step values other than 1 need the pandora2d module to be importable: the harness inserts an "
    "empty module object named pandora2d in sys.modules for those cases (as the test-suite does)",
    "the attributes read by the margin expressions (_window_size, _filter_size, _sigma_space, _step, _image_shape) "
    "hold the checked parameter values: tied by this correspondence, not by the translator",
]
TRUSTED = ["Gen/Margins.v produced by translator/gen_margins.py (ast of the descriptors / properties / check callbacks)"]

FM = {"median": 0, "bilateral": 1, "median_for_intervals": 2}


def gen_pipeline(rng):
    win = rng.choice([1, 3, 5, 7, 9, 11])
    mcstep = rng.choice([1, 1, 1, 2, 3, 5])
    steps = [("matching_cost", {"matching_cost_method": rng.choice(["sad", "ssd", "zncc"]) if win != 1 or True else "sad",
                                "window_size": win, "subpix": 1, "step": mcstep})]
    if steps[0][1]["matching_cost_method"] == "census":
        steps[0][1]["window_size"] = rng.choice([3, 5])
    for _ in range(rng.randrange(0, 4)):
        k = rng.choice(["aggregation", "optimization", "semantic_segmentation", "cost_volume_confidence"])
        if k == "optimization" and mcstep != 1:
            continue
        opt = {"optimization_method": "stub_opt"}
        if rng.random() < 0.6:
            # geometric priors of the optimisation step (read by optimization_check_conf, which looks the source up in
            # the left image): every accepted form registers the step's margins
            opt["geometric_prior"] = rng.choice([{"source": "internal"}, {"source": "segm"}, {"source": "classif"},
                                                 {"source": "classif", "classes": ["a"]},
                                                 {"source": "classif", "classes": ["a", "b"]}])
        cfg = {"aggregation": {"aggregation_method": "cbca"}, "optimization": opt,
               "semantic_segmentation": {"segmentation_method": "stub_seg", "RGB_bands": None},
               "cost_volume_confidence": {"confidence_method": rng.choice(["ambiguity", "std_intensity", "risk"])}}[k]
        steps.append((k, cfg))
    if rng.random() < 0.92:
        steps.append(("disparity", {"disparity_method": "wta"}))
        for _ in range(rng.randrange(0, 5)):
            k = rng.choice(["filter", "filter", "refinement", "validation", "multiscale"])
            if k == "filter":
                m = rng.choice(["median", "bilateral", "median_for_intervals"])
                if m == "median":
                    cfg = {"filter_method": "median", "filter_size": rng.choice([1, 3, 5, 7])}
                elif m == "median_for_intervals":
                    cfg = {"filter_method": "median_for_intervals", "filter_size": rng.choice([1, 3, 5]),
                           "interval_indicator": ""}
                else:
                    cfg = {"filter_method": "bilateral", "sigma_color": 2.0,
                           "sigma_space": rng.choice([0.125, 0.25, 1 / 3 + 0.0, 0.5, 1.0, 1.375, 2.0, 3.0, 6.0])}
                    if cfg["sigma_space"] == 1 / 3:
                        cfg["sigma_space"] = 0.375
            elif k == "refinement":
                cfg = {"refinement_method": rng.choice(["vfit", "quadratic"])}
            elif k == "validation":
                cfg = {"validation_method": "cross_checking_accurate"}
            else:
                cfg = {"multiscale_method": "fixed_zoom_pyramid", "num_scales": 2}
            steps.append((k, cfg))
    used = set()
    named = []
    for i, (k, cfg) in enumerate(steps):
        r = rng.random()
        n = k if (r < 0.5 and k not in used) else f"{k}.{i}" if r < 0.85 else f"{k}.m{i}.x"
        while n in used:
            n += "_"
        used.add(n)
        named.append((n, k, cfg))
    return named


def wire(named, ids=None):
    out = []
    for i, (n, k, cfg) in enumerate(named):
        out.append([i if ids is None else ids[n], pu.KIND_CODE[k], FM.get(cfg.get("filter_method"), 0), cfg.get("window_size", 5),
                    cfg.get("filter_size", 3), Fraction(cfg.get("sigma_space", 1.0)), cfg.get("step", 1)])
    return out


def oracle(named, rows, cols):
    """documented margins, written from the property text"""
    mcstep = named[0][2].get("step", 1) if named else 1
    cum, non = [], []
    for i, (n, k, cfg) in enumerate(named):
        if k == "matching_cost":
            cum.append((i, (cfg["window_size"] - 1) // 2))
        elif k == "optimization":
            cum.append((i, 40))
        elif k in ("aggregation", "disparity", "refinement"):
            cum.append((i, 0))
        elif k == "filter":
            if cfg["filter_method"] == "bilateral":
                non.append((i, min(rows, cols, int(3 * Fraction(cfg["sigma_space"]) + 1)) * mcstep))
            else:
                non.append((i, cfg["filter_size"] * mcstep))
    glob = max([sum(v for _, v in cum)] + [v for _, v in non])
    return cum, non, glob


def meta_with_priors(rows, cols, disp):
    """metadata-like dataset that also carries a segmentation and a two-class classification (what a geometric prior of
    an optimisation step refers to)"""
    import numpy as np
    ds = pu.meta_dataset(rows, cols, disp)
    ds = ds.assign_coords(band_classif=["a", "b"])
    ds["segm"] = (("row", "col"), np.zeros((rows, cols), dtype=np.int16))
    ds["classif"] = (("band_classif", "row", "col"), np.zeros((2, rows, cols), dtype=np.int16))
    return ds


def real_margins(named, rows, cols, before=None, ids=None):
    """margins reported after check_conf of `named`; with `before`, the SAME machine object has checked the
    pipeline `before` first"""
    from pandora.state_machine import PandoraMachine

    need2d = any(p and p[0][2].get("step", 1) != 1 for p in (named, before or []))
    if need2d:
        sys.modules["pandora2d"] = types.ModuleType("pandora2d")
    try:
        m = PandoraMachine()
        if before is not None:
            m.check_conf({"pipeline": {n: dict(c) for n, _, c in before}},
                         meta_with_priors(rows, cols, (-2, 2)), meta_with_priors(rows, cols, None))
        cfg = {"pipeline": {n: dict(c) for n, _, c in named}}
        m.check_conf(cfg, meta_with_priors(rows, cols, (-2, 2)), meta_with_priors(rows, cols, None))
        d = m.margins.to_dict()
    finally:
        if need2d:
            sys.modules.pop("pandora2d", None)
    idx = ids if ids is not None else {n: i for i, (n, _, _) in enumerate(named)}

    def conv(dd):
        return [[idx.get(k, k), [v["left"], v["up"], v["right"], v["down"]]] for k, v in dd.items()]

    g = d["global margins"]
    return [conv(d["cumulative margins"]), conv(d["non-cumulative margins"]),
            [g["left"], g["up"], g["right"], g["down"]]], list(d)


def run(ctx):
    pu.register_stub_plugins()
    rng = ctx.rng
    model = core.Model("x20")
    n = 400 if ctx.tier == "quick" else 8000
    cases = []
    if ctx.replay_case is not None:
        rc = ctx.replay_case
        cases.append(([tuple(x) for x in rc["named"]], rc["rows"], rc["cols"], "replay"))
    else:
        for _ in range(n):
            named = gen_pipeline(rng)
            rows, cols = rng.choice([3, 4, 7, 12, 40]), rng.choice([3, 5, 8, 15, 40])
            cases.append((named, rows, cols, "base"))
            if rng.random() < 0.5 and len(named) >= 2 and named[-1][1] != "matching_cost":
                # monotonicity partner: one more step inserted (kept legal)
                has_disp = any(k == "disparity" for _, k, _ in named)
                pos_d = [i for i, (_, k, _) in enumerate(named) if k == "disparity"]
                if has_disp:
                    at = rng.randrange(pos_d[0] + 1, len(named) + 1)
                    extra = rng.choice([("filter", {"filter_method": "median", "filter_size": rng.choice([3, 5, 9])}),
                                        ("filter", {"filter_method": "bilateral", "sigma_color": 2.0,
                                                    "sigma_space": rng.choice([0.5, 2.0, 6.0])}),
                                        ("refinement", {"refinement_method": "vfit"}),
                                        ("validation", {"validation_method": "cross_checking_accurate"})])
                else:
                    at = rng.randrange(1, len(named) + 1)
                    extra = ("aggregation", {"aggregation_method": "cbca"})
                bigger = list(named)
                bigger.insert(at, (f"{extra[0]}.added", extra[0], extra[1]))
                cases.append((bigger, rows, cols, ("mono", len(cases) - 1)))
    mres = model.batch([(1, [[r, c], [r, c], wire(nm)]) for nm, r, c, _ in cases])
    real = []
    for (named, rows, cols, tag), mr in zip(cases, mres):
        try:
            got, top_keys = real_margins(named, rows, cols)
        except Exception as exc:  # pylint: disable=broad-except
            got, top_keys = ["EXC", pu.exc_class(exc)], []
        real.append(got)
        bearing = sum(1 for _, k, _ in named if k in ("optimization", "filter", "aggregation", "refinement", "disparity"))
        key = (tuple((n_, tuple(sorted((a, str(b)) for a, b in c.items()))) for n_, _, c in named), rows, cols)
        ctx.case(key if bearing >= 1 else None)
        ctx.traces += 1
        ctx.count("steps_total", len(named))
        for _, k, c in named:
            ctx.count("kind_" + k)
        rep = {"named": [list(x) for x in named], "rows": rows, "cols": cols}
        if len(named) >= 5:
            ctx.sample({"steps": [n_ for n_, _, _ in named], "shape": [rows, cols], "margins": got}, limit=5)
        want_model = mr[0] if mr else "KEYERROR"
        if got != want_model:
            ctx.mismatch("margins", rep, got, want_model)
        # spec check on the real output
        if got and got[0] == "EXC":
            ctx.violation("check_raises", f"accepted pipeline {[n_ for n_, _, _ in named]} refused: {got[1]}", rep)
            continue
        cum, non, glob = oracle(named, rows, cols)
        want = [[[i, [v] * 4] for i, v in cum], [[i, [v] * 4] for i, v in non], [glob] * 4]
        if got != want:
            ctx.violation("margins_value", f"margins {got} differ from the documented {want}", rep)
        if top_keys and top_keys != ["cumulative margins", "non-cumulative margins", "global margins"]:
            ctx.violation("to_dict_keys", f"to_dict keys {top_keys}", rep)
        if any(x < 0 for x in got[2]) or any(x < 0 for _, v in got[0] + got[1] for x in v):
            ctx.violation("negative_margin", f"negative margin in {got}", rep)
        if isinstance(tag, tuple):
            base = real[tag[1]]
            if base and base[0] != "EXC" and any(a > b for a, b in zip(base[2], got[2])):
                ctx.violation("not_monotone", f"global margins decreased from {base[2]} to {got[2]} when a step was added",
                              rep)
            ctx.count("monotonicity_pairs")
    machine_histories(ctx, model, [c for c in cases if c[3] in ("base", "replay2")])
    ctx.gen_obligations = ["tables_ok Gen.Margins.gen_margin_tables = true (vm_compute)",
                           "gen_check_resets_margins = true (check_conf starts its first round with "
                           "self.margins = GlobalMargins(); vm_compute on the regenerated datum)"]


def machine_histories(ctx, model, base_cases):
    """ONE machine object checks pipeline A then pipeline B: the margins reported for B are those of a machine
    that has never been used (model: machine_check_margins with the regenerated reset flag; spec: documented table)"""
    rng = ctx.rng
    pairs = []
    if ctx.replay_case is not None:
        rc = ctx.replay_case
        if "before" not in rc:
            return
        pairs.append(([tuple(x) for x in rc["before"]], [tuple(x) for x in rc["named"]], rc["rows"], rc["cols"]))
    else:
        fa = [("matching_cost", "matching_cost", {"matching_cost_method": "sad", "window_size": 5, "subpix": 1, "step": 1}),
              ("disparity", "disparity", {"disparity_method": "wta"}),
              ("filter", "filter", {"filter_method": "median", "filter_size": 3})]
        pairs.append((fa, fa[:2], 9, 20))
        pairs.append((fa[:2] + [("validation", "validation", {"validation_method": "cross_checking_accurate"}), fa[2]],
                      fa[:2] + [("filter.b", "filter", {"filter_method": "median", "filter_size": 5})], 9, 20))
        n = 80 if ctx.tier == "quick" else 1500
        for _ in range(n):
            a, b = rng.choice(base_cases), rng.choice(base_cases)
            pairs.append((a[0], b[0], b[1], b[2]))
    batch = []
    idss = []
    for a, b, rows, cols in pairs:
        ids = {}
        for nme, _, _ in list(b) + list(a):
            ids.setdefault(nme, len(ids))
        idss.append(ids)
        batch.append((2, [[rows, cols], wire(a, ids), wire(b, ids)]))
    mres = model.batch(batch)
    for (a, b, rows, cols), ids, mr in zip(pairs, idss, mres):
        rep = {"before": [list(x) for x in a], "named": [list(x) for x in b], "rows": rows, "cols": cols}
        ctx.case(("history", repr(rep)))
        ctx.traces += 1
        ctx.count("machine_history_pairs")
        try:
            got, _ = real_margins(b, rows, cols, before=a, ids=ids)
        except Exception as exc:  # pylint: disable=broad-except
            got = ["EXC", pu.exc_class(exc)]
        want_model = mr[0] if mr and mr != [-2] else "KEYERROR"
        cum, non, glob = oracle(b, rows, cols)
        want = [[[ids[b[i][0]], [v] * 4] for i, v in cum], [[ids[b[i][0]], [v] * 4] for i, v in non], [glob] * 4]
        if got != want:
            ctx.violation("machine_history_stale_margins",
                          f"one machine checked {[x[0] for x in a]} then {[x[0] for x in b]} ({rows}x{cols}): margins "
                          f"reported for the second pipeline {got} differ from the documented ones {want} "
                          f"(ids: {ids})", rep)
        if got != want_model:
            ctx.mismatch("margins_machine_history", rep, got, want_model)
