"""C01 -- accepted pipelines are exactly the documented automaton and run as written.

T-gen : Gen/Tables.v regenerated from PandoraMachine._transitions_run/_check; obligations
        check_tbl_wf / run_tbl_wf re-proved by vm_compute on every run.
        Gen/MachineFlow.v regenerated (ast) from PandoraMachine.check_conf / run / run_prepare / run_exit /
        is_not_last_scale and pandora.run: the control flow as ordered statement skeletons; obligations
        check_flow_wf / run_flow_wf re-proved by vm_compute on every run; the interpreter of the skeletons is
        proved equal to the hand-written model for every well-formed skeleton (C01_gen_*).
T-corr: the extracted model (check_conf / run / histories) against the real PandoraMachine:
        exhaustive kind sequences (check phase), random suffixed / malformed sequences,
        histories of check/run calls with real runs on small images (1-3 scales), histories that
        MIX different pipelines (with / without validation, accepted / refused) on one machine object.
Spec  : independent Python oracle of the documented language and of the expected trace."""
import json
import re

import numpy as np

from harness import pandora_util as pu

GEN = ["gen_tables", "gen_machine_flow"]
EXTRACT_FILES = ["X01"]
DRIVERS = ["x01"]
RULE = ("check phase: every kind sequence up to length L (exhaustive) + random suffixed/malformed sequences; "
        "run phase: random histories of check/run calls of accepted pipelines on real images (1-3 scales) and "
        "unchecked illegal pipelines; mixed histories: 2-4 different pipelines checked/run in random order on ONE "
        "machine object, each outcome compared with the model and with the fresh-machine outcome; "
        "second round: asymmetric image pair (left r,g,b / right r) x pipelines with and without validation; "
        "a case is non-trivial when its pipeline has >= 2 steps; distinct by "
        "(step names, validity pattern, history)")
ASSUMES = [
    "semantics of the transitions library (trigger / add_transitions / remove_transition) is hand-modelled in "
    "Model/Machine.v and validated by this correspondence on every run",
    "parameter validity of a step is an oracle (decided by C05); the harness builds valid/invalid step "
    "configurations and tells the model which is which",
    "the left/right flag of a trace entry is read from machine.right_disp_map when the callback starts; the effect "
    "of the right call itself is checked by C08",
]
TRUSTED = ["Gen/Tables.v produced by translator/gen_tables.py from the imported class attributes",
           "Gen/MachineFlow.v produced by translator/gen_machine_flow.py from the ast of check_conf / run / run_prepare / "
           "run_exit / is_not_last_scale / pandora.run (transliteration, fail closed); the meaning given to the "
           "skeletons by Lib/MachineFlow.v (Python exceptions, break, return, calls; run_prepare projected on "
           "num_scales, current_scale, right_disp_map and the transitions)"]

LETTER = {"matching_cost": "M", "aggregation": "A", "semantic_segmentation": "S", "optimization": "O",
          "cost_volume_confidence": "C", "disparity": "D", "filter": "F", "refinement": "R", "validation": "V",
          "multiscale": "X"}
DOC_RE = re.compile(r"^(M[AOSC]*(D[FRVX]*)?)?$")


def valid_cfg(kind, rng, runnable=False):
    if kind == "matching_cost":
        return {"matching_cost_method": rng.choice(["sad", "ssd", "census", "zncc"] if not runnable else ["sad", "census"]),
                "window_size": 3, "subpix": 1}
    if kind == "aggregation":
        return {"aggregation_method": "cbca", "cbca_intensity": 5.0, "cbca_distance": 3}
    if kind == "semantic_segmentation":
        return {"segmentation_method": "stub_seg", "RGB_bands": None}
    if kind == "optimization":
        return {"optimization_method": "stub_opt"}
    if kind == "cost_volume_confidence":
        m = rng.choice(["ambiguity", "std_intensity", "risk", "interval_bounds"])
        return {"confidence_method": m}
    if kind == "disparity":
        return {"disparity_method": "wta", "invalid_disparity": rng.choice([-9999, "NaN"])}
    if kind == "filter":
        return rng.choice([{"filter_method": "median", "filter_size": 3},
                           {"filter_method": "bilateral", "sigma_color": 4.0, "sigma_space": 1.0}])
    if kind == "refinement":
        return {"refinement_method": "vfit"}
    if kind == "validation":
        c = {"validation_method": "cross_checking_accurate", "cross_checking_threshold": 1.0}
        if rng.random() < 0.4:
            c["interpolated_disparity"] = rng.choice(["mc-cnn", "sgm"])
        return c
    if kind == "multiscale":
        return {"multiscale_method": "fixed_zoom_pyramid", "num_scales": rng.choice([2, 2, 3]), "scale_factor": 2,
                "marge": rng.choice([0, 1])}
    raise ValueError(kind)


def invalid_cfg(kind, rng):
    c = valid_cfg(kind, rng)
    how = rng.choice(["method", "param"])
    mkey = [k for k in c if k.endswith("_method")][0]
    if how == "method" or kind in ("semantic_segmentation", "optimization", "refinement"):
        if kind in ("semantic_segmentation", "optimization") and rng.random() < 0.5:
            c["bad"] = True
        else:
            c[mkey] = "no_such_method"
    else:
        bad = {"matching_cost": ("window_size", 4), "aggregation": ("cbca_distance", 0),
               "cost_volume_confidence": ("confidence_method", "nope"), "disparity": ("invalid_disparity", "x"),
               "filter": ("filter_method", "nope"), "validation": ("cross_checking_threshold", "a"),
               "multiscale": ("num_scales", 1)}[kind]
        c[bad[0]] = bad[1]
    return c


def name_steps(kinds, rng, suffix_mode):
    """unique dict keys spelling the kinds; suffix_mode: 'min' (only when repeated) or 'rand'"""
    names = []
    used = set()
    for i, k in enumerate(kinds):
        if suffix_mode == "min":
            n = k if k not in used else f"{k}.{i}"
        else:
            r = rng.random()
            if r < 0.35 and k not in used:
                n = k
            elif r < 0.6:
                n = f"{k}.{i}"
            elif r < 0.7:
                # "xxx can be any string": a suffix that spells (or contains) the name of ANOTHER kind of step
                other = rng.choice(["validation", "multiscale", "matching_cost", "filter", "disparity", "refinement"])
                n = f"{k}.{rng.choice(['', 'before_', 'no_', 'for_'])}{other}"
            elif r < 0.85:
                n = f"{k}.s{i}.t"
            else:
                n = f"{k}.{i}."
        while n in used:
            n += "x"
        used.add(n)
        names.append(n)
    return names


def real_summary(m):
    return [pu.STATE_CODE[m.state], pu.n_registered(m), 1 if m.right_disp_map else 0]


def doc_accepts(names, oks):
    codes = [pu.kind_code_of_name(n) for n in names]
    if any(c < 0 for c in codes):
        return False
    word = "".join(LETTER[pu.KINDS[c]] for c in codes)
    return bool(DOC_RE.match(word)) and all(oks)


def expected_trace_py(names, n, rdm):
    """independent statement of the expected callback trace (spec side)"""
    out = []
    kinds = [n_.split(".")[0] for n_ in names]
    upto = []
    for nm, k in zip(names, kinds):
        upto.append(nm)
        if k == "multiscale":
            break
    for scale in range(n - 1, 0, -1):
        for nm in upto:
            out.append((nm, scale, False))
            if rdm:
                out.append((nm, scale, True))
    for nm, k in zip(names, kinds):
        if k == "multiscale":
            continue
        out.append((nm, 0, False))
        if rdm:
            out.append((nm, 0, True))
    return out


def images(rng, rows, cols):
    base = np.array([[rng.randrange(0, 60) for _ in range(cols + 4)] for _ in range(rows)])
    left = base[:, 2:cols + 2] + np.array([[rng.randrange(0, 3) for _ in range(cols)] for _ in range(rows)])
    right = base[:, 1:cols + 1]
    L = pu.image_dataset(left, disp=(-2, 2))
    R = pu.image_dataset(right, disp=None)
    return L, R


def gen_mixed(rng):
    """2-4 pipelines (mostly accepted; with and without validation; some refused) and a history of
    (pipeline index, call) on one machine: call 0 = check, n >= 1 = run with n scales"""
    pls = []
    for _ in range(rng.randrange(2, 5)):
        a = [rng.choice(["aggregation", "optimization", "semantic_segmentation", "cost_volume_confidence"])
             for _ in range(rng.randrange(0, 2))]
        b = [rng.choice(["filter", "refinement", "validation", "validation", "multiscale"])
             for _ in range(rng.randrange(0, 4))]
        kinds = ["matching_cost"] + a + ["disparity"] + b
        r = rng.random()
        illegal = False
        if r < 0.12:      # refused: wrong order
            kinds = rng.choice([["matching_cost", "filter", "disparity"], ["disparity", "filter"],
                                ["matching_cost", "disparity", "aggregation"], kinds + ["matching_cost"]])
            illegal = True
        names = name_steps(kinds, rng, "rand" if rng.random() < 0.5 else "min")
        cfgs = [valid_cfg(k, rng, runnable=True) for k in kinds]
        oks = [True] * len(kinds)
        if not illegal and rng.random() < 0.1:   # refused: an invalid step (such a pipeline is only checked)
            i = rng.randrange(len(kinds))
            cfgs[i] = invalid_cfg(kinds[i], rng)
            oks[i] = False
        n = 1
        for nm, c in zip(names, cfgs):
            if nm.split(".")[0] == "multiscale":
                n = c.get("num_scales", 2) if isinstance(c.get("num_scales", 2), int) else 2
                break
        pls.append({"names": names, "cfgs": cfgs, "valid": oks, "n": max(n, 1)})
    hist = []
    for _ in range(rng.randrange(3, 8)):
        i = rng.randrange(len(pls))
        if all(pls[i]["valid"]) and rng.random() < 0.5:
            hist.append([i, pls[i]["n"]])
        else:
            hist.append([i, 0])
    return pls, hist


def products_digest(left, right):
    """digest of every variable of the two returned datasets (NaN-aware: the bytes of the arrays)"""
    import hashlib
    h = hashlib.sha1()
    for ds in (left, right):
        for name in sorted(ds.data_vars):
            a = ds[name].data
            h.update(name.encode() + str(a.dtype).encode() + str(a.shape).encode() + a.tobytes())
        if "indicator" in ds.coords:  # the names of the confidence layers are part of the products
            h.update(repr(list(map(str, ds.coords["indicator"].data))).encode())
        h.update(b"|")
    return h.hexdigest()


def call_real(pandora, m, pl, code, metaL, metaR, imgL, imgR, ctx):
    """one call on the real machine -> [code, summary, trace, right products empty?]"""
    names = pl["names"]
    user = {"pipeline": {nm: c for nm, c in zip(names, pl["cfgs"])}}
    m.trace = []
    right_empty = None
    if code == 0:
        try:
            m.check_conf(pu.deep_copy_cfg(user), metaL, metaR)
            out = 0
            ctx.count("impl_accepted")
        except Exception as exc:  # pylint: disable=broad-except
            out = 1
            ctx.count("impl_rejected_" + pu.exc_class(exc))
        tr = []
    else:
        try:
            left, right = pandora.run(m, imgL, imgR, pu.deep_copy_cfg(user))
            right_empty = len(right.data_vars) == 0
            m.last_products = products_digest(left, right)
            out = 2
            ctx.count("impl_ran")
            ctx.traces += 1
        except Exception as exc:  # pylint: disable=broad-except
            out = 3
            ctx.count("impl_run_error_" + pu.exc_class(exc))
        tr = [[names.index(nm), pu.kind_code_of_name(nm), sc, 1 if r else 0] for nm, sc, r in m.trace]
    return [out, real_summary(m), tr], right_empty


_FRESH = {}


def fresh_products(pandora, pl, code, imgL, imgR, ctx):
    """digest of the products of the same run on a machine that has never been used (memoised per pipeline)"""
    key = (json.dumps([pl["names"], pl["cfgs"]], sort_keys=True, default=str), code)
    if key not in _FRESH:
        m = pu.spy_machine()
        user = {"pipeline": {nm: c for nm, c in zip(pl["names"], pl["cfgs"])}}
        try:
            left, right = pandora.run(m, imgL, imgR, pu.deep_copy_cfg(user))
            _FRESH[key] = products_digest(left, right)
            ctx.count("fresh_machine_reference_runs")
        except Exception:  # pylint: disable=broad-except
            _FRESH[key] = None
    return _FRESH[key]


def run_checked_vs_written(ctx, pandora, names, cfgs, hist, metaL, metaR, imgL, imgR):
    """'run as written': the configuration returned by the check (the user's steps completed with their defaults,
    PandoraMachine.pipeline_cfg - what pandora's own main hands to run) drives the same run as the user's own text:
    same callback trace, same products, on the checking machine and on a machine that has never been used."""
    user = {"pipeline": {nm: c for nm, c in zip(names, cfgs)}}
    case = {"names": names, "cfgs": cfgs, "history": hist}
    mw = pu.spy_machine()
    try:
        lw, rw = pandora.run(mw, imgL, imgR, pu.deep_copy_cfg(user))
    except Exception:  # pylint: disable=broad-except
        return  # reported by the run_trace oracle
    want = (products_digest(lw, rw), list(mw.trace))
    mc = pu.spy_machine()
    try:
        mc.check_conf(pu.deep_copy_cfg(user), metaL, metaR)
    except Exception:  # pylint: disable=broad-except
        return  # reported by the acceptance oracle
    checked = pu.deep_copy_cfg({"pipeline": mc.pipeline_cfg["pipeline"]})
    for who, m in (("the machine that checked it", mc), ("a machine that has never been used", pu.spy_machine())):
        m.trace = []
        ctx.count("checked_configuration_runs")
        try:
            lc, rc = pandora.run(m, imgL, imgR, pu.deep_copy_cfg(checked))
        except Exception as exc:  # pylint: disable=broad-except
            ctx.violation("checked_cfg_run_raised",
                          f"accepted pipeline {names}: running the checked configuration (the steps completed with "
                          f"their defaults) on {who} raises {type(exc).__name__}: {exc} - an accepted pipeline must "
                          f"run without sequencing error", case)
            return
        ctx.traces += 1
        got = (products_digest(lc, rc), list(m.trace))
        if got[1] != want[1]:
            ctx.violation("checked_cfg_trace_differs",
                          f"accepted pipeline {names}: the checked configuration run on {who} executes the steps "
                          f"{got[1]}, the configuration as written {want[1]}", case)
            return
        if got[0] != want[0]:
            lay = sorted(set(map(str, lc.data_vars)) ^ set(map(str, lw.data_vars)))
            conf = None
            if "confidence_measure" in lc and "confidence_measure" in lw:
                conf = (list(map(str, lc.coords["indicator"].data)), list(map(str, lw.coords["indicator"].data)))
            ctx.violation("checked_cfg_products_differ",
                          f"accepted pipeline {names}: the checked configuration run on {who} returns other products "
                          f"than the configuration as written (variables differing by name: {lay}; confidence "
                          f"indicators checked/written: {conf}) - the steps do not take effect as configured", case)
            return


def run_mixed(ctx, pandora, model, mixed, metaL, metaR, imgL, imgR):
    """histories mixing different pipelines on ONE machine object"""
    margs = []
    for pls, hist in mixed:
        wire = [[[i, pu.kind_code_of_name(nm), ok, ok] for i, (nm, ok) in enumerate(zip(pl["names"], pl["valid"]))]
                for pl in pls]
        margs.append((2, [wire, hist]))
    mres = model.batch(margs) if margs else []
    for (pls, hist), mr in zip(mixed, mres):
        ctx.count("cases_mixed_history")
        m = pu.spy_machine()
        impl, rempty, dig = [], [], []
        for i, code in hist:
            m.last_products = None
            o, re_ = call_real(pandora, m, pls[i], code, metaL, metaR, imgL, imgR, ctx)
            impl.append(o)
            rempty.append(re_)
            dig.append(m.last_products)
        case = {"mixed": True, "pipelines": pls, "history": hist}
        ctx.case((tuple(tuple(pl["names"]) for pl in pls), tuple(map(tuple, hist))))
        ctx.sample({"kind": "mixed-history", "pipelines": [pl["names"] for pl in pls], "history": hist,
                    "outcome_codes": [o[0] for o in impl]}, limit=12)
        # model and code are compared up to and including the first call that does not return successfully: a
        # refused check (or a failed run) leaves the machine object dirty, which is outside the property
        # ("after checking or running, successfully") and outside the theorem's guard (C01_history_guard_needed)
        cut = next((k + 1 for k, o in enumerate(impl) if o[0] not in (0, 2)), len(impl))
        if cut < len(impl):
            ctx.count("mixed_calls_after_an_unsuccessful_call_not_compared", len(impl) - cut)
        if impl[:cut] != mr[:cut]:
            ctx.mismatch("machine_mixed_history", case, impl[:cut], mr[:cut])
        # spec: as long as the earlier calls returned successfully, a call returns what it returns on a machine
        # that has never been used (independent oracle: documented language / expected trace)
        clean = True
        for pos, ((i, code), o, re_) in enumerate(zip(hist, impl, rempty)):
            if not clean:
                break
            pl = pls[i]
            names = pl["names"]
            legal = doc_accepts(names, pl["valid"])
            has_val = any(nm.split(".")[0] == "validation" for nm in names)
            if code == 0:
                ctx.count("mixed_checks_compared_with_fresh")
                if (o[0] == 0) != legal:
                    ctx.violation("history_mixed_check",
                                  f"pipeline {names} is {'accepted' if legal else 'refused'} on a fresh machine but "
                                  f"{'accepted' if o[0] == 0 else 'refused'} as call {pos} of the "
                                  f"history {hist} over {[p['names'] for p in pls]} on one machine", case)
                if o[0] == 0 and (o[1][:2] != [0, 0] or o[1][2] != (1 if has_val else 0)):
                    ctx.violation("history_mixed_check_state",
                                  f"after the successful check of {names} in history {hist}: state/transitions/"
                                  f"right_disp_map = {o[1]} (want [0, 0, {1 if has_val else 0}])", case)
            elif legal:
                ctx.count("mixed_runs_compared_with_fresh")
                want_tr = [[names.index(nm), pu.kind_code_of_name(nm), sc, 1 if r else 0]
                           for nm, sc, r in expected_trace_py(names, code, has_val)]
                if o[0] != 2 or o[2] != want_tr or o[1][:2] != [0, 0]:
                    ctx.violation("history_mixed_run_trace",
                                  f"accepted pipeline {names} ({code} scale(s)) run after other pipelines on the same "
                                  f"machine (history {hist} over {[p['names'] for p in pls]}): outcome {o[0]}, trace "
                                  f"differs from the fresh-machine trace (each step once per scale, in order, left "
                                  f"then right iff THIS pipeline has a validation step) or machine not restored "
                                  f"({o[1]})", dict(case, got=o, want_trace=want_tr))
                elif (fresh := fresh_products(pandora, pl, code, imgL, imgR, ctx)) is not None \
                        and dig[pos] is not None and dig[pos] != fresh:
                    ctx.violation("history_mixed_products_differ",
                                  f"accepted pipeline {names} ({code} scale(s)) run as call {pos} of the history {hist} over "
                                  f"{[p['names'] for p in pls]} on one machine returns other products than on a machine "
                                  f"that has never been used (a step took effect with something left by an earlier "
                                  f"pipeline: not 'each configured step takes effect as configured')", case)
                elif re_ is not None and re_ != (not has_val):
                    ctx.violation("history_mixed_right_products",
                                  f"pipeline {names} run in history {hist}: right dataset "
                                  f"{'empty' if re_ else 'not empty'} although the pipeline has "
                                  f"{'a' if has_val else 'no'} validation step", case)
            clean = o[0] in (0, 2)


def run_second_round(ctx, model):
    """The second round of check_conf (a validation step is present) checks every step with the two images EXCHANGED.
    Left image with bands r, g, b, right image with the single band r: a semantic_segmentation step on the RGB
    bands is valid for (left, right) and invalid for (right, left) -- the step would run on the right image too.
    Such a pipeline is accepted iff it has no validation step (independent oracle), and the model is given the
    two validities separately."""
    from harness import pandora_util as pu_
    metaL = pu_.meta_dataset(24, 28, (-2, 2), bands=["r", "g", "b"])
    metaR = pu_.meta_dataset(24, 28, None, bands=["r"])
    mc = {"matching_cost_method": "sad", "window_size": 3, "subpix": 1, "band": "r"}
    seg = {"segmentation_method": "stub_seg", "RGB_bands": {"R": "r", "G": "g", "B": "b"}}
    dsp = {"disparity_method": "wta", "invalid_disparity": -9999}
    flt = {"filter_method": "median", "filter_size": 3}
    val = {"validation_method": "cross_checking_accurate", "cross_checking_threshold": 1.0}
    ref = {"refinement_method": "vfit"}
    tails = [[], [("filter", flt)], [("validation", val)], [("filter", flt), ("validation", val)],
             [("validation", val), ("refinement", ref)], [("validation.x", val), ("filter.1", flt)]]
    rp = getattr(ctx, "replay_case", None)
    if rp is not None:
        tails = [[(n, c) for n, c in zip(rp["names"][3:], rp["cfgs"][3:])]]
    cases, margs = [], []
    for tail in tails:
        steps = [("matching_cost", mc), ("semantic_segmentation", seg), ("disparity", dsp)] + tail
        names = [n for n, _ in steps]
        cfgs = [c for _, c in steps]
        wire = [[i, pu_.kind_code_of_name(nm), True, nm != "semantic_segmentation"] for i, nm in enumerate(names)]
        cases.append((names, cfgs))
        margs.append((1, [wire, [0]]))
    mres = model.batch(margs)
    for (names, cfgs), mr in zip(cases, mres):
        ctx.count("cases_second_round")
        m = pu_.spy_machine()
        try:
            m.check_conf(pu_.deep_copy_cfg({"pipeline": dict(zip(names, cfgs))}), metaL, metaR)
            out = 0
        except Exception:  # pylint: disable=broad-except
            out = 1
        impl = [[out, real_summary(m), []]]
        case = {"second_round": True, "names": names, "cfgs": cfgs}
        ctx.case(("second_round", tuple(names)))
        if impl != mr:
            ctx.mismatch("machine_second_round", case, impl, mr)
        has_val = any(nm.split(".")[0] == "validation" for nm in names)
        if (out == 0) != (not has_val):
            ctx.violation("second_round_images",
                          f"left image with bands r,g,b, right image with band r only, pipeline {names}: the "
                          f"segmentation step on the RGB bands is valid for the left image only; with"
                          f"{'' if has_val else 'out'} a validation step (steps take effect on the right data too"
                          f"{'' if has_val else ' only then'}) the pipeline must be "
                          f"{'refused' if has_val else 'accepted'}, it was {'accepted' if out == 0 else 'refused'}", case)


def run_symmetry(ctx, pandora, n):
    """'... on the left data and (when a validation step is present) symmetrically on the right data': the steps take
    effect on the right data as they do on the left data of the exchanged problem (the effect-level statement is
    C08's; here a handful of accepted pipelines with a validation step are run both ways and compared bit for bit,
    with the generators and the comparison of harness/props/c08.py)"""
    from harness.props import c08 as h8
    from pandora.state_machine import PandoraMachine

    rp = getattr(ctx, "replay_case", None)
    cases = [rp] if rp else []
    for _ in range(0 if rp else n):
        names, _interp = h8.gen_pipeline(ctx.rng)
        ms = any(k == "multiscale" for _, k, _ in names)
        left, right, ml, mr, itv = h8.gen_images(ctx.rng, ms)
        cases.append({"symmetry": True, "pipeline": [list(x) for x in names], "left": left.tolist(), "right": right.tolist(),
                      "mask_left": None if ml is None else ml.tolist(), "mask_right": None if mr is None else mr.tolist(),
                      "interval": list(itv)})
    for case in cases:
        names = [tuple(x) for x in case["pipeline"]]
        cfg = {"pipeline": {n_: dict(c) for n_, _, c in names}}
        itv = tuple(case["interval"])
        L = pu.image_dataset(np.array(case["left"], dtype=np.float32), disp=itv, mask=case["mask_left"])
        R = pu.image_dataset(np.array(case["right"], dtype=np.float32), disp=None, mask=case["mask_right"])
        L2 = pu.image_dataset(np.array(case["right"], dtype=np.float32), disp=(-itv[1], -itv[0]), mask=case["mask_right"])
        R2 = pu.image_dataset(np.array(case["left"], dtype=np.float32), disp=None, mask=case["mask_left"])
        try:
            l1, r1 = pandora.run(PandoraMachine(), L, R, pu.deep_copy_cfg(cfg))
            l2, r2 = pandora.run(PandoraMachine(), L2, R2, pu.deep_copy_cfg(cfg))
        except Exception as exc:  # pylint: disable=broad-except
            ctx.count("symmetry_run_raised_" + pu.exc_class(exc))
            continue
        ctx.traces += 2
        ctx.count("symmetry_pairs_compared")
        ctx.case(("symmetry", tuple(n_ for n_, _, _ in names), hash(repr(case["left"]))))
        d1 = h8.diff_products(h8.products(r1), h8.products(l2))
        d2 = h8.diff_products(h8.products(l1), h8.products(r2))
        if d1 or d2:
            ctx.violation("right_not_symmetric",
                          f"accepted pipeline {[n_ for n_, _, _ in names]}: the steps do not take effect on the right data as "
                          f"on the left data of the exchanged problem (right vs mirrored left differ at {d1}; left vs "
                          f"mirrored right at {d2})", case)


def run(ctx):
    import pandora
    from pandora.state_machine import PandoraMachine

    pu.register_stub_plugins()
    rng = ctx.rng
    model = __import__("harness.core", fromlist=["Model"]).Model("x01")
    quick = ctx.tier == "quick"

    cases = []  # (names, cfgs, oks, history, kind of case)

    # A. exhaustive kind sequences, check phase only
    L = 4 if quick else 5
    seqs = [[]]
    frontier = [[]]
    for _ in range(L):
        frontier = [s + [k] for s in frontier for k in pu.KINDS]
        seqs += frontier
    for kinds in seqs:
        names = name_steps(kinds, rng, "min")
        cases.append((names, [valid_cfg(k, rng) for k in kinds], [True] * len(kinds), [0], "exhaustive"))
    ctx.stats["exhaustive_max_len"] = L
    ctx.stats["exhaustive_sequences"] = len(seqs)

    # B. random sequences, suffixes, unknown names, invalid parameters
    nb = 400 if quick else 4000
    for _ in range(nb):
        ln = rng.randrange(1, 13)
        if rng.random() < 0.6:  # start from a legal word, then perturb
            a = [rng.choice(["aggregation", "optimization", "semantic_segmentation", "cost_volume_confidence"])
                 for _ in range(rng.randrange(0, 4))]
            b = [rng.choice(["filter", "refinement", "validation", "multiscale"]) for _ in range(rng.randrange(0, 5))]
            kinds = ["matching_cost"] + a + (["disparity"] + b if rng.random() < 0.8 else [])
            r = rng.random()
            if r < 0.15 and len(kinds) > 1:
                i, j = rng.randrange(len(kinds)), rng.randrange(len(kinds))
                kinds[i], kinds[j] = kinds[j], kinds[i]
            elif r < 0.25:
                kinds.pop(rng.randrange(len(kinds)))
            elif r < 0.35:
                kinds.insert(rng.randrange(len(kinds) + 1), rng.choice(pu.KINDS))
        else:
            kinds = [rng.choice(pu.KINDS) for _ in range(ln)]
        names = name_steps(kinds, rng, "rand")
        cfgs, oks = [], []
        for i, k in enumerate(kinds):
            if rng.random() < 0.08:
                cfgs.append(invalid_cfg(k, rng))
                oks.append(False)
            else:
                cfgs.append(valid_cfg(k, rng))
                oks.append(True)
        if rng.random() < 0.08:  # a name that is not a step kind at all
            i = rng.randrange(len(names) + 1)
            bad = rng.choice(["foo", "check_filter", "", ".matching_cost", "Filter", "filter_", "disparity_map"])
            if bad not in names:
                names.insert(i, bad)
                cfgs.insert(i, {})
                oks.insert(i, True)
        cases.append((names, cfgs, oks, [0], "random"))

    # C. histories with real runs
    nh = 30 if quick else 300
    for _ in range(nh):
        a = [rng.choice(["aggregation", "optimization", "semantic_segmentation", "cost_volume_confidence"])
             for _ in range(rng.randrange(0, 3))]
        b = []
        for _ in range(rng.randrange(0, 4)):
            b.append(rng.choice(["filter", "refinement", "validation", "filter", "multiscale"]))
        kinds = ["matching_cost"] + a + ["disparity"] + b
        if rng.random() < 0.1:
            kinds = kinds[:1 + len(a)]
        names = name_steps(kinds, rng, "rand" if rng.random() < 0.5 else "min")
        cfgs = [valid_cfg(k, rng, runnable=True) for k in kinds]
        n = 1
        for nm, c in zip(names, cfgs):
            if nm.split(".")[0] == "multiscale":
                n = c["num_scales"]
                break
        hist = [rng.choice([0, n]) for _ in range(rng.randrange(2, 5))]
        cases.append((names, cfgs, [True] * len(kinds), hist, "history"))

    # D. illegal pipelines run without a check (error paths, dirty machine afterwards)
    nd = 15 if quick else 150
    for _ in range(nd):
        kinds = ["matching_cost", "disparity", "filter"]
        r = rng.random()
        if r < 0.3:
            kinds = ["disparity", "filter"]
        elif r < 0.6:
            kinds = ["matching_cost", "filter", "disparity"]
        elif r < 0.8:
            kinds = ["matching_cost", "disparity", "aggregation"]
        else:
            kinds = ["matching_cost", "disparity", "matching_cost"]
        names = name_steps(kinds, rng, "min")
        cfgs = [valid_cfg(k, rng, runnable=True) for k in kinds]
        cases.append((names, cfgs, [True] * len(kinds), [1, 0, 0][: rng.randrange(1, 4)], "illegal-run"))

    # E. histories mixing DIFFERENT pipelines on one machine object
    mixed = [gen_mixed(rng) for _ in range(40 if quick else 400)]
    # two fixed ones: the defect repaired by "a configuration check starts from a clean machine"
    vcfg = {"validation_method": "cross_checking_accurate", "cross_checking_threshold": 1.0}
    base = [("matching_cost", {"matching_cost_method": "sad", "window_size": 3, "subpix": 1}),
            ("disparity", {"disparity_method": "wta", "invalid_disparity": -9999})]
    plA = {"names": [n for n, _ in base] + ["validation"], "cfgs": [c for _, c in base] + [vcfg],
           "valid": [True] * 3, "n": 1}
    plB = {"names": [n for n, _ in base] + ["filter"], "cfgs": [c for _, c in base] + [{"filter_method": "median", "filter_size": 3}],
           "valid": [True] * 3, "n": 1}
    mixed.insert(0, ([plA, plB], [[0, 0], [1, 1], [1, 0], [0, 1], [1, 1]]))
    mixed.insert(1, ([plA, plB], [[0, 1], [1, 0], [1, 1]]))

    second_round_only = False
    if getattr(ctx, "replay_case", None) is not None and ctx.replay_case.get("second_round"):
        cases, mixed, second_round_only = [], [], True
    elif getattr(ctx, "replay_case", None) is not None and ctx.replay_case.get("mixed"):
        rc = ctx.replay_case
        cases = []
        mixed = [(rc["pipelines"], rc["history"])]
    elif getattr(ctx, "replay_case", None) is not None:
        mixed = []
        rc = ctx.replay_case
        names = rc["names"]
        cases = [(names, rc["cfgs"], rc.get("valid", [True] * len(names)), rc.get("history", [0]),
                  "history" if any(c > 0 for c in rc.get("history", [0])) else "random")]

    # ---- model side, one batch
    margs = []
    for names, cfgs, oks, hist, _ in cases:
        pl = [[i, pu.kind_code_of_name(nm), ok, ok] for i, (nm, ok) in enumerate(zip(names, oks))]
        margs.append((1, [pl, hist]))
    mres = model.batch(margs) if margs else []

    # ---- implementation side
    metaL, metaR = pu.meta_dataset(24, 28, (-2, 2)), pu.meta_dataset(24, 28, None)
    imgL, imgR = images(rng, 24, 28)
    for (names, cfgs, oks, hist, ckind), mr in zip(cases, mres):
        ctx.count("cases_" + ckind)
        user = {"pipeline": {nm: c for nm, c in zip(names, cfgs)}}
        m = pu.spy_machine()
        impl = []
        cfg_checked = None
        first_exc = None
        for pos, c in enumerate(hist):
            m.trace = []
            if c == 0:
                try:
                    m.check_conf(pu.deep_copy_cfg(user), metaL, metaR)
                    impl.append([0, real_summary(m), []])
                    ctx.count("impl_accepted")
                except Exception as exc:  # pylint: disable=broad-except
                    impl.append([1, real_summary(m), []])
                    ctx.count("impl_rejected_" + pu.exc_class(exc))
                    if pos == 0:
                        first_exc = pu.exc_class(exc)
            else:
                try:
                    pandora.run(m, imgL, imgR, pu.deep_copy_cfg(user))
                    code = 2
                    ctx.count("impl_ran")
                    ctx.traces += 1
                except Exception as exc:  # pylint: disable=broad-except
                    code = 3
                    ctx.count("impl_run_error_" + pu.exc_class(exc))
                tr = [[names.index(nm), pu.kind_code_of_name(nm), sc, 1 if r else 0] for nm, sc, r in m.trace]
                impl.append([code, real_summary(m), tr])
        key = (tuple(names), tuple(oks), tuple(hist)) if len(names) >= 2 else None
        ctx.case(key)
        if len(names) >= 5 and ckind in ("random", "history"):
            ctx.sample({"kind": ckind, "steps": names, "valid": oks, "history": hist,
                        "outcome_codes": [o[0] for o in impl]}, limit=8)
        # correspondence
        if impl != mr:
            ctx.mismatch("machine", {"names": names, "cfgs": cfgs, "valid": oks, "history": hist}, impl, mr)
        # spec check (independent oracle) on the implementation's behaviour, fresh machine first call
        if hist[0] == 0:
            want = doc_accepts(names, oks)
            got = impl[0][0] == 0
            if want != got:
                ctx.violation("accept_" + ("refused_legal" if want else "accepted_illegal"),
                              f"pipeline {names} (valid={oks}): documented automaton says "
                              f"{'accept' if want else 'reject'}, check_conf {'accepted' if got else 'rejected'}",
                              {"names": names, "cfgs": cfgs})
            if got and impl[0][1][:2] != [0, 0]:
                ctx.violation("check_not_restored", f"after a successful check state/transitions = {impl[0][1]}",
                              {"names": names, "cfgs": cfgs})
            # "any other pipeline is rejected with a sequencing error": a pipeline whose steps are all valid but
            # whose names do not spell a documented path must leave check_conf as MachineError
            if not got and all(oks) and not want:
                ctx.count("ill_sequenced_rejections_class_checked")
                if first_exc != "MachineError":
                    ctx.violation("sequencing_error_class",
                                  f"ill-sequenced pipeline {names} (every step valid) is rejected with {first_exc}, "
                                  f"not with the sequencing error MachineError", {"names": names, "cfgs": cfgs})
        if ckind == "history" and doc_accepts(names, oks):
            n = max([c for c in hist if c > 0], default=1)
            rdm = any(nm.split(".")[0] == "validation" for nm in names)
            for c, o in zip(hist, impl):
                if c > 0:
                    want_tr = [[names.index(nm), pu.kind_code_of_name(nm), sc, 1 if r else 0]
                               for nm, sc, r in expected_trace_py(names, n, rdm)]
                    if o[0] != 2 or o[2] != want_tr or o[1][:2] != [0, 0]:
                        ctx.violation("run_trace",
                                      f"accepted pipeline {names} with {n} scale(s): run outcome {o[0]}, "
                                      f"trace differs from 'each step once per scale, in order, left then right' "
                                      f"or machine not restored ({o[1]})",
                                      {"names": names, "cfgs": cfgs, "history": hist, "got": o, "want_trace": want_tr})
                elif o[0] != 0:
                    ctx.violation("history_check", f"accepted pipeline {names}: a later check in history {hist} was refused",
                                  {"names": names, "cfgs": cfgs, "history": hist})
            run_checked_vs_written(ctx, pandora, names, cfgs, hist, metaL, metaR, imgL, imgR)
    run_mixed(ctx, pandora, model, mixed, metaL, metaR, imgL, imgR)
    if getattr(ctx, "replay_case", None) is None or second_round_only:
        run_second_round(ctx, model)
    if getattr(ctx, "replay_case", None) is None or ctx.replay_case.get("symmetry"):
        run_symmetry(ctx, pandora, 12 if quick else 120)
    ctx.stats["mixed_histories"] = len(mixed)
    ctx.gen_obligations = ["check_tbl_wf Gen.Tables.check_table = true (vm_compute)",
                           "run_tbl_wf Gen.Tables.run_table = true (vm_compute)",
                           "check_flow_wf Gen.MachineFlow.flows = true (vm_compute): the regenerated statement "
                           "skeleton of PandoraMachine.check_conf is the control flow Model.Machine.check_conf implements",
                           "run_flow_wf Gen.MachineFlow.flows = true (vm_compute): the regenerated skeletons of "
                           "PandoraMachine.run / run_prepare / run_exit / is_not_last_scale and pandora.run are the "
                           "control flow Model.Machine.run implements"]
