"""C18 -- runs are reproducible and side-effect free whatever the threading.

T-gen : Gen/Prange.v (array accesses of every numba prange loop, translator/gen_prange.py) and
        Gen/History.v (attribute reads/writes of the run callbacks, shared class-level schema
        dictionaries, translator/gen_history.py); the boolean obligations are re-proved by
        vm_compute in Props/C18.v on every run.
Impl-vs-impl (the failing-input search for the property itself; nothing here stands in for a
theorem): the REAL code is executed in worker processes started with NUMBA_NUM_THREADS in
{1,2,4,8} and with PANDORA_NUMBA_PARALLEL=False; in every process each case is run on a fresh
machine, again on the same machine, after a check of the same pipeline on that machine, after
other machine objects checked / ran other pipelines (other matching-cost classes: the shared
class-level schema dict is rewritten) or had a pipeline rejected, and on a fresh machine again.
Every variable of the products is compared bit for bit (sha1 of dtype, shape, dims, bytes) inside
a process and across processes; the caller's datasets (every variable, coordinate, attribute) are
digested before and after every run.  The parallel kernels pandora.run does not reach (sampled
ambiguity / risk, approximate refinement, interval regularisation) are called directly."""
import json
import os
import subprocess
import tempfile
import time

from harness import core

GEN = ["gen_tables", "gen_prange", "gen_history"]
EXTRACT_FILES = []
DRIVERS = []
RULE = ("6 pipelines covering the 9 parallel kernels and every step kind (sad/ssd/census/zncc, subpix, cbca, ambiguity, "
        "risk, interval_bounds with regularisation, std_intensity, wta, vfit/quadratic, median/bilateral, cross-checking "
        "with mc-cnn/sgm filling, 2-scale multiscale, multiband) x random image pairs (11..26 x 16..34, optional masks "
        "with values 1/2, nodata) drawn from VERIF_SEED; one evaluation = one (case, worker process) pair = up to 11 real "
        "runs compared bit for bit; non-trivial = the run succeeds, the left map has valid pixels and the pipeline "
        "executes at least one prange kernel; distinct by (pipeline, image seed, shape, worker environment)")
ASSUMES = [
    "PROVED for the write-set abstraction only: the theorems are about iteration bodies that perform the array accesses "
    "listed in Gen/Prange.v (translator reading of the ast); that numba's generated code, its threading layer (omp/tbb/"
    "workqueue) and its parfor transformation implement the interleaving semantics of Model/Prange.v is sampled by the "
    "worker runs, not proved",
    "float arithmetic inside one iteration is a deterministic function of its inputs (same machine code for every thread)",
    "rule IND (interval_tools.graph_regularization): the segments handed to the kernel are pairwise disjoint -- a "
    "hypothesis of the theorem (owner map), observed on every direct call of interval_regularization by the workers",
    "order-free reductions (nanmin/nanmax) at the top of parallel functions are exact whatever the evaluation order",
    "history theorems are about the model of the state kept on PandoraMachine and on class-level dictionaries "
    "(attribute read/write sets and dictionary writes read by ast); run callbacks are arbitrary functions of the "
    "attributes they read; plugins registered from outside the tree are not seen",
    "in-place writes through numpy views into the caller's arrays cannot be exhibited by a Gallina model: input digests "
    "before/after every real run are the only evidence (sampled)",
]
TRUSTED = ["Gen/Prange.v produced by translator/gen_prange.py (ast of the @njit(parallel=...) functions)",
           "Gen/History.v produced by translator/gen_history.py (ast of PandoraMachine, of the matching-cost classes "
           "and of check_configuration.py)",
           "sha1 digests as equality of byte strings"]

PIPELINES = {
    "P1_sad_conf_vfit_val": {
        "matching_cost": {"matching_cost_method": "sad", "window_size": 3, "subpix": 2},
        "cost_volume_confidence.amb": {"confidence_method": "ambiguity"},
        "cost_volume_confidence.int": {"confidence_method": "interval_bounds", "regularization": True,
                                       "ambiguity_indicator": "amb", "vertical_depth": 2},
        "cost_volume_confidence.risk": {"confidence_method": "risk"},
        "disparity": {"disparity_method": "wta", "invalid_disparity": -9999},
        "refinement": {"refinement_method": "vfit"},
        "filter": {"filter_method": "median", "filter_size": 3},
        "validation": {"validation_method": "cross_checking_accurate", "interpolated_disparity": "mc-cnn"}},
    "P2_census_quadratic_bilateral_sgm": {
        "matching_cost": {"matching_cost_method": "census", "window_size": 5},
        "disparity": {"disparity_method": "wta", "invalid_disparity": "NaN"},
        "refinement": {"refinement_method": "quadratic"},
        "filter": {"filter_method": "bilateral", "sigma_color": 4.0, "sigma_space": 1.5},
        "validation": {"validation_method": "cross_checking_accurate", "cross_checking_threshold": 1.5,
                       "interpolated_disparity": "sgm"}},
    "P3_zncc_cbca_amb_vfit": {
        "matching_cost": {"matching_cost_method": "zncc", "window_size": 3},
        "aggregation": {"aggregation_method": "cbca", "cbca_intensity": 20.0, "cbca_distance": 3},
        "cost_volume_confidence": {"confidence_method": "ambiguity", "eta_max": 0.5, "eta_step": 0.05},
        "disparity": {"disparity_method": "wta", "invalid_disparity": -9999},
        "refinement": {"refinement_method": "vfit"}},
    "P4_ssd_band_risk_val_refine": {
        "matching_cost": {"matching_cost_method": "ssd", "window_size": 5, "band": "g"},
        "cost_volume_confidence.a": {"confidence_method": "ambiguity"},
        "cost_volume_confidence.r": {"confidence_method": "risk"},
        "disparity": {"disparity_method": "wta", "invalid_disparity": -9999},
        "filter": {"filter_method": "median", "filter_size": 3},
        "validation": {"validation_method": "cross_checking_accurate"},
        "refinement": {"refinement_method": "quadratic"}},
    "P5_multiscale_val": {
        "matching_cost": {"matching_cost_method": "sad", "window_size": 3, "band": "r"},
        "disparity": {"disparity_method": "wta", "invalid_disparity": -9999},
        "refinement": {"refinement_method": "vfit"},
        "validation": {"validation_method": "cross_checking_accurate"},
        "multiscale": {"multiscale_method": "fixed_zoom_pyramid", "num_scales": 2, "scale_factor": 2, "marge": 1}},
    "P6_sad_std_bounds_refine_twice": {
        "matching_cost": {"matching_cost_method": "sad", "window_size": 1},
        "cost_volume_confidence.std": {"confidence_method": "std_intensity"},
        "cost_volume_confidence.ib": {"confidence_method": "interval_bounds", "possibility_threshold": 0.8},
        "disparity": {"disparity_method": "wta", "invalid_disparity": -9999},
        "refinement": {"refinement_method": "vfit"},
        "refinement.1": {"refinement_method": "quadratic"},
        "filter": {"filter_method": "median", "filter_size": 3}},
}
PRANGE_STEPS = ("refinement", "cost_volume_confidence")

# worker environments: name -> (NUMBA_NUM_THREADS, PANDORA_NUMBA_PARALLEL, history scenarios?, set_num_threads sweep)
ENVS_QUICK = [
    ("threads4", "4", None, True, None),
    ("threads1", "1", None, False, None),
    ("threads2", "2", None, False, None),
    ("threads8", "8", None, False, None),
    ("parallel_off", "4", "False", False, None),
]


# workers that run, before each case, the same pipeline with every real-valued parameter moved by 5 % on another machine
NEIGHBOUR_FIRST = ("threads2",)


def gen_cases(rng, tier, big=False):
    cases = []
    per_pipeline = 3 if tier == "quick" else 30
    for pname, pipe in PIPELINES.items():
        for k in range(per_pipeline):
            multiscale = "multiscale" in pipe
            bands = 2 if multiscale else 3 if "band" in pipe["matching_cost"] else 1
            if big:
                rows, cols = rng.randrange(101, 131), rng.randrange(101, 141)
            elif multiscale:
                rows, cols = rng.randrange(22, 31), rng.randrange(26, 37)
            else:
                rows, cols = rng.randrange(11, 27), rng.randrange(16, 35)
            if tier == "thorough" and k % 10 == 9 and not multiscale:
                rows, cols = rng.randrange(101, 112), rng.randrange(101, 121)    # straddles the 100-pixel blocks
            dmin = rng.randrange(-4, 0)
            dmax = dmin + rng.randrange(2, 6)
            if multiscale:
                dmin, dmax = -4, 2
            case = {"id": f"{pname}#{k}", "pipeline": pname, "seed": rng.randrange(1, 10 ** 6), "rows": rows, "cols": cols,
                    "bands": bands, "disp": [dmin, dmax], "masks": k % 3 != 1, "nodata": k % 3 == 2,
                    "shift": rng.choice([-1, 1, 2]), "cfg": {"pipeline": pipe},
                    "kernels": pname.startswith("P1") and not big and k < 2, "scenarios": k == 0 or tier == "thorough",
                    "all_envs": k < 2 or tier == "thorough",
                    "refinement": rng.choice(["vfit", "quadratic"])}
            cases.append(case)
    return cases


def launch(name, threads, parallel, spec):
    env = dict(os.environ)
    env["NUMBA_NUM_THREADS"] = threads
    env.pop("PANDORA_NUMBA_PARALLEL", None)
    if parallel is not None:
        env["PANDORA_NUMBA_PARALLEL"] = parallel
    env["PYTHONPATH"] = core.REPO
    env["OMP_NUM_THREADS"] = threads
    env["OMP_WAIT_POLICY"] = "passive"      # idle OpenMP threads sleep: the machine is shared with other checks
    # files, not pipes: the worker's output is larger than a pipe buffer and is read only when it has exited
    fin = tempfile.TemporaryFile("w+")
    fin.write(json.dumps(spec))
    fin.seek(0)
    fout, ferr = tempfile.TemporaryFile("w+"), tempfile.TemporaryFile("w+")
    p = subprocess.Popen([core.PY, "-W", "ignore", os.path.join(core.VERIF, "harness", "c18_worker.py")],
                         stdin=fin, stdout=fout, stderr=ferr, env=env, text=True, cwd=core.VERIF)
    p.fout, p.ferr = fout, ferr
    p.fin = fin
    return p


def run_workers(envs, cases, max_parallel, timeout, full=False, frames=None):
    """returns {env name: worker output or {'error': ...}}"""
    pending = list(envs)
    running = []
    out = {}
    t0 = time.time()
    while pending or running:
        while pending and len(running) < max_parallel:
            name, threads, parallel, scen, sweep = pending.pop(0)
            mine = cases if (scen or full) else [c for c in cases if c.get("all_envs", True)]
            spec = {"cases": mine, "scenarios": scen, "set_threads": sweep, "full": full, "frames": frames,
                    "neighbour_first": name in NEIGHBOUR_FIRST}
            running.append((name, launch(name, threads, parallel, spec), time.time()))
        for item in list(running):
            name, p, ts = item
            if p.poll() is not None:
                p.fout.seek(0)
                p.ferr.seek(0)
                so = p.fout.read()
                se = p.ferr.read()
                for f in (p.fin, p.fout, p.ferr):
                    f.close()
                running.remove(item)
                try:
                    out[name] = json.loads(so[so.index("{"):])
                    out[name]["wall_s"] = round(time.time() - ts, 1)
                except Exception:  # pylint: disable=broad-except
                    out[name] = {"error": f"rc={p.returncode} stdout={so[-300:]!r} stderr={se[-600:]!r}"}
            elif time.time() - ts > timeout:
                p.kill()
                running.remove(item)
                out[name] = {"error": f"timeout after {timeout} s"}
        time.sleep(0.2)
    return out, round(time.time() - t0, 1)


def first_diff(a, b):
    """name of the first product variable whose digest differs"""
    if a == b:
        return None
    if "error" in a or "error" in b:
        return f"error: {a.get('error')} / {b.get('error')}"
    for side in ("left", "right"):
        x, y = a.get(side), b.get(side)
        if x == y:
            continue
        if x is None or y is None:
            return f"{side}: one is missing"
        for k in sorted(set(x) | set(y)):
            if x.get(k) != y.get(k):
                return f"{side}.{k}"
    return "?"


SCENARIO_KEY = [("reused_", "rerun_on_same_machine_differs"), ("after_check", "run_after_check_differs"),
                ("after_other_", "run_after_other_machines_differs"), ("after_rejected_other", "run_after_other_machines_differs"),
                ("same_machine_after_other", "run_after_other_pipeline_on_same_machine_differs"),
                ("fresh_again", "fresh_machine_rerun_differs")]


def analyse(ctx, cases, outs, envs):
    by_id = {c["id"]: c for c in cases}
    ref_env = envs[0][0]
    table = {}     # (env, sweep index, case id) -> result
    for name, o in outs.items():
        if "error" in o:
            ctx.broken_obligation("worker:" + name, o["error"])
            continue
        ctx.stats.setdefault("workers", {})[name] = dict(o["env"], wall_s=o.get("wall_s"))
        # the same small configurations are accepted / refused alike in a new process and after every run
        ps, pe = o.get("probe_start"), o.get("probe_end")
        ctx.count("schema_probe_comparisons", len(ps or []))
        if ps != pe:
            diff = [(a, b) for a, b in zip(ps, pe) if a != b]
            ctx.violation("check_result_depends_on_history",
                          f"matching-cost configurations accepted/refused differently in a new process and after the "
                          f"runs of this process ({name}): {diff[:4]}",
                          {"env": name, "probe_start": ps, "probe_end": pe, "case": cases[0]})
        seen = {}
        for r in o["results"]:
            k = seen.get(r["id"], 0)
            seen[r["id"]] = k + 1
            table[(name, k, r["id"])] = r
    for (name, k, cid), r in sorted(table.items()):
        case = by_id[cid]
        runs = r["runs"]
        fresh = runs.get("fresh", {"error": "missing"})
        info = r.get("info") or {}
        has_prange = any(s.split(".")[0] in PRANGE_STEPS for s in case["cfg"]["pipeline"])
        nontrivial = "error" not in fresh and info.get("valid_left", 0) > 0 and has_prange
        ctx.case((case["pipeline"], case["seed"], case["rows"], case["cols"], name, k) if nontrivial else None)
        ctx.traces += len(runs)
        ctx.count("real_runs", len(runs))
        if "error" in fresh:
            ctx.count("run_raised")
            ctx.notes.append(f"{cid} in {name}: run raised {fresh['error'][:140]}")
        if info.get("fractional_left", 0) > 0:
            ctx.count("cases_with_refined_fractional_disparities")
        if info.get("right_products"):
            ctx.count("cases_with_right_products")
        replay = {"case": case, "env": name}
        # (1) histories inside one process
        for tag, d in runs.items():
            if tag == "fresh":
                continue
            ctx.count("history_comparisons")
            diff = first_diff(fresh, d)
            if diff:
                key = next((kk for pre, kk in SCENARIO_KEY if tag.startswith(pre)), "history_differs")
                ctx.violation(key, f"{cid} ({name}): run '{tag}' differs from the first run on a fresh machine at {diff}",
                              dict(replay, scenario=tag))
        for e in r.get("errors", []):
            ctx.count("scenario_errors")
            ctx.notes.append(f"{cid} in {name}: {e}")
            if e.startswith("second check"):
                ctx.violation("second_check_differs", f"{cid}: {e}", replay)
        # (2) side-effect freedom
        for ch in r.get("inputs_changed", []):
            comps = ch["components"]
            what = "samples" if any(c == "var:im" for c in comps) else \
                "masks" if any(c in ("var:msk", "var:classif", "var:segm") for c in comps) else \
                "attributes" if "attrs" in comps else "coordinates" if any(c.startswith("coord:") for c in comps) else "variables"
            ctx.violation("input_modified_" + what,
                          f"{cid} ({name}): the caller's {ch['side']} dataset changed during run '{ch['after']}': {comps}",
                          dict(replay, scenario=ch["after"]))
        ctx.count("input_digest_comparisons", 2 * len(runs))
        if r.get("cfg_changed"):
            ctx.count("runs_that_wrote_into_the_callers_cfg", len(r["cfg_changed"]))
        # (3) across processes / thread counts
        if (name, k) != (ref_env, 0):
            ref = table.get((ref_env, 0, cid))
            if ref is not None:
                ctx.count("thread_comparisons")
                a, b = ref["runs"].get("fresh", {}), fresh
                par_off = name.startswith("parallel_off")
                if par_off:
                    # the statement names the disparity map and the flags for the switched-off build
                    bad = None
                    if "error" in a or "error" in b:
                        bad = first_diff(a, b)
                    else:
                        for side in ("left", "right"):
                            for v in ("disparity_map", "validity_mask"):
                                if (a.get(side) or {}).get(v) != (b.get(side) or {}).get(v):
                                    bad = bad or f"{side}.{v}"
                    if bad:
                        ctx.violation("parallel_off_differs",
                                      f"{cid}: PANDORA_NUMBA_PARALLEL=False differs from the parallel build at {bad}", replay)
                    elif first_diff(a, b):
                        ctx.count("parallel_off_other_variable_differs")
                        ctx.notes.append(f"{cid}: with PANDORA_NUMBA_PARALLEL=False {first_diff(a, b)} differs "
                                         "(not the disparity map / flags: outside the statement)")
                else:
                    diff = first_diff(a, b)
                    if diff and name in NEIGHBOUR_FIRST:
                        ctx.violation("run_after_other_machines_differs",
                                      f"{cid}: in process {name} another machine first ran the same pipeline with every real "
                                      f"parameter moved by 5 %; the products of the case then differ from {ref_env} (which ran "
                                      f"the case first) at {diff} (or the thread count {r.get('threads_now')} matters)", replay)
                    elif diff:
                        ctx.violation("thread_count_differs",
                                      f"{cid}: products with {name} (threads now {r.get('threads_now')}) differ from "
                                      f"{ref_env} at {diff}", replay)
                # kernels called directly
                ka, kb = ref.get("kernels"), r.get("kernels")
                if ka and kb:
                    for kk in sorted(set(ka) | set(kb)):
                        if kk == "segments_precondition":
                            continue
                        ctx.count("kernel_comparisons")
                        if ka.get(kk) != kb.get(kk):
                            ctx.violation("parallel_off_differs" if par_off and kk in ("refinement", "approximate_refinement")
                                          else "kernel_thread_count_differs" if not par_off else "kernel_parallel_off_differs",
                                          f"{cid}: direct call of kernel {kk} differs between {ref_env} and {name}", replay)
        fa = r.get("frame_audit")
        if fa:
            if "error" in fa:
                ctx.notes.append(f"{cid} in {name}: frame audit run raised {fa['error']}")
            else:
                ctx.count("callbacks_audited_against_generated_frames", fa["callbacks_audited"])
                for b in fa["bad"]:
                    ctx.mismatch("attribute_frames (Gen/History.v)", {"case": case["id"], "callback": b}, b, "inside may-assign + reads")
        kn = r.get("kernels")
        if kn:
            if "error" in kn:
                ctx.broken_obligation("kernel-calls", f"{cid} in {name}: {kn['error']}")
            else:
                sp = kn.get("segments_precondition", {})
                ctx.count("graph_regularization_calls_observed")
                ctx.count("segments_observed", sp.get("segments", 0))
                if sp.get("overlapping_cells", 0) != 0 or not sp.get("rows_match", True):
                    ctx.mismatch("segments_disjoint (hypothesis of rule IND)", {"case": case}, sp, "pairwise disjoint segments")
        ctx.sample({"case": cid, "env": name, "shape": info.get("shape"), "valid_left": info.get("valid_left"),
                    "fractional_left": info.get("fractional_left"), "bands": info.get("confidence_bands"),
                    "runs_compared": len(runs)}, limit=6)


def run(ctx):
    rng = ctx.rng
    broken_before = bool(ctx.broken)
    hints = [n.split("DIAGNOSTIC", 1)[1] for n in ctx.notes if "DIAGNOSTIC" in n]
    if hints:
        for b in ctx.broken:
            if b["name"].startswith("coq:"):
                b["detail"] = f"{b['detail']} | translator hint{' | '.join(hints)}"
    if ctx.replay_case is not None:
        cases = [ctx.replay_case["case"]]
    else:
        cases = gen_cases(rng, ctx.tier)
    envs = list(ENVS_QUICK)
    if ctx.replay_case is not None and ctx.replay_case.get("env") not in (None, envs[0][0]):
        envs = [envs[0]] + [e for e in envs if e[0] == ctx.replay_case["env"]]     # the reference and the named one
    if ctx.tier == "thorough":
        envs += [("threads16", "16", None, False, [16, 5]), ("parallel_off_1", "1", "False", False, None)]
    max_par = 3 if ctx.tier == "quick" else 2
    import sys
    gh = sys.modules.get("gen_history")
    frames = getattr(gh, "LAST", None)      # the datum the translator produced in this run (None if it failed)
    outs, wall = run_workers(envs, cases, max_par, 600 if ctx.tier == "quick" else 3000, full=ctx.tier == "thorough",
                             frames=frames)
    ctx.stats["worker_phase_wall_s"] = wall
    ctx.stats["cases"] = len(cases)
    ctx.stats["pipelines"] = sorted(PIPELINES)
    analyse(ctx, cases, outs, envs)
    if broken_before and not ctx.violations and ctx.replay_case is None:
        # something no longer checks: extended search for a schedule-dependent result (larger images: more
        # iterations per thread, repeated, 1 thread against 8)
        big = gen_cases(rng, "quick", big=True)[::3]
        for c in big:
            c["id"] = "big:" + c["id"]
        envs2 = [("threads1", "1", None, False, None), ("threads8", "8", None, False, [8, 8, 8])]
        outs2, wall2 = run_workers(envs2, big, 2, 600)
        ctx.stats["extended_search_wall_s"] = wall2
        analyse(ctx, big, outs2, envs2)
    ctx.gen_obligations = [
        "forallb race_free_b Gen.Prange.prange_nests = true (vm_compute)",
        "forallb n_switch Gen.Prange.prange_nests = true (vm_compute)",
        "arrays relying on the segments-disjoint data precondition = the two regularised bounds (vm_compute)",
        "run_attrs_covered Gen.History = true, shared_dicts_wf Gen.History = true (vm_compute)",
    ]
