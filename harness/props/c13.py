"""C13 -- results are local: a pixel depends on its neighbourhood, not on its position.

Theorems: Props/C13.v (locality of the cost SPEC, of the sad/ssd/census/zncc MODEL, of the criteria flags, of the
        cbca SPEC and MODEL (through C11's model = spec), of winner-takes-all, refinement, median and bilateral
        filters, cross-checking, of every pipeline of these steps: C13_pipeline_local; crop invariance; vertical
        flip of every pipeline of these steps at every pixel: C13_pipeline_vflip, under the side conditions
        C13_vflip_side_conditions).  The per-step models are tied to the code by the correspondences of
        C02/C03/C04/C06/C07/C10/C11; nothing new is hand-modelled here except the glue Model/Local.v.
T-gen:  the flag sites of criteria.py are regenerated (gen_flags) so that C13_border_flags_symmetric (the two row
        statements of mask_border have the same effect: needed by the flip of the matching-cost validity mask) is
        re-proved on the tree under test.
T-corr: the cone / margin of each pipeline is computed by the EXTRACTED [kpipe_rad] (the radii of the
        theorem, C13_radii_agree; cbca: arms of max(cbca_distance - 1, 1) pixels, + 1 for the 3x3 median
        pre-filter or the window offset) and decides which pixels of a crop are compared.
Search: impl-vs-impl metamorphic runs on the real code (public entry point pandora.run, compiled
        kernels): a whole scene against crops at random offsets / sizes (odd and even offsets), and
        against the vertically flipped scene; disparity maps and validity masks of the left AND right
        products compared bit for bit on the pixels whose cone lies inside the crop.
        A failing (scene, pipeline, crop) is the replay."""
import hashlib
import math

import numpy as np

from harness import core
from harness import pandora_util as pu

GEN = ["gen_flags"]
EXTRACT_FILES = ["X13"]
DRIVERS = ["x13"]
RULE = ("a case = one scene (24-40 x 40-64 pair, integer radiometry inside the exact domain of the measure, right image = "
        "left shifted by -2..2 plus sparse noise, optional masks with no-data (1) and invalid (2) pixels on each side), one "
        "local pipeline (matching cost sad/ssd/census/zncc, window 1/3/5, subpix 1/2/4; optional cbca with cbca_distance 1/2/3/5, "
        "60 % of the cbca scenes low-contrast (radiometry 0..12 or 0..40) so that the arms reach their maximal length; wta with "
        "invalid_disparity -9999 or NaN; optional vfit/quadratic refinement; optional median 3/5 or bilateral filter; "
        "optional cross-checking, optional median after it), an integer interval with |d| <= 4, compared with 2 (quick) "
        "or 4 crops; 1 (quick) / 12 scenes of 103-111 x 104-125 pixels straddle the 100- and 50-pixel blocks of wta, median, bilateral; "
        "crops at random offsets and sizes (offsets of both parities are forced; every other crop keeps the row/col coordinates of the full image, as a ROI read does, the others restart at 0) and with the vertical flip.  Every "
        "measure, cbca, both filters, both refinements and cross-checking are forced to occur.  A case is "
        "non-trivial when the compared interior holds >= 20 pixels, >= 2 distinct disparities and (with cross-checking) "
        ">= 1 flagged pixel; distinct by (pipeline, scene digest, crop)")
ASSUMES = [
    "the per-step models are those of C02/C03/C04/C06/C07/C10/C11 (their correspondences tie them to the code); the "
    "theorem for pipelines (C13_pipeline_local) covers sad/ssd/census/zncc + validity mask, cbca, wta, vfit/quadratic, "
    "median, bilateral, cross-checking; zncc: the model holds the exact integer triple (cov, varL, varR), the float "
    "evaluation of cov/sqrt(varL varR) is any function of it; the vertical flip is proved for the same pipelines "
    "(C13_pipeline_vflip: every pixel, margins included; flags and cost curves equal, disparities equal as rational "
    "numbers) under C13_vflip_side_conditions: odd matching-cost window, odd median filter_size, odd EFFECTIVE "
    "bilateral window min(rows, cols, int(3*sigma_space+1)) with a row-symmetric spatial kernel, census window 3/5, "
    "cbca_distance >= 1, symmetric border flag statements (re-proved on the regenerated sites)",
    "side condition of the bilateral flip theorem: the spatial kernel the real filter builds for the window in effect is "
    "symmetric in rows (checked exactly on every compared bilateral pipeline); the range kernel is a function of its argument",
    "side condition of cross-checking locality (px_ok): a still-valid pixel holds a disparity that rounds into its "
    "interval; checked on the final maps of every run",
    "exact domain (DESIGN 2.1 a): radiometry bounded so that every window sum of the measure is exact in float32; "
    "flips are compared only there and for odd windows (the EFFECTIVE bilateral window min(rows, cols, "
    "int(3*sigma_space+1)) may be even: then the flip is not compared, as the property says and as "
    "C13_vflip_even_window_refuted shows on the model); zncc and cbca-on-real-costs are compared on crops (same "
    "operations in the same order) but not on flips (summation order changes); after an odd-window bilateral filter "
    "(float weighted mean) flipped disparities are compared within 2^-12 and flags are not compared",
    "cbca integral images are running sums from the image side (float64 since the `fix:` commit of this property): "
    "compared strictly when every running sum is exact (integer / dyadic costs: sad, ssd, census); for zncc costs "
    "(arbitrary float32 values) a difference is classified cbca_running_sums_real_costs",
]
TRUSTED = ["numpy slicing of the inputs into crops and of the outputs into interiors (this file)"]

INVALID = 0b01111000011


# ---------------------------------------------------------------- generation


def gen_scene(rng, rows, cols, maxv, masks):
    base = np.array([[rng.randrange(0, maxv + 1) for _ in range(cols + 12)] for _ in range(rows)], dtype=np.float32)
    # piecewise-smooth texture: repeat some columns so that ties and flat areas occur
    for _ in range(rng.randrange(0, 4)):
        x = rng.randrange(0, cols + 8)
        base[:, x + 1:x + 3] = base[:, x:x + 1]
    shift = rng.choice([-2, -1, 0, 1, 2])
    left = base[:, 6:cols + 6].copy()
    noise = np.array([[rng.choice([0, 0, 0, 0, 1, 3]) for _ in range(cols)] for _ in range(rows)], dtype=np.float32)
    right = np.minimum(base[:, 6 + shift:cols + 6 + shift] + noise, maxv).astype(np.float32)
    ml = mr = None
    if masks[0]:
        ml = np.array([[rng.choice([0] * 40 + [1, 2]) for _ in range(cols)] for _ in range(rows)], dtype=np.int16)
    if masks[1]:
        mr = np.array([[rng.choice([0] * 40 + [1, 2]) for _ in range(cols)] for _ in range(rows)], dtype=np.int16)
    return left, right, ml, mr


def gen_pipeline(rng, force):
    """force: dict of forced choices (measure, cbca, filter, refinement, validation)"""
    meas = force.get("measure") or rng.choice(["sad", "ssd", "census", "zncc"])
    win = rng.choice([3, 5]) if meas == "census" else rng.choice([1, 3, 5])
    sub = rng.choice([1, 1, 2, 4])
    p = [["matching_cost", {"matching_cost_method": meas, "window_size": win, "subpix": sub}]]
    ks = [[0, 0]]
    cbca = force.get("cbca", rng.random() < 0.3)
    if cbca:
        dist = rng.choice([1, 2, 3, 5])
        p.append(["aggregation", {"aggregation_method": "cbca", "cbca_intensity": float(rng.choice([5, 20, 60])),
                                  "cbca_distance": dist}])
        ks.append([1, dist])
    p.append(["disparity", {"disparity_method": "wta", "invalid_disparity": rng.choice([-9999, "NaN"])}])
    ks.append([2, 0])
    ref = force.get("refinement", rng.choice([None, None, "vfit", "quadratic"]))
    if ref:
        p.append(["refinement", {"refinement_method": ref}])
        ks.append([2, 0])
    flt = force.get("filter", rng.choice([None, "median", "median", "bilateral"]))
    odd = True
    if flt == "median":
        fs = rng.choice([3, 5])
        p.append(["filter", {"filter_method": "median", "filter_size": fs}])
        ks.append([3, fs])
    elif flt == "bilateral":
        ss = rng.choice([0.5, 0.7, 1.0, 1.4])
        p.append(["filter", {"filter_method": "bilateral", "sigma_color": rng.choice([1.0, 2.0]), "sigma_space": ss}])
        wwin = int(3 * ss + 1)
        odd = wwin % 2 == 1
        ks.append([3, wwin])
    xc = force.get("validation", rng.random() < 0.6)
    if xc:
        p.append(["validation", {"validation_method": "cross_checking_accurate",
                                 "cross_checking_threshold": rng.choice([0.0, 1.0, 1.5])}])
        ks.append([4, 0])
        if rng.random() < 0.25:
            p.append(["filter.after", {"filter_method": "median", "filter_size": 3}])
            ks.append([3, 3])
    return p, ks, {"measure": meas, "window": win, "subpix": sub, "cbca": cbca, "odd_windows": odd, "xcheck": xc}


def exact_maxv(info):
    """largest radiometry for which every window sum of the measure is exact in float32 (DESIGN 2.1 a)"""
    w2, s = info["window"] ** 2, info["subpix"]
    if info["measure"] == "ssd":
        return max(15, min(255, int(math.isqrt((2 ** 24 - 1) // (w2 * s * s)))))
    if info["measure"] == "sad":
        return 1023
    return 255 if info["measure"] == "zncc" else 1023


def cbca_exact(info, maxv, rows, cols):
    """every running sum of cbca_step_1 / cbca_step_3 is exactly representable (float64 accumulators of float32
    costs that are integers or dyadic fractions); zncc costs are arbitrary float32 values"""
    if not info["cbca"]:
        return True
    if info["measure"] == "zncc":
        return False
    w2, s = info["window"] ** 2, info["subpix"]
    cmax = {"sad": w2 * maxv * s, "ssd": w2 * maxv * maxv * s * s, "census": w2}[info["measure"]]
    return cmax * (rows + cols) * 12 < 2 ** 50     # 12 > 2*cbca_distance+1 pixels per arm row


# ---------------------------------------------------------------- running


def run_pipeline(left, right, ml, mr, itv, pipeline, origin=(0, 0)):
    """origin: first row / column coordinate of the datasets (a dataset read through a ROI keeps the
    coordinates of the full image: img_tools.create_dataset_from_inputs)"""
    import pandora
    from pandora.state_machine import PandoraMachine

    L = pu.image_dataset(left, disp=tuple(itv), mask=ml)
    R = pu.image_dataset(right, disp=None, mask=mr)
    if tuple(origin) != (0, 0):
        rows, cols = left.shape
        rc = {"row": np.arange(origin[0], origin[0] + rows), "col": np.arange(origin[1], origin[1] + cols)}
        L = L.assign_coords(**rc)
        R = R.assign_coords(**rc)
    cfg = {"pipeline": {name: dict(c) for name, c in pipeline}}
    l, r = pandora.run(PandoraMachine(), L, R, cfg)
    out = {"ld": np.asarray(l["disparity_map"].values), "lf": np.asarray(l["validity_mask"].values)}
    if "disparity_map" in r:
        out["rd"] = np.asarray(r["disparity_map"].values)
        out["rf"] = np.asarray(r["validity_mask"].values)
    return out


def same(a, b):
    return a.shape == b.shape and a.dtype == b.dtype and a.tobytes() == b.tobytes()


def first_diff(a, b):
    af, bf = a.astype(np.float64), b.astype(np.float64)
    neq = (af != bf) & ~(np.isnan(af) & np.isnan(bf))
    idx = np.argwhere(neq)
    if len(idx) == 0:      # differ by NaN payload / signed zero only
        return {"n": 0}
    y, x = (int(v) for v in idx[0])
    return {"n": int(neq.sum()), "at": [y, x], "whole": float(af[y, x]), "other": float(bf[y, x])}


def px_ok(out, itv):
    """side condition of C13_xcheck_step_local on the final maps: valid => disparity rounds into the interval"""
    bad = 0
    for d, f, lo, hi in (("ld", "lf", itv[0], itv[1]), ("rd", "rf", -itv[1], -itv[0])):
        if d not in out:
            continue
        valid = (out[f].astype(np.int64) & INVALID) == 0
        dd = out[d][valid].astype(np.float64)
        bad += int((np.isnan(dd) | (np.rint(dd) < lo) | (np.rint(dd) > hi)).sum())
    return bad


def crop_arrays(case, sl):
    g = lambda a: None if a is None else np.ascontiguousarray(np.asarray(a)[sl])
    return g(case["left"]), g(case["right"]), g(case["mask_left"]), g(case["mask_right"])


def check_case(ctx, model, case):
    left = np.array(case["left"], dtype=np.float32)
    right = np.array(case["right"], dtype=np.float32)
    ml = None if case["mask_left"] is None else np.array(case["mask_left"], dtype=np.int16)
    mr = None if case["mask_right"] is None else np.array(case["mask_right"], dtype=np.int16)
    arr = {"left": left, "right": right, "mask_left": ml, "mask_right": mr}
    itv, pipeline, ks, info = case["interval"], case["pipeline"], case["ksteps"], case["info"]
    rows, cols = left.shape
    D, M = model.call(1, [info["window"], itv[0], itv[1], ks])
    rr, rl, rm = M[0], M[1], M[2]
    ctx.stats.setdefault("margins_seen", {})[f"{rr}x{rl}"] = ctx.stats.get("margins_seen", {}).get(f"{rr}x{rl}", 0) + 1
    steps = [n for n, _ in pipeline]
    try:
        whole = run_pipeline(left, right, ml, mr, itv, pipeline)
    except Exception as exc:  # pylint: disable=broad-except
        ctx.count("whole_run_raised_" + pu.exc_class(exc))
        ctx.notes.append(f"whole run raised {type(exc).__name__}: {str(exc)[:100]} on {steps}")
        ctx.case(None)
        # a tile of a scene that cannot be processed whole: if the tile is processed, the two framings disagree
        for crop in case["crops"]:
            r0, c0, h, w = crop[:4]
            cl, cr, cml, cmr = crop_arrays(arr, (slice(r0, r0 + h), slice(c0, c0 + w)))
            try:
                run_pipeline(cl, cr, cml, cmr, itv, pipeline)
            except Exception:  # pylint: disable=broad-except
                continue
            ctx.violation("whole_raises_crop_runs_" + pu.exc_class(exc),
                          f"pipeline {steps} raises {type(exc).__name__} ({str(exc)[:80]}) on the whole {rows}x{cols} scene "
                          f"but runs on its crop {crop[:4]}", dict(case, crops=[crop]))
            break
        return
    ctx.traces += 1
    nb = px_ok(whole, itv)
    ctx.count("side_condition_px_ok_checked")
    if nb:
        ctx.mismatch("assumption_px_ok", {"pipeline": pipeline, "interval": itv}, f"{nb} valid pixels out of the interval", 0)
    exact_cbca = cbca_exact(info, case["maxv"], rows, cols)
    digest = hashlib.sha1(left.tobytes() + right.tobytes()).hexdigest()[:12]

    def report(kind, name, d, extra):
        if info["cbca"] and not exact_cbca:
            key = "cbca_running_sums_real_costs"
        else:
            key = f"{kind}_differs_{name}_" + "_".join(sorted({n.split('.')[0] for n in steps}))
        rep = dict(case)
        rep.update(extra)
        ctx.violation(key, f"pipeline {steps} ({info['measure']} w={info['window']} subpix={info['subpix']}), interval {itv}, "
                           f"scene {rows}x{cols}: {name} of the {kind} differs from the whole-image run on {d.get('n')} "
                           f"pixel(s) of the compared area, first at {d.get('at')}: whole {d.get('whole')} vs {d.get('other')} "
                           f"({extra})", rep)

    # ---- crops
    for icrop, crop in enumerate(case["crops"]):
        r0, c0, h, w = crop[:4]
        # every other crop keeps the coordinates of the full image (as a ROI read does), the others restart at 0
        absolute = bool(crop[4]) if len(crop) > 4 else icrop % 2 == 1
        sl = (slice(r0, r0 + h), slice(c0, c0 + w))
        cl, cr, cml, cmr = crop_arrays(arr, sl)
        try:
            part = run_pipeline(cl, cr, cml, cmr, itv, pipeline, origin=(r0, c0) if absolute else (0, 0))
        except Exception as exc:  # pylint: disable=broad-except
            ctx.count("crop_run_raised_" + pu.exc_class(exc))
            ctx.violation("crop_raises_" + pu.exc_class(exc),
                          f"pipeline {steps} runs on the whole {rows}x{cols} scene but raises {type(exc).__name__} "
                          f"({str(exc)[:80]}) on the crop {crop} (full-image coordinates: {absolute})",
                          dict(case, crops=[[r0, c0, h, w, int(absolute)]]))
            continue
        ctx.traces += 1
        isl = (slice(rr, h - rr), slice(rl, w - rm))
        wsl = (slice(r0 + rr, r0 + h - rr), slice(c0 + rl, c0 + w - rm))
        npx = max(0, h - 2 * rr) * max(0, w - rl - rm)
        ok = True
        for name in ("ld", "lf", "rd", "rf"):
            if name not in whole:
                continue
            a, b = whole[name][wsl], part[name][isl]
            if not same(a, b):
                ok = False
                report("crop_abs_coords" if absolute else "crop", name, first_diff(a, b),
                       {"crop": [r0, c0, h, w, int(absolute)], "margin": [rr, rl, rm]})
        ctx.count("crops_compared")
        ctx.count("crops_with_full_image_coordinates" if absolute else "crops_with_coordinates_from_0")
        ctx.count("interior_pixels_compared", npx)
        ctx.count("crop_offset_parity_%d%d" % (r0 % 2, c0 % 2))
        dl = whole["ld"][wsl]
        nd = len(np.unique(dl[~np.isnan(dl)]))
        flagged = int((whole["lf"][wsl] != 0).sum())
        nontrivial = npx >= 20 and nd >= 2 and (not info["xcheck"] or flagged >= 1)
        ctx.case((tuple(steps), info["measure"], digest, tuple(crop[:4])) if nontrivial and ok else None)
        ctx.sample({"steps": steps, "measure": info["measure"], "window": info["window"], "subpix": info["subpix"],
                    "scene": [rows, cols], "interval": itv, "crop": crop[:4], "full_image_coordinates": absolute, "margin_rows_left_right": [rr, rl, rm],
                    "interior_pixels": npx, "distinct_disparities": nd, "flagged": flagged})
    # ---- vertical flip
    if case.get("flip"):
        # side condition of C13_bilateral_step_vflip: the EFFECTIVE window min(rows, cols, int(3 sigma_space + 1)) is odd
        # (bilateral.py clips the window to the image), and every median filter_size is odd
        eff_odd = all(min(rows, cols, int(3 * c["sigma_space"] + 1)) % 2 == 1 for _, c in pipeline
                      if c.get("filter_method") == "bilateral") and \
            all(int(c["filter_size"]) % 2 == 1 for _, c in pipeline if c.get("filter_method") == "median")
        flip_ok = info["odd_windows"] and eff_odd and info["measure"] != "zncc" and not (info["cbca"] and not exact_cbca)
        # side condition of C13_bilateral_step_vflip on the data of the real filter: the spatial kernel it builds for the
        # window in effect is symmetric in rows (sk[win-1-a, b] == sk[a, b], exactly)
        for _, c in pipeline:
            if c.get("filter_method") == "bilateral" and eff_odd:
                import pandora.filter as flt
                fobj = flt.AbstractFilter(cfg=dict(c), image_shape=(rows, cols), step=1)
                wk = min(rows, cols, int(3 * c["sigma_space"] + 1))
                sk = np.asarray(fobj.gauss_spatial_kernel(wk, c["sigma_space"]))
                ctx.count("side_condition_bilateral_kernel_row_symmetric_checked")
                if not same(sk, np.ascontiguousarray(sk[::-1])):
                    ctx.mismatch("assumption_bilateral_kernel_row_symmetric", {"window": wk, "sigma_space": c["sigma_space"]},
                                 sk.tolist(), sk[::-1].tolist())
        if not flip_ok:
            ctx.count("flip_not_compared_even_window_or_real_valued")
            return
        f = lambda a: None if a is None else np.ascontiguousarray(a[::-1])
        try:
            fl = run_pipeline(f(left), f(right), f(ml), f(mr), itv, pipeline)
        except Exception as exc:  # pylint: disable=broad-except
            ctx.count("flip_run_raised_" + pu.exc_class(exc))
            return
        ctx.traces += 1
        ctx.count("flips_compared")
        okf = True
        bilateral = any(c.get("filter_method") == "bilateral" for _, c in pipeline)
        for name in ("ld", "lf", "rd", "rf"):
            if name not in whole:
                continue
            a, b = whole[name], fl[name][::-1]
            if bilateral:
                # real-valued kernel (bridging rule b): the weighted mean is a float sum whose order changes with the
                # flip; disparities within 2^-12, flags not compared (a threshold decision may sit on the rounding)
                if name in ("ld", "rd"):
                    af, bf = a.astype(np.float64), b.astype(np.float64)
                    bad = ~((np.isnan(af) & np.isnan(bf)) | (np.abs(af - bf) <= 2.0 ** -12))
                    if bad.any():
                        okf = False
                        y, x = (int(v) for v in np.argwhere(bad)[0])
                        report("vertical_flip", name, {"n": int(bad.sum()), "at": [y, x], "whole": float(af[y, x]),
                                                       "other": float(bf[y, x])}, {"flip": True})
                continue
            if not same(a, b):
                okf = False
                report("vertical_flip", name, first_diff(a, b), {"flip": True})
        ctx.case((tuple(steps), info["measure"], digest, "flip") if okf else None)


# ---------------------------------------------------------------- the finding bilateral_window_clipped_to_even_size


def probe_clipped_bilateral(ctx, case=None):
    """Side condition of C13_bilateral_step_vflip, read on the real code: the bilateral window in effect is
    min(rows, cols, int(3 sigma_space + 1)); an odd requested window (7 for sigma_space 2.0) clipped to an even size by a
    4-row image is not symmetric about its centre, and the flipped run is not the flip of the run
    (C13_vflip_clipped_window_refuted is the same fact on the model).  A 7-row image (window not clipped) is the control."""
    rng = ctx.rng
    if case is None:
        left, right, _, _ = gen_scene(rng, 7, 40, 255, (False, False))
        case = {"probe": "clipped_bilateral", "left": left.tolist(), "right": right.tolist(), "interval": [-2, 2],
                "pipeline": [["matching_cost", {"matching_cost_method": "sad", "window_size": 1, "subpix": 1}],
                             ["disparity", {"disparity_method": "wta", "invalid_disparity": -9999}],
                             ["filter", {"filter_method": "bilateral", "sigma_color": 2.0, "sigma_space": 2.0}]]}
    left7 = np.array(case["left"], dtype=np.float32)
    right7 = np.array(case["right"], dtype=np.float32)
    for rows in (7, 4):
        left, right = np.ascontiguousarray(left7[:rows]), np.ascontiguousarray(right7[:rows])
        try:
            w = run_pipeline(left, right, None, None, case["interval"], case["pipeline"])
            f = run_pipeline(np.ascontiguousarray(left[::-1]), np.ascontiguousarray(right[::-1]), None, None,
                             case["interval"], case["pipeline"])
        except Exception as exc:  # pylint: disable=broad-except
            ctx.count("probe_clipped_bilateral_raised_" + pu.exc_class(exc))
            return
        ctx.traces += 2
        a, b = w["ld"].astype(np.float64), f["ld"][::-1].astype(np.float64)
        bad = ~((np.isnan(a) & np.isnan(b)) | (np.abs(a - b) <= 2.0 ** -12))
        ctx.count(f"probe_bilateral_window7_on_{rows}_rows_flip_" + ("differs" if bad.any() else "agrees"))
        if bad.any():
            y, x = (int(v) for v in np.argwhere(bad)[0])
            key = "bilateral_window_clipped_to_even_size" if rows == 4 else "vertical_flip_differs_ld_bilateral_unclipped_window"
            ctx.violation(key, f"bilateral filter sigma_space 2.0 (window int(3*2+1) = 7, odd) on a {rows}x40 image: the window in "
                               f"effect is min(rows, cols, 7) = {min(rows, 7)}; the disparity map of the vertically flipped pair "
                               f"differs from the flipped disparity map on {int(bad.sum())} pixel(s), first at {[y, x]}: "
                               f"{float(a[y, x])} vs {float(b[y, x])}", dict(case))
    ctx.case(("probe", "clipped_bilateral"))


# ---------------------------------------------------------------- cases


def gen_case(rng, model, force, ncrops):
    pipeline, ks, info = gen_pipeline(rng, force)
    dmin = rng.randrange(-4, 2)
    dmax = dmin + rng.randrange(1, 5)
    _, M = model.call(1, [info["window"], dmin, dmax, ks])
    rr, rl, rm = M
    rows = rng.randrange(max(24, 2 * rr + 10), max(24, 2 * rr + 10) + 14)
    cols = rng.randrange(max(40, rl + rm + 14), max(40, rl + rm + 14) + 20)
    if force.get("big"):     # straddles the 100-pixel (50 for bilateral) blocks of wta / median / bilateral
        rows, cols = rng.randrange(103, 112), rng.randrange(104, 126)
    maxv = rng.choice([exact_maxv(info), min(255, exact_maxv(info))])
    if info["cbca"] and rng.random() < 0.6:
        # low-contrast scene: intensity jumps below cbca_intensity, so that the arms reach their maximal length
        # max(cbca_distance - 1, 1) and the support regions fill the proved cone (random 10-bit radiometry gives
        # one-pixel arms almost everywhere)
        maxv = rng.choice([12, 40])
    if force.get("big_radiometry"):
        maxv = 4000
    if force.get("wide_invalid"):   # a strip several 50-window blocks wide
        rows, cols = rng.randrange(24, 34), rng.randrange(130, 170)
    left, right, ml, mr = gen_scene(rng, rows, cols, maxv, (rng.random() < 0.6, rng.random() < 0.6))
    crops = []
    if force.get("wide_invalid"):
        # a masked area wider than a block of the filters on the left of the scene, and a tile taken on its right
        band = rng.randrange(54, 70)
        ml = np.zeros((rows, cols), dtype=np.int16) if ml is None else ml
        ml[:, :band] = 2
        c0 = band + rng.randrange(2, 8)
        crops.append([0, c0, rows, cols - c0])
    for j in range(ncrops):
        h = rng.randrange(2 * rr + 4, rows + 1)
        w = rng.randrange(rl + rm + 6, cols + 1)
        r0 = rng.randrange(0, rows - h + 1)
        c0 = rng.randrange(0, cols - w + 1)
        # both parities of the offsets are forced over the crops of a case when there is room
        want = (j % 2, (j // 2 + j) % 2)
        if r0 % 2 != want[0] and r0 + 1 + h <= rows:
            r0 += 1
        if c0 % 2 != want[1] and c0 + 1 + w <= cols:
            c0 += 1
        crops.append([r0, c0, h, w])
    return {"pipeline": pipeline, "ksteps": ks, "info": info, "interval": [dmin, dmax], "maxv": maxv,
            "left": left.tolist(), "right": right.tolist(),
            "mask_left": None if ml is None else ml.tolist(), "mask_right": None if mr is None else mr.tolist(),
            "crops": crops, "flip": maxv <= exact_maxv(info)}


FORCED = [
    {"measure": "sad", "validation": True, "filter": "median"},
    {"measure": "ssd", "cbca": True, "validation": True},
    {"measure": "census", "filter": "bilateral"},
    {"measure": "zncc", "refinement": "vfit", "cbca": False},
    {"measure": "sad", "cbca": True, "refinement": "quadratic"},
    {"measure": "census", "validation": True, "cbca": False, "filter": "median"},
    {"measure": "ssd", "refinement": "vfit", "validation": True, "cbca": False},
    {"measure": "zncc", "validation": True, "cbca": False, "filter": "bilateral"},
    {"measure": "census", "cbca": True, "validation": True},
    {"measure": "sad", "filter": "bilateral", "validation": True, "cbca": False},
]
WIDE = [{"measure": "sad", "filter": "bilateral", "cbca": False, "validation": False, "wide_invalid": True},
        {"measure": "census", "filter": "median", "cbca": False, "validation": False, "wide_invalid": True}]
BIG = [{"measure": "sad", "filter": "median", "cbca": False, "big": True, "validation": False},
       {"measure": "census", "filter": "bilateral", "cbca": False, "big": True, "validation": True}]


def run(ctx):
    model = core.Model("x13")
    rng = ctx.rng
    # the extracted radii on a known pipeline (same numbers as Example C13_example_hyps)
    D, M = model.call(1, [3, -2, 1, [[0, 0], [2, 0], [2, 0], [3, 3], [4, 0]]])
    if D != [2, 6, 6] or M != [2, 6, 6]:
        ctx.mismatch("radii_example", "window 3, [-2,1], mc wta refine median3 xcheck", [D, M], [[2, 6, 6], [2, 6, 6]])
    ctx.stats["example_radii"] = {"data_cone": D, "margin": M}
    # with cbca_distance 3 (arms of at most 2 pixels) and median 5: rows 1 + 2 + 2, columns 5 + 2 + 2
    D2, M2 = model.call(1, [3, -2, 1, [[0, 0], [1, 3], [2, 0], [3, 5], [4, 0]]])
    if D2 != [5, 9, 9] or M2 != [5, 9, 9]:
        ctx.mismatch("radii_example_cbca", "window 3, [-2,1], mc cbca3 wta median5 xcheck", [D2, M2], [[5, 9, 9], [5, 9, 9]])
    ctx.stats["example_radii_cbca"] = {"data_cone": D2, "margin": M2}
    if ctx.replay_case is not None and ctx.replay_case.get("probe") == "clipped_bilateral":
        probe_clipped_bilateral(ctx, dict(ctx.replay_case))
        return
    if ctx.replay_case is not None:
        case = dict(ctx.replay_case)
        if "crop" in case:          # a failing crop: replay that crop only
            case["crops"] = [case["crop"]]
            case["flip"] = False
        elif case.get("flip") is True and "margin" not in case and "crop" not in case and ctx.replay_path and "flip" in ctx.replay_path:
            case["crops"] = []
        check_case(ctx, model, case)
        return
    # corpus first: inputs that once showed a defect
    import glob
    import json
    import os
    for path in sorted(glob.glob(os.path.join(core.VERIF, "corpus", "C13", "*.json"))):
        with open(path) as fh:
            ccase = json.load(fh)
        if ccase.get("probe") == "clipped_bilateral":      # the input of the finding bilateral_window_clipped_to_even_size
            probe_clipped_bilateral(ctx, ccase)
        else:
            check_case(ctx, model, ccase)
        ctx.count("corpus_cases")
    n_scenes, ncrops = (18, 2) if ctx.tier == "quick" else (300, 4)
    n_big = 1 if ctx.tier == "quick" else 12
    for i in range(n_scenes + n_big):
        if i >= n_scenes:
            force = dict(BIG[(i - n_scenes) % len(BIG)])
            ctx.count("scenes_larger_than_the_100_pixel_blocks")
        else:
            force = dict(FORCED[i % len(FORCED)]) if i < 2 * len(FORCED) or i % 3 == 0 else {}
        case = gen_case(rng, model, force, ncrops)
        for k in ("measure", "cbca", "xcheck"):
            ctx.count(f"{k}_{case['info'][k]}")
        for name, c in case["pipeline"]:
            if name.startswith("filter"):
                ctx.count("filter_" + c["filter_method"])
            if name == "refinement":
                ctx.count("refinement_" + c["refinement_method"])
        ctx.count("masks_left" if case["mask_left"] is not None else "no_mask_left")
        ctx.count("masks_right" if case["mask_right"] is not None else "no_mask_right")
        check_case(ctx, model, case)
    # a masked area wider than the 50 / 100-window blocks of the filters, tiles taken beside it
    for i in range(2 if ctx.tier == "quick" else 16):
        case = gen_case(rng, model, dict(WIDE[i % len(WIDE)]), 1)
        ctx.count("scenes_with_a_masked_area_wider_than_a_filter_block")
        check_case(ctx, model, case)
    # 12-bit radiometry through zncc: the integral images of the means / variances are running sums from the first
    # row of the tile; they are exact (float64 sums of integers), hence independent of where the tile starts
    for i in range(1 if ctx.tier == "quick" else 8):
        case = gen_case(rng, model, {"measure": "zncc", "cbca": False, "refinement": ["quadratic", "vfit"][i % 2],
                                     "big_radiometry": True}, 3)
        ctx.count("zncc_12bit_radiometry_cases")
        check_case(ctx, model, case)
    if ctx.tier != "quick":
        probe_clipped_bilateral(ctx)       # the same probe on a fresh scene
        # regression of the repaired defect: ssd costs of 12-bit radiometry through cbca (float32 running sums
        # depended on the distance to the image side)
        for i in range(6):
            case = gen_case(rng, model, {"measure": "ssd", "cbca": True, "refinement": "vfit", "big_radiometry": True}, 2)
            ctx.count("cbca_large_costs_cases")
            check_case(ctx, model, case)
