"""C19 -- saved products equal the computed ones and the saved configuration replays.

T-gen : Gen/SavePlan.v (the write_data_array calls of common.save_results by ast, the default
        dtype, output_tree_design.OTD by import) and Gen/Schemas.v (input schemas, step classes);
        Props/C19.v re-proves at every run that the regenerated call table is the documented one
        up to order (plan_wf) and that the regenerated schemas allow the replay theorems.
        Gen/SaveFns.v (translator/gen_save_fns.py): the BODIES of common.write_data_array, save_results, save_config,
        output_tree_design.get_out_dir / get_out_file_path, check_configuration.read_config_file and pandora.main
        translated statement by statement (ast, fail closed) over Model/SavePrims.v; Props/C19.v re-proves at every
        run that each generated function equals the hand-written model for ALL inputs and restates the theorems on
        the generated functions.
T-corr: the REAL command-line entry pandora.main, in process, on small synthetic rasters written
        with rasterio into a mkdtemp directory outside /repo and /verif (removed afterwards):
        (1) Model/Save.v run on the in-memory products that main handed to save_results against
            every GeoTIFF read back (paths, dtype, band count, descriptions, every sample);
        (2) Model/SavedCfg.v main_saved against cfg/config.json (json.load, key order included);
        (3) Model/SavedCfg.v full_check on the saved configuration against the real check_conf;
        (4) Model/JsonText.v print / parse against json.dumps / json.loads (generated values of the subset, malformed
            neighbours, the text of the user file and of cfg/config.json of every case) and Model/SavedFile.v main_file
            (text of the user file -> text of cfg/config.json -> the same text).
Spec  : independent Python oracle of the property sentence on the same runs: file set (right_*
        iff a validation step), float32 / uint16, one band per indicator named after it, samples
        equal to the in-memory products (NaN-aware) and to the products of an independent
        pandora.run, georeferencing of the input image, config.json loadable = completed
        configuration + margins, and the replay: main on cfg/config.json is accepted and writes
        the same rasters and the same configuration."""
import copy
import json
import math
import os
import shutil
import tempfile

import numpy as np

from harness import core
from harness import jsonwire as jw
from harness import pandora_util as pu

GEN = ["gen_save", "gen_schemas", "gen_save_fns"]
EXTRACT_FILES = ["X19"]
DRIVERS = ["x19"]
RULE = ("each case = one configuration file run through pandora.main, an independent pandora.run, and a second "
        "pandora.main on the saved cfg/config.json.  Generated: image 8..14 x 10..18 (20x24 with multiscale), mono or "
        "3-band, georeferenced or not, mask / nodata, integer interval or disparity grids (left only, or both), "
        "matching cost sad/ssd/census/zncc, optional cbca, 0..3 confidence steps (suffixed names), invalid_disparity "
        "in {default, -5, 'NaN', nan}, optional refinement / filter / validation (+ interpolation, suffixed) / "
        "trailing filter / multiscale.  A case is non-trivial when main accepted the configuration and wrote files; "
        "distinct by (pipeline step names and methods, interval kind, bands, invalid_disparity).  Separate stream for the JSON "
        "text (not counted as cases; counters json_*): random configuration-like values of the JSON subset (depth <= 4, ints up "
        "to 1e20, floats whose repr has no exponent, NaN / inf, strings of printable ASCII without quote / backslash), "
        "json.dumps compact and indent=2 against the model's print, json.loads against the model's parse, and two malformed "
        "neighbours (a character deleted / inserted / doubled, or truncation) on which json.loads and the model's parser must agree")
ASSUMES = [
    "the restated theorems on the generated functions take the numpy / xarray invariants as hypotheses: arrays are "
    "rectangular (rect2), a cube has one value per indicator at every pixel, the left dataset returned by run is not "
    "empty; and the environment of main as hypotheses (env_ok): check_conf is Model/SavedCfg.v full_check, the run "
    "leaves run_rewrites of cfg -- both compared with the real code on every case (correspondences 2 and 3)",
    "GeoTIFF encoding / decoding by rasterio + GDAL is outside the model: 'write then read returns the array, dtype, "
    "descriptions, crs, transform' is sampled on every file of every case, not proved",
    "the cast of rasterio's write is modelled as numpy astype; the theorems take the IEEE contract (a float32-"
    "representable value is returned unchanged by the float32 cast) as an explicit hypothesis and the bound "
    "flags < 4096 (C04) for the uint16 cast; the harness checks on every run that the in-memory arrays already "
    "have the dtype of the file",
    "json.dump / json.load are modelled by Model/JsonText.v (printer / parser of the JSON subset: no escape sequence, no "
    "exponent, ASCII, NaN / Infinity tokens as Python writes them); the model is compared with json.dumps / json.loads on "
    "generated values, on malformed neighbours of their texts, and on the two files of every case; a text with a key twice "
    "(json.loads keeps the last value) is outside the subset",
    "file-system facts (a path opens, sizes, band names) are oracles of the configuration model; the harness only "
    "writes consistent inputs",
    "a value loaded by json.load is a Python dict: keys are unique at every level (hypothesis `nodup` of the "
    "replay theorems)",
    "right products exist iff the pipeline has a validation step is taken from C01/C08 "
    "(C08_no_validation_right_empty) as a named hypothesis of C19_right_files_iff_validation, and compared on "
    "every case",
    "cost_volume_confidence_run overwrites the undocumented `indicator` key of its step with the suffix of the "
    "step name: 'completed configuration' is read as the configuration as run (observation O3 in the report)",
]
TRUSTED = ["Gen/SavePlan.v produced by translator/gen_save.py (ast of common.save_results, OTD by import)",
           "Gen/SaveFns.v produced by translator/gen_save_fns.py (ast of the seven function bodies) and the semantics "
           "Model/SavePrims.v gives to the rasterio / numpy / xarray / json / dict constructs it meets (rasterio.open, "
           "write, descriptions, a[:, :, k], json.dump(indent=), dict(), os.path.join, aliasing of dictionaries)",
           "Gen/Schemas.v produced by translator/gen_schemas.py",
           "Spec/Save.v read as the meaning of the first sentence of the property"]

EXPECTED_DTYPE = {"disparity": "float32", "confidence_measure": "float32", "validity_mask": "uint16"}
VAR = {"disparity": "disparity_map", "confidence_measure": "confidence_measure", "validity_mask": "validity_mask"}


# ------------------------------------------------------------------------------------------- cases

def gen_case(rng, idx, quick):
    multiscale = rng.random() < 0.08
    rows, cols = (rng.randrange(20, 25), rng.randrange(24, 29)) if multiscale else (rng.randrange(8, 15), rng.randrange(10, 19))
    bands = rng.choice([None, None, ["r", "g", "b"]])
    dmin = rng.randrange(-3, 1)
    dmax = dmin + rng.randrange(0, 4)
    pipe = {}
    mc_method = rng.choice(["sad", "ssd", "census", "zncc"])
    mc = {"matching_cost_method": mc_method}
    if rng.random() < 0.7:
        mc["window_size"] = rng.choice([3, 5])
    if rng.random() < 0.3:
        mc["subpix"] = rng.choice([1, 2])
    if bands:
        mc["band"] = rng.choice(bands)
    mc_name = "matching_cost" if rng.random() < 0.9 else "matching_cost.m"
    pipe[mc_name] = mc
    if not bands and rng.random() < 0.25:
        pipe["aggregation"] = {"aggregation_method": "cbca"}
    nconf = rng.choice([0, 0, 1, 1, 2, 3])
    conf_methods = rng.sample(["ambiguity", "std_intensity", "risk", "ambiguity"], nconf)
    for j, m in enumerate(conf_methods):
        name = "cost_volume_confidence" if (j == 0 and rng.random() < 0.6) else "cost_volume_confidence." + rng.choice("abcd") + str(j)
        c = {"confidence_method": m}
        if m in ("ambiguity", "risk") and rng.random() < 0.5:
            c["eta_max"] = rng.choice([0.3, 0.5, 0.7])
            c["eta_step"] = rng.choice([0.1, 0.05])
        pipe[name] = c
    disp = {"disparity_method": "wta"}
    inv = rng.choice(["default", "default", "NaN", "nan", -5])
    if inv == "NaN":
        disp["invalid_disparity"] = "NaN"
    elif inv == "nan":
        disp["invalid_disparity"] = float("nan")
    elif inv != "default":
        disp["invalid_disparity"] = inv
    pipe["disparity"] = disp
    if rng.random() < 0.35:
        pipe["refinement"] = {"refinement_method": rng.choice(["vfit", "quadratic"])}
    if rng.random() < 0.4:
        f = {"filter_method": rng.choice(["median", "median", "bilateral"])}
        if f["filter_method"] == "median" and rng.random() < 0.5:
            f["filter_size"] = 3
        pipe["filter"] = f
    validation = rng.random() < 0.5
    if validation:
        v = {"validation_method": "cross_checking_accurate"}
        if rng.random() < 0.4:
            v["cross_checking_threshold"] = rng.choice([0, 1, 0.5, 2.0])
        if rng.random() < 0.4:
            v["interpolated_disparity"] = rng.choice(["mc-cnn", "sgm"])
        pipe["validation" if rng.random() < 0.75 else "validation.v"] = v
        if rng.random() < 0.25:
            pipe["filter.post"] = {"filter_method": "median"}
    interval = "list"
    if not multiscale and rng.random() < 0.3:
        interval = "grids_both" if (validation or rng.random() < 0.4) else "grid_left"
    if multiscale:
        pipe["multiscale"] = {"multiscale_method": "fixed_zoom_pyramid", "num_scales": 2, "scale_factor": 2}
    return {"idx": idx, "seed": rng.randrange(1 << 30), "rows": rows, "cols": cols, "bands": bands,
            "georef": rng.random() < 0.5, "mask": rng.random() < 0.3, "nodata": rng.choice([None, None, -9999, "NaN", 7]),
            "interval": interval, "disp": [dmin, dmax], "pipeline": jw.show(pipe),
            # a third of the runs the way the shipped samples are used: input paths relative to the working directory
            # (the folder of the images), the configuration file in ANOTHER folder
            "relative": idx % 3 == 1}


CORPUS = [
    # D8 witness: the simplest integer-interval run (before fix e44909e its saved configuration was refused)
    {"idx": -1, "seed": 11, "rows": 8, "cols": 12, "bands": None, "georef": False, "mask": False, "nodata": None,
     "interval": "list", "disp": [-2, 2],
     "pipeline": {"matching_cost": {"matching_cost_method": "sad", "window_size": 3},
                  "disparity": {"disparity_method": "wta", "invalid_disparity": "NaN"}}},
    # everything at once: suffixed confidence steps, validation with interpolation, georeferenced 3-band input
    {"idx": -2, "seed": 12, "rows": 10, "cols": 14, "bands": ["r", "g", "b"], "georef": True, "mask": True, "nodata": "NaN",
     "interval": "list", "disp": [-3, 1],
     "pipeline": {"matching_cost": {"matching_cost_method": "zncc", "window_size": 3, "band": "g"},
                  "cost_volume_confidence": {"confidence_method": "ambiguity"},
                  "cost_volume_confidence.after": {"confidence_method": "std_intensity"},
                  "cost_volume_confidence.r2": {"confidence_method": "risk", "eta_max": 0.5, "eta_step": 0.1},
                  "disparity": {"disparity_method": "wta", "invalid_disparity": "<float nan>"},
                  "refinement": {"refinement_method": "vfit"},
                  "filter": {"filter_method": "median"},
                  "validation.v": {"validation_method": "cross_checking_accurate", "interpolated_disparity": "sgm"}}},
    # grids on both sides with validation
    {"idx": -3, "seed": 13, "rows": 9, "cols": 13, "bands": None, "georef": True, "mask": False, "nodata": -9999,
     "interval": "grids_both", "disp": [-2, 1],
     "pipeline": {"matching_cost": {"matching_cost_method": "census", "window_size": 5},
                  "cost_volume_confidence.x": {"confidence_method": "ambiguity"},
                  "disparity": {"disparity_method": "wta"},
                  "validation": {"validation_method": "cross_checking_accurate"}}},
    # a user-supplied indicator (undocumented key) and a left-only grid
    {"idx": -4, "seed": 14, "rows": 8, "cols": 11, "bands": None, "georef": False, "mask": False, "nodata": None,
     "interval": "grid_left", "disp": [-1, 2],
     "pipeline": {"matching_cost": {"matching_cost_method": "ssd"},
                  "cost_volume_confidence": {"confidence_method": "std_intensity", "indicator": "mine"},
                  "disparity": {"disparity_method": "wta", "invalid_disparity": -5}}},
]


def write_tif(path, arr, dtype, crs=None, transform=None, descriptions=None):
    import rasterio
    arr = np.asarray(arr)
    if arr.ndim == 2:
        arr = arr[None]
    with rasterio.open(path, "w", driver="GTiff", width=arr.shape[2], height=arr.shape[1], count=arr.shape[0],
                       dtype=dtype, crs=crs, transform=transform) as ds:
        ds.write(arr.astype(dtype))
        if descriptions:
            ds.descriptions = tuple(descriptions)


def build_inputs(case, d):
    """write the rasters of the case under d, return the user configuration"""
    from rasterio.transform import Affine
    r = np.random.RandomState(case["seed"])
    rows, cols, bands = case["rows"], case["cols"], case["bands"]
    nb = len(bands) if bands else 1
    base = r.randint(0, 256, (nb, rows, cols + 6)).astype(np.float32)
    left = base[:, :, 3:3 + cols]
    shift = 1
    right = base[:, :, 3 + shift:3 + shift + cols].copy()
    noise = r.rand(nb, rows, cols) < 0.1
    right[noise] = r.randint(0, 256, int(noise.sum()))
    # georeferenced pairs: north-up, south-up or rotated / sheared geotransforms (any affine transform is "the input
    # georeferencing")
    geo = [Affine(0.5, 0.0, 350000.0, 0.0, -0.5, 4800000.0), Affine(0.5, 0.0, 350000.0, 0.0, 0.5, 4800000.0),
           Affine(0.5, 0.125, 350000.0, 0.0625, -0.5, 4800000.0), Affine(-0.25, 0.0, 350000.0, 0.0, -0.25, 4800000.0)]
    crs, tr = (("EPSG:32631", geo[case["seed"] % len(geo)]) if case["georef"] else (None, None))
    nod = case["nodata"]
    if nod is not None:
        hole = r.rand(rows, cols) < 0.05
        val = np.nan if nod == "NaN" else nod
        left[:, hole] = val
    write_tif(os.path.join(d, "left.tif"), left, "float32", crs, tr, bands)
    # the right image of a georeferenced pair is georeferenced on its own (one pixel to the east of the left one): every
    # right product must carry the RIGHT image's transform
    tr_right = Affine(tr.a, tr.b, tr.c + tr.a, tr.d, tr.e, tr.f + tr.d) if tr is not None else None
    write_tif(os.path.join(d, "right.tif"), right, "float32", crs, tr_right, bands)
    inp = {"left": {"img": os.path.join(d, "left.tif")}, "right": {"img": os.path.join(d, "right.tif")}}
    if nod is not None:
        inp["left"]["nodata"] = nod
        inp["right"]["nodata"] = nod
    if case["mask"]:
        m = (r.rand(rows, cols) < 0.08).astype(np.int16) * r.choice([1, 2], (rows, cols)).astype(np.int16)
        write_tif(os.path.join(d, "left_mask.tif"), m, "int16", crs, tr)
        inp["left"]["mask"] = os.path.join(d, "left_mask.tif")
    dmin, dmax = case["disp"]
    if case["interval"] == "list":
        inp["left"]["disp"] = [dmin, dmax]
    else:
        gmin = dmin - r.randint(0, 2, (rows, cols))
        gmax = dmax + r.randint(0, 2, (rows, cols))
        write_tif(os.path.join(d, "left_grid.tif"), np.array([gmin, gmax]), "int16")
        inp["left"]["disp"] = os.path.join(d, "left_grid.tif")
        if case["interval"] == "grids_both":
            write_tif(os.path.join(d, "right_grid.tif"), np.array([-gmax, -gmin]), "int16")
            inp["right"]["disp"] = os.path.join(d, "right_grid.tif")
    if case.get("relative"):
        for side in inp.values():
            for k, v in side.items():
                if isinstance(v, str) and os.path.dirname(v) == d:
                    side[k] = "./" + os.path.basename(v)
    return {"input": inp, "pipeline": jw.unshow(copy.deepcopy(case["pipeline"]))}


# ------------------------------------------------------------------------------------------- helpers

def same(a, b):
    a, b = np.asarray(a), np.asarray(b)
    if a.shape != b.shape:
        return False
    if a.dtype.kind == "f" or b.dtype.kind == "f":
        return bool(np.array_equal(a.astype(np.float64), b.astype(np.float64), equal_nan=True))
    return bool(np.array_equal(a, b))


def px(v):
    """sample -> wire (int, None for NaN, Fraction)"""
    if isinstance(v, (np.integer, int)):
        return int(v)
    v = float(v)
    if math.isnan(v):
        return None
    return core.to_q(v)


def product_wire(ds, geo):
    """in-memory dataset -> wire form of Model/Save.v product; None when a sample is infinite"""
    disp = ds["disparity_map"].data
    mask = ds["validity_mask"].data
    conf = []
    if "confidence_measure" in ds:
        cube = ds["confidence_measure"].data
        if np.isinf(cube).any():
            return None
        names = [[ord(c) for c in str(n)] for n in ds["confidence_measure"]["indicator"].data]
        conf = [names, [[[px(v) for v in pxs] for pxs in row] for row in cube]]
    if np.isinf(disp).any():
        return None
    return [[[px(v) for v in row] for row in disp], [[int(v) for v in row] for row in mask], conf, geo]


def read_tif(path):
    import rasterio
    with rasterio.open(path) as ds:
        return {"dtypes": list(ds.dtypes), "count": ds.count, "descriptions": list(ds.descriptions),
                "crs": ds.crs.to_string() if ds.crs else None, "transform": tuple(ds.transform)[:6], "data": ds.read()}


def list_files(out):
    found = []
    for root, _, files in os.walk(out):
        for f in files:
            found.append(os.path.relpath(os.path.join(root, f), out))
    return sorted(found)


def strip_dot(p):
    return os.path.normpath(p)


def expected_indicator(name):
    parts = name.split(".")
    return "." + parts[1] if len(parts) == 2 else ""


class Spy:
    """records the datasets pandora.main hands to common.save_results"""

    def __init__(self, common):
        self.common = common
        self.orig = common.save_results
        self.calls = []

    def __enter__(self):
        def spy(left, right, output):
            self.calls.append((left.copy(deep=True), right.copy(deep=True)))
            return self.orig(left, right, output)
        self.common.save_results = spy
        return self

    def __exit__(self, *a):
        self.common.save_results = self.orig


# ------------------------------------------------------------------------------------------- one case

def run_case(ctx, model, case):
    import pandora
    from pandora import common, check_configuration as cc
    from pandora.img_tools import create_dataset_from_inputs
    from pandora.state_machine import PandoraMachine
    import rasterio

    d = tempfile.mkdtemp(prefix="pandora_c19_")
    assert not os.path.realpath(d).startswith((os.path.realpath(core.REPO), os.path.realpath(core.VERIF)))
    cwd0 = os.getcwd()
    try:
        user = build_inputs(case, d)
        cfg_path = os.path.join(d, "user_cfg.json")
        if case.get("relative"):
            os.makedirs(os.path.join(d, "json_conf_files"))
            cfg_path = os.path.join(d, "json_conf_files", "user_cfg.json")
            os.chdir(d)
            ctx.count("runs_with_relative_input_paths")
        with open(cfg_path, "w") as f:
            json.dump(user, f)
        rp = dict(case)
        has_validation = any(k.split(".")[0] == "validation" for k in user["pipeline"])

        # is the configuration accepted at all?  (C19 quantifies over accepted configurations)
        machine0 = PandoraMachine()
        try:
            checked = cc.check_conf(copy.deepcopy(user), machine0)
        except Exception as exc:  # pylint: disable=broad-except
            ctx.case(None)
            ctx.count("rejected_by_check_conf_" + pu.exc_class(exc))
            return
        margins0 = machine0.margins.to_dict()
        key = (tuple((k, next(iter(v.values()))) for k, v in user["pipeline"].items()), case["interval"],
               tuple(case["bands"] or ()), repr(user["pipeline"].get("disparity", {}).get("invalid_disparity")))
        ctx.case(key)
        ctx.count("interval_" + case["interval"])
        ctx.count("bands_%d" % (len(case["bands"]) if case["bands"] else 1))
        ctx.count("validation" if has_validation else "no_validation")
        ctx.count("georeferenced" if case["georef"] else "not_georeferenced")

        # ---- the command-line entry
        out1 = os.path.join(d, "out1")
        with Spy(common) as spy:
            try:
                pandora.main(cfg_path, out1, False)
            except Exception as exc:  # pylint: disable=broad-except
                ctx.violation("run_raises." + pu.exc_class(exc),
                              f"pandora.main raised {type(exc).__name__}: {str(exc)[:200]} on a configuration that check_conf accepts",
                              rp)
                return
        ctx.traces += 1
        if len(spy.calls) != 1:
            ctx.violation("save_results_calls", f"save_results was called {len(spy.calls)} times", rp)
            return
        left_mem, right_mem = spy.calls[0]
        right_present = len(right_mem.sizes) != 0

        # ---- independent pandora.run on the same inputs (documented rule for the right interval)
        machine1 = PandoraMachine()
        cfg1 = cc.check_conf(copy.deepcopy(user), machine1)
        img_left = create_dataset_from_inputs(cfg1["input"]["left"])
        right_in = dict(cfg1["input"]["right"])
        if right_in["disp"] is None and not isinstance(cfg1["input"]["left"]["disp"], str):
            right_in["disp"] = [-cfg1["input"]["left"]["disp"][1], -cfg1["input"]["left"]["disp"][0]]
        img_right = create_dataset_from_inputs(right_in)
        left_run, right_run = pandora.run(machine1, img_left, img_right, cfg1)
        ctx.traces += 1
        for side, a, b in (("left", left_mem, left_run), ("right", right_mem, right_run)):
            if set(a.data_vars) != set(b.data_vars):
                ctx.violation("main_vs_run_products_differ", f"{side}: main computed {sorted(a.data_vars)}, pandora.run {sorted(b.data_vars)}", rp)
                continue
            for v in a.data_vars:
                if not same(a[v].data, b[v].data):
                    ctx.violation("main_vs_run_products_differ", f"{side}[{v}] of pandora.main differs from pandora.run on the same inputs", rp)

        # ---- spec: the files
        files1 = list_files(out1)
        want = ["left_disparity.tif", "left_validity_mask.tif"]
        if "confidence_measure" in left_mem and left_mem["confidence_measure"].shape[2] > 0:
            want.append("left_confidence_measure.tif")
        if has_validation:
            want += ["right_disparity.tif", "right_validity_mask.tif"]
            if right_present and "confidence_measure" in right_mem and right_mem["confidence_measure"].shape[2] > 0:
                want.append("right_confidence_measure.tif")
        want.append(os.path.join("cfg", "config.json"))
        if sorted(want) != files1:
            cls = "right_files_vs_validation" if (set(want) ^ set(files1)) <= {
                "right_disparity.tif", "right_validity_mask.tif", "right_confidence_measure.tif"} else "files_missing_or_extra"
            ctx.violation(cls, f"files written {files1}, the property asks for {sorted(want)} "
                          f"(validation step: {has_validation}, right products computed: {right_present})", rp)
        if right_present != has_validation:
            ctx.violation("right_products_vs_validation", f"right products computed: {right_present}, validation step: {has_validation}", rp)
        read1 = {}
        with rasterio.open(user["input"]["left"]["img"]) as ds:
            geo_in = {"left": (ds.crs.to_string() if ds.crs else None, tuple(ds.transform)[:6])}
        with rasterio.open(user["input"]["right"]["img"]) as ds:
            geo_in["right"] = (ds.crs.to_string() if ds.crs else None, tuple(ds.transform)[:6])
        for fname in files1:
            if not fname.endswith(".tif"):
                continue
            side, what = fname[:-4].split("_", 1)
            if side not in ("left", "right") or what not in VAR:
                continue
            got = read_tif(os.path.join(out1, fname))
            read1[fname] = got
            mem = left_mem if side == "left" else right_mem
            if VAR[what] not in mem:
                ctx.violation("files_missing_or_extra", f"{fname} written although the {side} dataset has no {VAR[what]}", rp)
                continue
            arr = mem[VAR[what]].data
            ctx.count("files_read_back")
            if set(got["dtypes"]) != {EXPECTED_DTYPE[what]}:
                ctx.violation("dtype." + what, f"{fname} has dtype {got['dtypes']}, the property says {EXPECTED_DTYPE[what]}", rp)
            if str(arr.dtype) != EXPECTED_DTYPE[what]:
                ctx.count("in_memory_dtype_differs_from_file." + what + "." + str(arr.dtype))
            planes = [arr] if arr.ndim == 2 else [arr[:, :, k] for k in range(arr.shape[2])]
            if got["count"] != len(planes):
                ctx.violation("band_count." + what, f"{fname} has {got['count']} bands for {len(planes)} in memory", rp)
                continue
            if what == "confidence_measure":
                names = [str(n) for n in mem["confidence_measure"]["indicator"].data]
                if [x for x in got["descriptions"]] != names:
                    ctx.violation("band_names", f"{fname} bands are named {got['descriptions']}, the indicators are {names}", rp)
                ctx.count("confidence_bands", len(names))
            for k, plane in enumerate(planes):
                if not same(got["data"][k], plane):
                    bad = np.argwhere(~((got["data"][k].astype(np.float64) == plane.astype(np.float64))
                                        | (np.isnan(got["data"][k].astype(np.float64)) & np.isnan(plane.astype(np.float64)))))
                    r0, c0 = (int(bad[0][0]), int(bad[0][1])) if len(bad) else (-1, -1)
                    ctx.violation("pixels_differ." + what, f"{fname} band {k + 1} differs from the in-memory product at "
                                  f"(row {r0}, col {c0}): file {got['data'][k][r0, c0]!r}, memory {plane[r0, c0]!r}", rp)
                    break
            if (got["crs"], got["transform"]) != geo_in[side]:
                ctx.violation("georef", f"{fname} has crs/transform {(got['crs'], got['transform'])}, the {side} input image "
                              f"{geo_in[side]}", rp)
            if what == "disparity":
                inv = checked["pipeline"]["disparity"].get("invalid_disparity") if "disparity" in checked["pipeline"] else None
                if isinstance(inv, float) and math.isnan(inv):
                    ctx.count("nan_samples_in_disparity_files", int(np.isnan(got["data"]).sum()))

        # ---- correspondence (1): Model/Save.v on the in-memory products vs the files read back
        lw = product_wire(left_mem, 0)
        rw = product_wire(right_mem, 1) if right_present else None
        if lw is not None and (not right_present or rw is not None):
            res = model.call(1, [lw, [rw] if right_present else []])
            impl = []
            for fname in [f for f in files1 if f in read1]:
                g = read1[fname]
                side = fname.split("_", 1)[0]
                impl.append([fname, g["dtypes"][0], [[[px(v) for v in row] for row in band] for band in g["data"]],
                             [x for x in g["descriptions"]] if any(x is not None for x in g["descriptions"]) else None,
                             0 if side == "left" else 1])
            mod = []
            for f in (res[0] if res else []):
                path = "".join(chr(c) for c in f[0])
                names = ["".join(chr(c) for c in n) for n in f[3][0]] if f[3] else None
                mod.append([strip_dot(path), "float32" if f[1] == 0 else "uint16",
                            [[[None if v == [] else (v if isinstance(v, int) else core.q_of(v)) for v in row] for row in band]
                             for band in f[2]], names, f[4]])
            if res == [] or sorted(impl, key=lambda x: x[0]) != sorted(mod, key=lambda x: x[0]):
                ctx.mismatch("save_results", rp, [(x[0], x[1], len(x[2]), x[3]) for x in impl],
                             "model raises" if res == [] else [(x[0], x[1], len(x[2]), x[3]) for x in mod])
            ctx.traces += 1
        else:
            ctx.count("infinite_sample_not_sent_to_model")

        # ---- spec: the saved configuration
        cpath = os.path.join(out1, "cfg", "config.json")
        mc = model.call(6, [])
        if not mc or strip_dot("".join(chr(c) for c in mc[0])) != os.path.join("cfg", "config.json"):
            ctx.mismatch("config_path", rp, "cfg/config.json", mc)
        try:
            with open(cpath) as f:
                saved = json.load(f)
        except Exception as exc:  # pylint: disable=broad-except
            ctx.violation("config_not_loadable", f"cfg/config.json: {type(exc).__name__}: {exc}", rp)
            return
        # ---- correspondence (4): the JSON TEXT of the user file and of cfg/config.json against Model/JsonText.v,
        #      and the model of main at the level of the files (json.load, check_conf, run, json.dump)
        with open(cpath) as f:
            saved_text = f.read()
        with open(cfg_path) as f:
            user_text = f.read()
        try:
            check_json_text(ctx, model, saved, "cfg/config.json")
            if strip_ws_outside_strings(saved_text) != json.dumps(saved, separators=(",", ":")):
                ctx.mismatch("json_file_text", rp, saved_text[:300], "json.dumps of the loaded value differs from the file up to white space")
            got_p = model.call(8, jw.wire_str(saved_text))
            if got_p != [1, jw.to_wire(saved)]:
                ctx.mismatch("json_parse_saved_file", rp, jw.show(saved), jw.show(jw.from_wire(got_p[1])) if got_p and got_p[0] == 1 else "model rejects")
        except jw.NotJson as exc:
            ctx.count("json_text_not_ascii")
            saved_text = None
        if saved.get("margins") != margins0:
            ctx.violation("margins_not_saved", f"saved margins {saved.get('margins')}, machine margins {margins0}", rp)
        want_cfg = copy.deepcopy(checked)
        for name, step in want_cfg["pipeline"].items():
            if name.split(".")[0] == "cost_volume_confidence":
                if step.get("indicator", "") != expected_indicator(name):
                    ctx.count("indicator_overwritten_by_run")
                step["indicator"] = expected_indicator(name)
        got_cfg = {k: v for k, v in saved.items() if k != "margins"}
        if jw.to_wire(got_cfg) != jw.to_wire(want_cfg) or list(saved)[-1] != "margins":
            klass = "config_differs_from_checked"
            try:
                if saved["input"]["right"]["disp"] != checked["input"]["right"]["disp"]:
                    klass = "saved_right_interval_not_the_checked_one"
            except Exception:  # pylint: disable=broad-except
                pass
            ctx.violation(klass, f"cfg/config.json holds {jw.show(got_cfg)}, the completed configuration is {jw.show(want_cfg)}", rp)

        # ---- correspondence (2): main_saved vs the file, (3) full_check on the saved configuration
        with rasterio.open(user["input"]["left"]["img"]) as ds:
            bl = list(ds.descriptions)
        with rasterio.open(user["input"]["right"]["img"]) as ds:
            br = list(ds.descriptions)
        common_args = [jw.to_wire(user["input"]["left"]["img"]), jw.to_wire(bl), jw.to_wire(br)]
        m2, m3, g1, g2 = model.batch([(2, [jw.to_wire(user)] + common_args + [jw.to_wire(margins0)]),
                                      (3, [jw.to_wire(saved)] + common_args),
                                      (7, [jw.to_wire(user)] + common_args),
                                      (7, [jw.to_wire(saved)] + common_args)])
        if g1 != 1 or g2 != 1:
            # the decidable guard of C19_checked_cfg_fixpoint / C19_saved_cfg_replays_partial must hold on real cases
            ctx.mismatch("replay_guard", rp, "accepted configuration", {"guard(user)": g1, "guard(saved)": g2})
        else:
            ctx.count("replay_guard_true", 2)
        if m2 != [1, jw.to_wire(saved)]:
            ctx.mismatch("main_saved", rp, jw.show(saved), jw.show(jw.from_wire(m2[1])) if m2 and m2[0] == 1 else "model rejects")
        ctx.traces += 1
        if saved_text is not None:
            # main_file: user text -> saved text, and saved text -> the same text (C19_saved_file_replays)
            f1, f2 = model.batch([(11, [jw.wire_str(user_text)] + common_args + [jw.to_wire(margins0)]),
                                  (11, [jw.wire_str(saved_text)] + common_args + [jw.to_wire(margins0)])])
            want_text = strip_ws_outside_strings(saved_text)
            for tag, res in (("main_file(user file)", f1), ("main_file(saved file)", f2)):
                txt = "".join(chr(c) for c in res[1]) if res and res[0] == 1 else None
                if txt != want_text:
                    ctx.mismatch("main_file", rp, want_text[:400], f"{tag}: " + (txt[:400] if txt else "model rejects"))
            ctx.traces += 1
            ctx.count("main_file_texts_compared", 2)
        try:
            re_checked = cc.check_conf(copy.deepcopy(saved), PandoraMachine())
            impl3 = [1, jw.to_wire(re_checked)]
        except Exception as exc:  # pylint: disable=broad-except
            re_checked, impl3 = None, [0]
            ctx.count("recheck_refused_" + pu.exc_class(exc))
        if impl3 != m3:
            ctx.mismatch("full_check_on_saved", rp, jw.show(re_checked) if re_checked else "refused",
                         jw.show(jw.from_wire(m3[1])) if m3 and m3[0] == 1 else "model rejects")
        ctx.traces += 1
        if re_checked is not None and jw.to_wire(re_checked) != jw.to_wire(got_cfg):
            ctx.violation("recheck_changes_saved_config", f"check_conf on the saved configuration returns {jw.show(re_checked)} "
                          f"instead of the saved {jw.show(got_cfg)}", rp)

        # ---- spec: the replay
        out2 = os.path.join(d, "out2")
        try:
            pandora.main(cpath, out2, False)
        except Exception as exc:  # pylint: disable=broad-except
            klass = "saved_config_refused." + ("integer_interval" if case["interval"] == "list" else case["interval"])
            ctx.violation(klass, f"feeding cfg/config.json back raises {type(exc).__name__}: {str(exc)[:300]}", rp)
            return
        ctx.traces += 1
        ctx.count("replays_accepted")
        files2 = list_files(out2)
        if files2 != files1:
            ctx.violation("replay_products_differ", f"replay wrote {files2}, the first run {files1}", rp)
        for fname in files1:
            if fname.endswith(".tif") and fname in files2:
                a, b = read_tif(os.path.join(out1, fname)), read_tif(os.path.join(out2, fname))
                if not (same(a["data"], b["data"]) and a["dtypes"] == b["dtypes"] and a["descriptions"] == b["descriptions"]
                        and a["crs"] == b["crs"] and a["transform"] == b["transform"]):
                    ctx.violation("replay_products_differ", f"{fname} of the replay differs from the first run", rp)
                with open(os.path.join(out1, fname), "rb") as fa, open(os.path.join(out2, fname), "rb") as fb:
                    ctx.count("replay_rasters_bytewise_equal" if fa.read() == fb.read() else "replay_rasters_bytes_differ")
        try:
            with open(os.path.join(out2, "cfg", "config.json")) as f:
                saved2 = json.load(f)
            if jw.to_wire(saved2) != jw.to_wire(saved):
                ctx.violation("replay_config_differs", f"the replay saved {jw.show(saved2)}, the first run {jw.show(saved)}", rp)
        except Exception as exc:  # pylint: disable=broad-except
            ctx.violation("config_not_loadable", f"replay cfg/config.json: {type(exc).__name__}: {exc}", rp)
        if len(ctx.samples) < 6 and (case["idx"] < 0 or ctx.rng.random() < 0.3):
            ctx.sample({"case": {k: case[k] for k in ("rows", "cols", "bands", "georef", "interval", "disp", "nodata", "mask")},
                        "pipeline": case["pipeline"], "files": files1,
                        "confidence_bands": [str(n) for n in left_mem["confidence_measure"]["indicator"].data]
                        if "confidence_measure" in left_mem else [],
                        "replay": "accepted, same rasters and configuration"})
    finally:
        os.chdir(cwd0)
        shutil.rmtree(d, ignore_errors=True)


# ------------------------------------------------------------------------------------------- JSON text

STR_CHARS = [chr(c) for c in range(32, 127) if chr(c) not in '"\\']


def gen_float(rng):
    """a finite float whose repr() uses no exponent (the subset of Model/JsonText.v)"""
    while True:
        k = rng.choice([0, 1, 1, 2, 2, 3, 6])
        f = round(rng.choice([-1, 1]) * rng.random() * 10 ** rng.choice([0, 0, 1, 3]), k)
        r = repr(f)
        if "e" not in r and "E" not in r and r not in ("-0.0",):
            return f


def gen_str(rng, path=False):
    if path:
        return "/tmp/" + "".join(rng.choice("abcxyz_-.0123456789") for _ in range(rng.randrange(1, 9))) + ".tif"
    return "".join(rng.choice(STR_CHARS) for _ in range(rng.randrange(0, 9)))


def gen_json(rng, depth):
    """a configuration-like JSON value of the subset"""
    r = rng.random()
    if depth <= 0 or r < 0.45:
        kind = rng.choice(["int", "int", "float", "float", "str", "str", "path", "null", "true", "false", "nan", "inf", "-inf"])
        if kind == "int":
            return rng.choice([0, 1, -1, 5, -9999, rng.randrange(-10 ** 6, 10 ** 6), rng.randrange(-10 ** 20, 10 ** 20)])
        if kind == "float":
            return gen_float(rng)
        if kind == "str":
            return rng.choice(["", "NaN", "sad", "wta", gen_str(rng)])
        if kind == "path":
            return gen_str(rng, True)
        return {"null": None, "true": True, "false": False, "nan": float("nan"), "inf": float("inf"), "-inf": float("-inf")}[kind]
    if r < 0.6:
        return [gen_json(rng, depth - 1) for _ in range(rng.randrange(0, 4))]
    d = {}
    for _ in range(rng.randrange(0, 5)):
        d[rng.choice(["input", "left", "right", "disp", "pipeline", "matching_cost.x", "indicator", gen_str(rng)])] = gen_json(rng, depth - 1)
    return d


def strip_ws_outside_strings(text):
    out, in_str = [], False
    for ch in text:
        if ch == '"':
            in_str = not in_str          # the subset has no escaped quote
        if in_str or ch not in " \t\r\n":
            out.append(ch)
    return "".join(out)


def model_parse(model, text):
    res = model.call(8, jw.wire_str(text))
    return res


def check_json_text(ctx, model, v, where):
    """json.dumps == model print (exactly for the compact form, up to white space for indent=2),
    json.loads == model parse, the value is in the subset"""
    compact = json.dumps(v, separators=(",", ":"))
    pretty = json.dumps(v, indent=2)
    wv = jw.to_wire(v)
    pr, ok, p1, p2 = model.batch([(9, wv), (10, wv), (8, jw.wire_str(pretty)), (8, jw.wire_str(compact))])
    ctx.traces += 1
    printed = "".join(chr(c) for c in pr)
    rp = {"json_value": jw.show(v), "where": where}
    if ok != 1:
        ctx.mismatch("json_printable", rp, "a value json.dumps writes without escape / exponent", "printable = false")
        return
    if printed != compact or strip_ws_outside_strings(pretty) != printed:
        ctx.mismatch("json_print", rp, compact, printed)
    for got, text in ((p1, pretty), (p2, compact)):
        back = json.loads(text)
        if got != [1, jw.to_wire(back)] or jw.to_wire(back) != wv:
            ctx.mismatch("json_parse", rp, jw.show(back), jw.show(jw.from_wire(got[1])) if got and got[0] == 1 else "model rejects")
    ctx.count("json_texts_compared")


def malformed(rng, text):
    i = rng.randrange(len(text)) if text else 0
    kind = rng.choice(["del", "ins", "trunc", "dup"])
    if kind == "del":
        return text[:i] + text[i + 1:]
    if kind == "ins":
        return text[:i] + rng.choice(',:]}[{"0-.ean ') + text[i:]
    if kind == "dup":
        return text[:i] + text[i:i + 1] + text[i:]
    return text[:i]


def out_of_subset(text):
    """texts json.loads takes but the model's subset does not: escapes, exponents, a key twice (json.loads keeps the
    last value, the model's association list both)"""
    import re
    if "\\" in text:
        return True
    outside = re.sub(r'"[^"]*"', '""', text)
    if re.search(r"\d[eE][+-]?\d", outside):
        return True
    dup = []

    def hook(pairs):
        keys = [k for k, _ in pairs]
        if len(set(keys)) != len(keys):
            dup.append(1)
        return dict(pairs)
    try:
        json.loads(text, object_pairs_hook=hook)
    except Exception:  # pylint: disable=broad-except
        return False
    return bool(dup)


def json_stream(ctx, model, n):
    for i in range(n):
        v = gen_json(ctx.rng, 4)
        if not isinstance(v, (dict, list)) and ctx.rng.random() < 0.5:
            v = {"k": v}
        check_json_text(ctx, model, v, "generated")
        # malformed neighbours: json.loads and the model's parser must agree (both refuse, or both the same value)
        text = json.dumps(v, indent=ctx.rng.choice([None, 2]))
        for _ in range(2):
            bad = malformed(ctx.rng, text)
            try:
                py = [1, jw.to_wire(json.loads(bad))]
            except Exception:  # pylint: disable=broad-except
                py = [0]
            got = model.call(8, jw.wire_str(bad)) if all(1 <= ord(c) <= 126 or c in "\t\r\n" for c in bad) else None
            if got is None:
                continue
            ctx.traces += 1
            if got and got[0] == 1:
                # a decimal with more digits than a double holds: the model keeps the exact rational, JFloat q stands for
                # the double nearest to q (harness/jsonwire.py) -> round the model's value as float() does
                got = [1, jw.to_wire(jw.from_wire(got[1]))]
            if got != py:
                if py[0] == 1 and got == [0] and out_of_subset(bad):
                    ctx.count("json_malformed_outside_subset")
                    continue
                ctx.mismatch("json_parse_malformed", {"text": bad}, "json.loads: " + ("refuses" if py == [0] else repr(jw.show(jw.from_wire(py[1])))),
                             "model: " + ("refuses" if got == [0] else repr(jw.show(jw.from_wire(got[1])))))
            ctx.count("json_malformed_refused_by_both" if py == [0] else "json_malformed_still_valid")


def d8_regression(ctx, model):
    """the regression witness of D8 on the model of the code BEFORE fix e44909e: the configuration main used to save
    is refused by the (unchanged) input check"""
    user = {"input": {"left": {"img": "/x/left.tif", "disp": [-2, 2]}, "right": {"img": "/x/right.tif"}},
            "pipeline": {"matching_cost": {"matching_cost_method": "sad"}, "disparity": {"disparity_method": "wta"}}}
    args = [jw.to_wire("/x/left.tif"), jw.to_wire([None]), jw.to_wire([None])]
    before = model.call(4, [jw.to_wire(user)] + args + [jw.to_wire({})])
    if not before or before[0] != 1:
        ctx.mismatch("d8_regression", "model of the old main rejects the witness", None, before)
        return
    old_saved = jw.from_wire(before[1])
    again = model.call(3, [jw.to_wire(old_saved)] + args)
    if old_saved["input"]["right"]["disp"] != [-2, 2] or again != [0]:
        ctx.mismatch("d8_regression", "old saved configuration", jw.show(old_saved), again)
    ctx.count("d8_regression_witness_checked")


def run(ctx):
    quick = ctx.tier == "quick"
    model = core.Model("x19")
    replay = getattr(ctx, "replay_case", None)
    if replay is not None:
        run_case(ctx, model, replay)
        return
    d8_regression(ctx, model)
    json_stream(ctx, model, 120 if quick else 1500)
    for case in CORPUS:
        run_case(ctx, model, copy.deepcopy(case))
    n = 26 if quick else 220
    for i in range(n):
        run_case(ctx, model, gen_case(ctx.rng, i, quick))
    ctx.gen_obligations = [
        "plan_wf save_calls otd = true: the write_data_array calls of save_results regenerated from /repo are the "
        "documented ones up to order, the six products go to the root of the output directory (vm_compute, Props/C19.v)",
        "cfg_path_ok otd = true: config.json goes to ./cfg (vm_compute)",
        "classes_wf classes = true (vm_compute): the prologues of the regenerated step classes allow C05's idempotence",
        "confidence_wf classes = true (vm_compute): in every regenerated class of the cost_volume_confidence kind `indicator` is "
        "not the method key, no prologue operation tests or converts it, the schema requires it and takes any string",
        "classes_scalar classes = true (vm_compute): no schema entry of a regenerated step class accepts a dictionary, every "
        "default written by a prologue is a scalar that update_conf leaves alone",
        "defs_wf gen_defs = true (vm_compute): the regenerated default input section is {input: {left: scalars, right: scalars}} "
        "and no entry of the six input schemas check_input_section can build accepts a dictionary",
    ]
    ctx.gen_obligations += [
        "C19_gen_write_data_array: Gen.SaveFns.write_data_array (2-D branch, 3-D branch with its band loop, dtype, "
        "descriptions, crs / transform, width / height / count) = Model/Save.v write_data_array on every rectangular "
        "array (induction on the loop; re-proved on the regenerated body)",
        "C19_gen_save_results: Gen.SaveFns.save_results = Model/Save.v run_calls on the regenerated call table, every "
        "file under <output>, for all product datasets",
        "C19_gen_save_config: Gen.SaveFns.save_config = one text file <output>/<OTD path> holding print cfg "
        "(json.dump(cfg, fp, indent=2), no other keyword, no conversion)",
        "C19_gen_main: Gen.SaveFns.main = Model/SaveMain.v main_flow for every environment (check_conf result saved, "
        "right interval derived on a copy, margins added after the run, save_config of that dictionary)",
        "gen_out_paths (Proofs/SaveGenP.v): the generated get_out_file_path agrees with Model/Save.v out_path on the "
        "seven keys used (vm_compute)",
    ]
    ctx.notes.append("observation O3: cost_volume_confidence_run overwrites the (undocumented) `indicator` key of its step with "
                     "the suffix of the step name, so cfg/config.json holds the configuration as run, not check_conf's output "
                     "verbatim; a user-supplied indicator is silently replaced (counted: indicator_overwritten_by_run)")
    ctx.notes.append("observation: with invalid_disparity / nodata NaN the saved file contains the token NaN, which Python's "
                     "json.load accepts but RFC 8259 does not")
