"""C15 -- a multiscale step really processes num_scales scales, coarse to fine.

T-corr: Model/Multiscale.v (extracted) against real pandora.run executions observed by wrapping
        bound methods of one PandoraMachine instance: matching_cost_run (image size, masks and the
        two disparity grids of every execution) and run_multiscale (the coarse disparity map and
        validity mask handed to disparity_range).  The model receives the real coarse disparity
        maps and validity masks and must predict sizes and grids of every execution exactly.
Spec  : the boolean checker extracted from Spec/Multiscale.v (finer_spec_bad, proved sound) applied to the observed
        grids of every finer level, and an independent Python oracle of the property sentence on the same observations (number and
        order of executions, sizes shrinking by scale_factor, coarsest interval, finer interval
        from the window around a coarse pixel at most one pixel from the geometric parent, steps
        after the multiscale step once at full resolution, output sizes, inputs not modified)."""
import copy
import math
from fractions import Fraction

import numpy as np

from harness import core
from harness import pandora_util as pu
from harness.props.c01 import expected_trace_py

# gen_scale_arith: Gen/ScaleArith.v = the arithmetic of run_prepare / matching_cost_prepare / run_multiscale;
# gen_scale_arith_range: Gen/ScaleArithRange.v = the interval expressions of disparity_range; both translated from the ast
# (obligations: Proofs/ScaleArithGenP.v, Proofs/ScaleArithRangeGenP.v)
GEN = ["gen_tables", "gen_msconst", "gen_block_loops", "gen_scale_arith", "gen_scale_arith_range"]
EXTRACT_FILES = ["X15"]
DRIVERS = ["x15"]
RULE = ("random pandora.run executions: sad, window 3/5, images 12..30 x 14..36 (mono, 2-band, with/without masks with "
        "values 0/1/2), num_scales in {2,3}, scale_factor in {2,3}, marge in {0,1,2}, user intervals divisible or not by "
        "scale_factor^(num_scales-1), optional median filter / validation before the multiscale step, optional filter / "
        "refinement / validation after it, plus fixed corpus cases (2-band pair with mask values 1 and 2; one 212x230 "
        "image whose coarse level exceeds the 100-pixel chunk on both axes; one 87x150 image whose 29x50 coarse level "
        "is zoomed by 3); every run is non-trivial (>= 2 scales); distinct by (shape, bands, masks, pipeline, "
        "num_scales, scale_factor, marge, interval)")
ASSUMES = [
    "radiometry of the Gaussian pyramid (skimage pyramid_gaussian) and the disparity maps computed at each level are not "
    "modelled: the model takes the real coarse disparity map and validity mask of each level as input data",
    "scipy.ndimage.zoom(order=0) is an index map per axis, given to the model as DATA: the harness repeats every zoom "
    "call of the run (same factor and keyword arguments) on an index array; the theorems hold for all maps satisfying "
    "zoom_contract (in the map, within one pixel of the geometric parent), which is checked on every observed map; the "
    "exact formula floor(o(n-1)/(sf n - 1) + 1/2) (proved to satisfy the contract) is compared with scipy: they differ "
    "only on exact ties",
    "for scale_factor 3 the first grids are floats (d/3^n)*3: compared with the model's exact rational within 2^-18 "
    "(bridging rule b) and exactly when the quotient is an integer; all other grids are compared for equality",
    "sequencing (which step runs at which scale) is the model of C01; its theorems are re-used",
    "theorems on disparity_range assume an odd window (the matching-cost schema enforces it) not larger than the coarse "
    "map; a valid-flagged pixel whose disparity is NaN counts as invalid (invalid_ind of the code)",
]
TRUSTED = ["cst.PANDORA_MSK_PIXEL_INVALID is read from the imported package and given to the model as data",
           "Gen/BlockLoops.v produced by translator/gen_block_loops.py (ast transliteration of the double block loop: split expressions, statements on the running offsets where they stand, slice bounds, arrays resolved to np.zeros / np.full_like / np.copy / sliding_window view / parameter expression; fail closed) and its reading as a program by Lib/BlockSkeleton.v exec (total arrays, slice writes neither clamped nor shape-checked)"]


# per-run obligations on Gen/ScaleArith.v and Gen/ScaleArithRange.v (translator/gen_scale_arith.py), proved for ALL inputs
# in Proofs/ScaleArithGenP.v / Proofs/ScaleArithRangeGenP.v and restated in Props/C15.v (C15_gen_*_is_model)
SCALE_ARITH_OBLIGATIONS = [
    "Gen.ScaleArith.run_prepare_params = (num_scales, scale_factor) when both are given, (1, 1) otherwise; "
    "run_prepare_is_multi = (1 <? self.num_scales) (C15_gen_params_is_model)",
    "Gen.ScaleArith.run_prepare_multi n sf n sf dmin dmax = model_prepare_multi n sf dmin dmax, i.e. "
    "Model.Multiscale.run_prepare_interval (/ sf^n), right_interval (negated, swapped), user copies, pyramid of n levels "
    "of factor sf, current_scale = n - 1 (C15_gen_prepare_multi_is_model, C15_gen_prepare_multi_fields: reflexivity on "
    "the regenerated text)",
    "Gen.ScaleArith.matching_cost_prepare = model_mcp (Model.Multiscale.scale_interval x sf, right interval under the "
    "guard only, cost volumes allocated on the scaled intervals) (C15_gen_matching_cost_prepare_is_model)",
    "Gen.ScaleArith.run_multiscale = model_msc (user interval x sf handed to disparity_range, current_scale - 1) "
    "(C15_gen_run_multiscale_is_model)",
    "Gen.ScaleArithRange.range_{min,max}_{init,invalid} = Model.Multiscale.fallback = int(np.nanmin(disp_min)), "
    "int(np.nanmax(disp_max)) whatever the two other reductions; range_{min,max}_window = nanmin - marge, nanmax + marge "
    "= win_range; range_offset = offset; zoom by scale_factor, order 0, mode nearest, skipped for factor 1 "
    "(C15_gen_disparity_range_is_model)",
    "the first grids of Model.Multiscale.run_grids = the intervals the generated run_prepare + matching_cost_prepare hand "
    "to allocate_cost_volume (C15_gen_first_grids); the grids of every finer level of run_grids = next_grids applied to the "
    "bounds the generated run_multiscale hands to disparity_range (C15_gen_finer_grids_user)",
]


# ---------------------------------------------------------------- case generation


def gen_case(rng, force=None):
    f = force or {}
    rows = f.get("rows", rng.randrange(12, 31))
    cols = f.get("cols", rng.randrange(14, 37))
    sf = f.get("sf", rng.choice([2, 2, 3]))
    n = f.get("n", rng.choice([2, 2, 3]))
    ws = f.get("ws", rng.choice([3, 3, 5]))

    def coarsest(x):
        for _ in range(n - 1):
            x = math.ceil(x / sf)
        return x
    while n > 2 and min(coarsest(rows), coarsest(cols)) < ws + 1:
        n -= 1
    if min(coarsest(rows), coarsest(cols)) < ws + 1:
        ws = 3
    bands = f.get("bands", rng.choice([1, 1, 2]))
    masks = f.get("masks", rng.random() < 0.5)
    if rng.random() < 0.5:
        k = sf ** (n - 1)
        dmin, dmax = -k * rng.randrange(1, 4), k * rng.randrange(0, 3)
    else:
        dmin, dmax = rng.randrange(-9, 0), rng.randrange(0, 8)
    dmin, dmax = f.get("disp", (dmin, dmax))
    pre = []
    if rng.random() < 0.35:
        pre.append("filter")
    if rng.random() < 0.3:
        pre.append("validation")
    post = []
    for k in ("filter", "refinement", "validation"):
        if rng.random() < 0.4 and not (k == "validation" and "validation" in pre):
            post.append(k)
    pre = f.get("pre", pre)
    post = f.get("post", post)
    base = [[rng.randrange(0, 200) for _ in range(cols + 12)] for _ in range(rows)]
    shift = rng.randrange(0, 3)

    def img(off, noise):
        one = [[base[r][c + off] + (rng.randrange(0, noise + 1)) for c in range(cols)] for r in range(rows)]
        if bands == 1:
            return one
        return [one, [[(v * 7 + 3) % 211 for v in row] for row in one]]

    def mask():
        m = [[0] * cols for _ in range(rows)]
        for _ in range(rng.randrange(1, 5)):
            r0, c0, v = rng.randrange(rows), rng.randrange(cols), rng.choice([1, 2])
            for r in range(r0, min(rows, r0 + rng.randrange(1, 4))):
                for c in range(c0, min(cols, c0 + rng.randrange(1, 4))):
                    m[r][c] = v
        return m
    case = {"rows": rows, "cols": cols, "sf": sf, "n": n, "ws": ws, "marge": f.get("marge", rng.choice([0, 1, 2])),
            "bands": bands, "disp": [dmin, dmax], "pre": pre, "post": post,
            "invalid_disparity": rng.choice(["NaN", -9999]),
            "left": img(6, 2), "right": img(6 - shift, 0),
            "mask_left": mask() if masks else None, "mask_right": mask() if masks else None}
    if f.get("mask_values"):
        m = [[0] * cols for _ in range(rows)]
        m[3][4], m[5][7], m[5][8] = 1, 2, 2
        case["mask_left"] = m
        case["mask_right"] = [row[:] for row in m]
    return case


def build_inputs(case):
    bands = ["r", "g"] if case["bands"] == 2 else None
    left = pu.image_dataset(np.array(case["left"]), disp=tuple(case["disp"]), mask=case["mask_left"], bands=bands)
    right = pu.image_dataset(np.array(case["right"]), disp=None, mask=case["mask_right"], bands=bands)
    pipe = {"matching_cost": {"matching_cost_method": "sad", "window_size": case["ws"], "subpix": 1}}
    if bands:
        pipe["matching_cost"]["band"] = "g"
    pipe["disparity"] = {"disparity_method": "wta", "invalid_disparity": case["invalid_disparity"]}

    def step_cfg(kind):
        return {"filter": {"filter_method": "median", "filter_size": 3},
                "refinement": {"refinement_method": "vfit"},
                "validation": {"validation_method": "cross_checking_accurate", "cross_checking_threshold": 1.0}}[kind]
    for k in case["pre"]:
        pipe[k] = step_cfg(k)
    pipe["multiscale"] = {"multiscale_method": "fixed_zoom_pyramid", "num_scales": case["n"],
                          "scale_factor": case["sf"], "marge": case["marge"]}
    for k in case["post"]:
        pipe[k if k not in pipe else k + ".post"] = step_cfg(k)
    return left, right, {"pipeline": pipe}


# ---------------------------------------------------------------- observation of the real run


def instrument(m):
    """wraps bound methods of one machine and, for the time of the run, the name `zoom` of
    pandora.multiscale.fixed_zoom_pyramid: each zoom call of disparity_range is repeated, with the
    same zoom factor and keyword arguments, on 1 + np.arange(n) for both axes, which gives the index
    map the code really used (0 = scipy read outside the map and returned cval).  rec["undo"]() restores."""
    import pandora.multiscale.fixed_zoom_pyramid as fzp
    rec = {"mc": [], "ms": [], "zoom": []}
    o_zoom = fzp.zoom

    def spy_zoom(a, z, *args, **kw):
        maps = [[int(v) - 1 for v in o_zoom(np.arange(n, dtype=np.float64) + 1.0, z, *args, **kw)] for n in a.shape]
        rec["zoom"].append({"shape": tuple(a.shape), "maps": maps, "kw": {k: str(v) for k, v in kw.items()}})
        return o_zoom(a, z, *args, **kw)
    fzp.zoom = spy_zoom
    rec["undo"] = lambda: setattr(fzp, "zoom", o_zoom)
    o_mc = m.matching_cost_run

    def mc(cfg, step, _o=o_mc):
        right = m.right_disp_map == "cross_checking_accurate"
        rec["mc"].append({
            "scale": m.current_scale,
            "shape": (m.left_img.sizes["row"], m.left_img.sizes["col"]),
            "shape_r": (m.right_img.sizes["row"], m.right_img.sizes["col"]),
            "im_shape": tuple(m.left_img["im"].shape),
            "msk": np.array(m.left_img["msk"].data).copy() if "msk" in m.left_img else None,
            "msk_r": np.array(m.right_img["msk"].data).copy() if "msk" in m.right_img else None,
            "dmin": np.array(m.disp_min).copy(), "dmax": np.array(m.disp_max).copy(),
            "rdmin": np.array(m.right_disp_min).copy() if right else None,
            "rdmax": np.array(m.right_disp_max).copy() if right else None})
        return _o(cfg, step)
    m.matching_cost_run = mc
    o_ms = m.run_multiscale

    def ms(cfg, step, _o=o_ms):
        right = m.right_disp_map == "cross_checking_accurate"

        def grab(d):
            return {"D": d["disparity_map"].data.copy(), "V": d["validity_mask"].data.copy(),
                    "ws": int(d.attrs["window_size"])}
        entry = {"scale": m.current_scale, "left": grab(m.left_disparity),
                 "right": grab(m.right_disparity) if right else None}
        rec["ms"].append(entry)
        z0 = len(rec["zoom"])
        res = _o(cfg, step)
        entry["zoom_calls"] = rec["zoom"][z0:]
        return res
    m.run_multiscale = ms
    return rec


def datasets_equal(a, b):
    """deep equality of two xarray datasets (variables, coordinates, attributes; NaN = NaN)"""
    if set(a.data_vars) != set(b.data_vars):
        return f"variables {sorted(a.data_vars)} -> {sorted(b.data_vars)}"
    for v in a.data_vars:
        x, y = a[v].data, b[v].data
        if x.shape != y.shape or x.dtype != y.dtype or not np.array_equal(x, y, equal_nan=True):
            diff = np.argwhere(~((x == y) | (np.isnan(x.astype(float)) & np.isnan(y.astype(float))))) \
                if x.shape == y.shape else []
            where = [tuple(int(i) for i in d) for d in diff[:4]]
            vals = [(x[w].item(), y[w].item()) for w in where]
            return f"variable {v} changed at {where}: before/after {vals}"
    for c in a.coords:
        if c not in b.coords or list(a.coords[c].data) != list(b.coords[c].data):
            return f"coordinate {c} changed"
    if str(a.attrs) != str(b.attrs):
        return f"attributes changed: {a.attrs} -> {b.attrs}"
    return None


def mask_src(b, invalid_bits, filled):
    """mask that masks_pyramid decimates to build the next coarser level (left image)"""
    if b["msk"] is None:
        return np.zeros(b["shape"], dtype=np.int64)
    if b["scale"] == 0:
        return np.where((b["msk"] & invalid_bits) != 0, filled, b["msk"])
    return b["msk"]


# ---------------------------------------------------------------- encoding


def fq(x):
    x = float(x)
    return None if math.isnan(x) else Fraction(*x.as_integer_ratio())


def enc_oq_grid(a):
    return [[([] if math.isnan(float(v)) else Fraction(*float(v).as_integer_ratio())) for v in row] for row in a.tolist()]


def enc_z_grid(a):
    return [[int(v) for v in row] for row in a.tolist()]


def dec_q(v):
    return None if v == [] else Fraction(v[0], v[1])


def grid_matches(model_g, amin, amax, exact):
    """model grids (decoded) against the two observed arrays; returns None or a description"""
    if model_g[0] == 0:
        _, h, w, qa, qb = model_g
        qa, qb = dec_q(qa), dec_q(qb)
        if amin.shape != (h, w) or amax.shape != (h, w):
            return f"shape {amin.shape} (model: constant grid {h}x{w})"
        for arr, q in ((amin, qa), (amax, qb)):
            vals = set(np.asarray(arr, dtype=np.float64).ravel().tolist())
            for v in vals:
                if exact or q.denominator == 1:
                    if fq(v) != q:
                        return f"value {v} (model {q})"
                elif not core.close(v, q):
                    return f"value {v} (model {q}, tolerance)"
        return None
    _, (nr, nc, rows) = model_g
    if amin.shape != (nr, nc) or amax.shape != (nr, nc):
        return f"shape {amin.shape} (model {nr}x{nc})"
    for r in range(nr):
        for c in range(nc):
            a, b = dec_q(rows[r][c][0]), dec_q(rows[r][c][1])
            if fq(amin[r, c]) != a or fq(amax[r, c]) != b:
                return f"cell ({r},{c}): [{amin[r, c]}, {amax[r, c]}] (model [{a}, {b}])"
    return None


# ---------------------------------------------------------------- the property, independently


def spec_finer(case, lvl, nxt, side, invalid_bits):
    """'At each finer level the interval searched at a pixel is scale_factor times [min - marge, max + marge] of
    the valid coarser disparities inside the matching window around a coarse pixel at most one pixel away from
    its geometric parent, or the whole user interval of that level when that coarse pixel was invalid or on the
    border.'  lvl = what run_multiscale received at scale s, nxt = what matching_cost_run saw at scale s-1."""
    sf, marge = case["sf"], case["marge"]
    s = lvl["scale"]
    prod = lvl[side]
    D, V, ws = prod["D"].astype(np.float64), prod["V"], prod["ws"]
    off = (ws - 1) // 2
    hr, hc = D.shape
    valid = (V & invalid_bits) == 0
    Dm = np.where(valid, D, np.nan)
    dmin, dmax = case["disp"] if side == "left" else (-case["disp"][1], -case["disp"][0])
    # the user interval of the finer level s-1
    ufine = (Fraction(dmin, sf ** (s - 1)), Fraction(dmax, sf ** (s - 1)))
    ucoarse = (Fraction(dmin, sf ** s), Fraction(dmax, sf ** s))
    trunc = (sf * int(ucoarse[0]), sf * int(ucoarse[1]))  # what a truncation of the coarse interval would give
    gmin, gmax = (nxt["dmin"], nxt["dmax"]) if side == "left" else (nxt["rdmin"], nxt["rdmax"])
    rows, cols = nxt["shape"]
    if gmin.shape[0] < rows or gmin.shape[1] < cols:
        return [("grid_too_small", f"scale {s - 1} {side}: grid {gmin.shape} smaller than the image {rows}x{cols}")]
    cache = {}

    def expected(pr, pc):
        if (pr, pc) not in cache:
            if not valid[pr, pc] or pr < off or pc < off or pr >= hr - off or pc >= hc - off:
                cache[(pr, pc)] = ("fallback", ufine)
            else:
                w = Dm[pr - off:pr + off + 1, pc - off:pc + off + 1]
                w = w[~np.isnan(w)]
                cache[(pr, pc)] = ("window", (sf * (fq(w.min()) - marge), sf * (fq(w.max()) + marge)))
        return cache[(pr, pc)]
    bad = []
    for r in range(rows):
        for c in range(cols):
            got = (fq(gmin[r, c]), fq(gmax[r, c]))
            ok = False
            fallback_parent = False
            for pr in range(max(0, r // sf - 1), min(hr, r // sf + 2)):
                for pc in range(max(0, c // sf - 1), min(hc, c // sf + 2)):
                    kind, want = expected(pr, pc)
                    if want == got:
                        ok = True
                    fallback_parent = fallback_parent or kind == "fallback"
            if not ok:
                if fallback_parent and got == trunc and trunc != ufine:
                    bad.append(("fallback_interval_truncated",
                                f"scale {s - 1} {side} pixel ({r},{c}): its coarse pixel is invalid or on the border, "
                                f"interval searched [{got[0]}, {got[1]}] instead of the level's user interval "
                                f"[{ufine[0]}, {ufine[1]}] (user {[dmin, dmax]}, scale_factor {sf}: "
                                f"{sf} * int({ucoarse[0]}), {sf} * int({ucoarse[1]}))"))
                else:
                    bad.append(("finer_interval",
                                f"scale {s - 1} {side} pixel ({r},{c}): interval [{got[0]}, {got[1]}] is neither "
                                f"{sf}*[min-{marge}, max+{marge}] of a window around a coarse pixel within one pixel of "
                                f"({r // sf},{c // sf}) nor the user interval [{ufine[0]}, {ufine[1]}]"))
                if len(bad) >= 3:
                    return bad
    return bad


def level_zoom_maps(e, sf):
    """row and column index maps of the zoom calls made by run_multiscale at this level (all its calls zoom
    arrays of the same shape with the same arguments); the exact formula when no call was observed"""
    calls = e.get("zoom_calls") or []
    if calls:
        return calls[0]["maps"]
    return [[(2 * o * (n - 1) + (sf * n - 1)) // (2 * (sf * n - 1)) if sf * n > 1 else 0 for o in range(sf * n)]
            for n in e["left"]["D"].shape]


def checker_jobs(case, rec, with_right):
    """(lvl, nxt, side) triples on which the extracted spec checker (fid 6) is run, with its argument"""
    jobs = []
    sf = case["sf"]
    for lvl, nxt in zip(rec["ms"], rec["mc"][1:]):
        for side in ("left", "right") if with_right else ("left",):
            prod = lvl[side]
            gmin, gmax = (nxt["dmin"], nxt["dmax"]) if side == "left" else (nxt["rdmin"], nxt["rdmax"])
            rows, cols = nxt["shape"]
            if prod is None or gmin is None or gmin.shape[0] < rows or gmin.shape[1] < cols:
                continue
            s_ = lvl["scale"]
            dmin, dmax = case["disp"] if side == "left" else (-case["disp"][1], -case["disp"][0])
            arg = [prod["ws"], case["marge"], sf, enc_oq_grid(prod["D"]), enc_z_grid(prod["V"]),
                   Fraction(dmin, sf ** (s_ - 1)), Fraction(dmax, sf ** (s_ - 1)), rows, cols,
                   enc_oq_grid(np.asarray(gmin, dtype=np.float64)[:rows, :cols]),
                   enc_oq_grid(np.asarray(gmax, dtype=np.float64)[:rows, :cols])]
            jobs.append((lvl, nxt, side, arg))
    return jobs


def run(ctx):
    import pandora
    import pandora.constants as cst
    from scipy.ndimage import zoom

    rng = ctx.rng
    quick = ctx.tier == "quick"
    model = core.Model("x15")
    invalid_bits = int(cst.PANDORA_MSK_PIXEL_INVALID)
    filled = int(cst.PANDORA_MSK_PIXEL_FILLED_NODATA)

    cases = []
    if getattr(ctx, "replay_case", None) is not None:
        cases.append(ctx.replay_case["case"])
    else:
        # corpus: 2-band pair with mask values 1 and 2 (D14), non-divisible interval, every marge, one big image
        cases.append(gen_case(rng, {"rows": 24, "cols": 30, "bands": 2, "mask_values": True, "sf": 2, "n": 2,
                                    "disp": (-4, 4), "pre": [], "post": ["filter"]}))
        cases.append(gen_case(rng, {"rows": 13, "cols": 17, "bands": 1, "masks": False, "sf": 2, "n": 3, "ws": 3,
                                    "disp": (-8, 4), "marge": 1, "pre": [], "post": ["filter"]}))
        cases.append(gen_case(rng, {"rows": 30, "cols": 36, "bands": 1, "masks": True, "sf": 3, "n": 3, "ws": 3,
                                    "disp": (-9, 9), "marge": 2, "pre": ["validation"], "post": ["refinement"]}))
        cases.append(gen_case(rng, {"rows": 18, "cols": 21, "bands": 2, "masks": False, "sf": 3, "n": 2,
                                    "disp": (-6, 3), "marge": 0, "pre": ["filter"], "post": ["validation"]}))
        cases.append(gen_case(rng, {"rows": 212, "cols": 230, "bands": 1, "masks": False, "sf": 2, "n": 2, "ws": 3,
                                    "disp": (-4, 2), "marge": 1, "pre": [], "post": []}))
        # regression of the zoom defect (fix: 93dd666): levels of 29 rows / 50 columns zoomed by 3 read outside the map
        cases.append(gen_case(rng, {"rows": 87, "cols": 150, "bands": 1, "masks": False, "sf": 3, "n": 2, "ws": 3,
                                    "disp": (-6, 3), "marge": 1, "pre": [], "post": []}))
        for i in range(40 if quick else 600):
            c = gen_case(rng)
            c["reused_machine"] = (i % 3 == 0)
            cases.append(c)
        if not quick:
            # a 63-row coarse level zoomed by 3: scipy and the exact formula differ on a tie (output row 47)
            cases.append(gen_case(rng, {"rows": 189, "cols": 64, "bands": 1, "masks": True, "sf": 3, "n": 2, "ws": 3,
                                        "disp": (-3, 3), "marge": 1, "pre": [], "post": ["filter"]}))
            cases.append(gen_case(rng, {"rows": 303, "cols": 211, "bands": 1, "masks": True, "sf": 3, "n": 2, "ws": 5,
                                        "disp": (-6, 3), "marge": 1, "pre": ["validation"], "post": []}))

    # ---- implementation runs (observations), then one model batch
    obs = []
    for case in cases:
        left, right, cfg = build_inputs(case)
        left0, right0 = copy.deepcopy(left), copy.deepcopy(right)
        m = pu.spy_machine()
        if case.get("reused_machine"):
            # the machine object already ran ANOTHER multiscale pipeline (other scale_factor, larger marge, other
            # number of scales): nothing of that run may show in this one (C01/C18: any history on one machine)
            import random as _random
            wcase = gen_case(_random.Random(4242), {"rows": 17, "cols": 22, "bands": 1, "masks": False,
                                                    "sf": 5 - case["sf"], "n": 2, "ws": 3, "disp": (-6, 6),
                                                    "marge": case["marge"] + 2, "pre": [], "post": []})
            wl, wr, wcfg = build_inputs(wcase)
            try:
                pandora.run(m, wl, wr, copy.deepcopy(wcfg))
            except Exception as exc:  # pylint: disable=broad-except
                ctx.broken_obligation("warm-up run on the reused machine raised", f"{type(exc).__name__}: {exc}")
            m.trace.clear()
            ctx.count("runs_on_a_reused_machine")
        rec = instrument(m)
        try:
            out_l, out_r = pandora.run(m, left, right, copy.deepcopy(cfg))
            err = None
        except Exception as exc:  # pylint: disable=broad-except
            out_l = out_r = None
            err = f"{type(exc).__name__}: {exc}"
        finally:
            rec["undo"]()
        obs.append((case, cfg, left, right, left0, right0, m.trace, rec, out_l, out_r, err))

    margs = []
    for case, cfg, left, right, left0, right0, trace, rec, out_l, out_r, err in obs:
        names = list(cfg["pipeline"])
        margs.append((1, [[nm.split(".")[0] == "multiscale", [cfg["pipeline"][nm].get("num_scales")]
                           if "num_scales" in cfg["pipeline"][nm] else [],
                           [cfg["pipeline"][nm].get("scale_factor")] if "scale_factor" in cfg["pipeline"][nm] else []]
                          for nm in names]))
        for k in range(case["n"]):
            margs.append((2, [case["rows"], case["sf"], k]))
            margs.append((2, [case["cols"], case["sf"], k]))
        with_right = "validation" in [nm.split(".")[0] for nm in names]
        lvls = []
        for e in rec["ms"]:
            zm = level_zoom_maps(e, case["sf"])
            lv = [e["left"]["ws"], [enc_oq_grid(e["left"]["D"]), enc_z_grid(e["left"]["V"])],
                  [[enc_oq_grid(e["right"]["D"]), enc_z_grid(e["right"]["V"])]] if e["right"] is not None else [],
                  zm[0], zm[1]]
            lvls.append(lv)
        margs.append((3, [invalid_bits, case["marge"], case["sf"], case["disp"][0], case["disp"][1], case["rows"],
                          case["cols"], case["n"], with_right, lvls]))
        # mask decimation between consecutive levels (left image): coarser = finer[::sf, ::sf]
        for b in rec["mc"][1:]:
            margs.append((4, [case["sf"], enc_z_grid(mask_src(b, invalid_bits, filled))]))
        # executions and image sizes prescribed by Spec.spec_trace / Model.image_sizes
        kinds = [nm.split(".")[0] for nm in names]
        ims = kinds.index("multiscale")
        wire = [[i, pu.KIND_CODE[k]] for i, k in enumerate(kinds)]
        margs.append((7, [case["n"], case["rows"], case["cols"], case["sf"], with_right, wire[:ims], wire[ims], wire[ims + 1:]]))
        # the extracted spec checker on the observed grids of every finer level
        if err is None:
            for _lvl, _nxt, _side, arg in checker_jobs(case, rec, with_right):
                margs.append((6, arg))
    # zoom contract for every (n, sf) in use
    zoom_keys = sorted({(e["left"]["D"].shape[ax], case["sf"]) for case, *_r, in obs for e in _r[6]["ms"] for ax in (0, 1)})
    for n_, sf_ in zoom_keys:
        margs.append((5, [sf_, n_]))
    mres = model.batch(margs)

    k = 0
    for case, cfg, left, right, left0, right0, trace, rec, out_l, out_r, err in obs:
        names = list(cfg["pipeline"])
        n, sf, rows, cols = case["n"], case["sf"], case["rows"], case["cols"]
        replay = {"case": case}
        desc = (f"{rows}x{cols} {'2-band' if case['bands'] == 2 else 'mono'} pair, masks={'yes' if case['mask_left'] else 'no'}, "
                f"pipeline {names}, num_scales={n}, scale_factor={sf}, marge={case['marge']}, disp={case['disp']}")
        ctx.case((rows, cols, case["bands"], bool(case["mask_left"]), tuple(names), n, sf, case["marge"], tuple(case["disp"])))
        ctx.traces += 1
        ctx.count(f"num_scales_{n}")
        ctx.count(f"scale_factor_{sf}")
        ctx.count(f"marge_{case['marge']}")
        ctx.count("bands_%d" % case["bands"])
        ctx.count("masks_" + ("yes" if case["mask_left"] else "no"))
        ctx.count("pre_" + "+".join(case["pre"]) if case["pre"] else "pre_none")
        ctx.count("post_" + "+".join(case["post"]) if case["post"] else "post_none")
        ctx.count("interval_divisible" if all(d % sf ** (n - 1) == 0 for d in case["disp"]) else "interval_not_divisible")
        m_params = mres[k]
        k += 1
        m_sizes = []
        for _ in range(n):
            m_sizes.append((mres[k], mres[k + 1]))
            k += 2
        m_grids = mres[k]
        k += 1
        m_masks = []
        for _ in rec["mc"][1:]:
            m_masks.append(mres[k])
            k += 1
        m_exec, m_out = mres[k]
        k += 1
        if err is not None:
            ctx.violation("run_failed", f"{desc}: pandora.run raised {err}", replay)
            continue
        with_right = "validation" in [nm.split(".")[0] for nm in names]
        jobs = checker_jobs(case, rec, with_right)
        coq_bad = {}
        for lvl_, _nxt, side_, _arg in jobs:
            coq_bad[(lvl_["scale"], side_)] = mres[k]
            k += 1

        # ---------- correspondence: model against observation
        impl_params = list(pandora.check_configuration.read_multiscale_params(cfg))
        if impl_params != list(m_params):
            ctx.mismatch("read_multiscale_params", replay, impl_params, m_params)
        impl_sizes = [e["shape"] for e in rec["mc"]]
        if impl_sizes != [m_sizes[j] for j in range(n - 1, -1, -1)][:len(impl_sizes)] or len(impl_sizes) != n:
            ctx.mismatch("level_sizes", replay, impl_sizes, m_sizes[::-1])
        if len(m_grids) != len(rec["mc"]):
            ctx.mismatch("grids_count", replay, len(rec["mc"]), len(m_grids))
        else:
            for e, (gl, gr) in zip(rec["mc"], m_grids):
                why = grid_matches(gl, e["dmin"], e["dmax"], exact=(sf == 2))
                if why is None and with_right:
                    why = "no right grids in the model" if not gr else \
                        grid_matches(gr[0], e["rdmin"], e["rdmax"], exact=(sf == 2))
                if why is not None:
                    ctx.mismatch("grids", {"scale": e["scale"], **replay}, why, "see model")
        # Spec.spec_trace against the callbacks observed on the machine; Model.image_sizes / output_size against the
        # images seen by the matching_cost executions and the returned map
        m_trace = [(names[e[0]], e[2], bool(e[3])) for e in m_exec]
        if m_trace != trace:
            ctx.mismatch("spec_trace", replay, trace, m_trace)
        m_mc_sizes = [(e[2], (e[4], e[5])) for e in m_exec if e[1] == pu.KIND_CODE["matching_cost"] and not e[3]]
        if m_mc_sizes != [(e["scale"], tuple(e["shape"])) for e in rec["mc"]]:
            ctx.mismatch("image_sizes", replay, [(e["scale"], tuple(e["shape"])) for e in rec["mc"]], m_mc_sizes)
        if tuple(m_out) != tuple(out_l["disparity_map"].shape):
            ctx.mismatch("output_size", replay, tuple(out_l["disparity_map"].shape), tuple(m_out))
        for a, b, mm in zip(rec["mc"][:-1], rec["mc"][1:], m_masks):
            # a = coarser level, b = finer level
            got = None if a["msk"] is None else [a["msk"].shape[0], a["msk"].shape[1], enc_z_grid(a["msk"])]
            if got != mm:
                ctx.mismatch("mask_decimation", {"scale": a["scale"], **replay}, got, mm)
            want_m = mask_src(b, invalid_bits, filled)[::sf, ::sf]
            if a["msk"] is None or not np.array_equal(a["msk"], want_m):
                ctx.violation("mask_pyramid", f"{desc}: mask of scale {a['scale']} is not the mask of scale "
                                              f"{b['scale']} decimated by {sf}", replay)

        # ---------- the property on the observations (independent oracle)
        rdm = with_right
        want_tr = expected_trace_py(names, n, rdm)
        if trace != want_tr:
            mc_scales = [sc for nm, sc, r in trace if nm == "matching_cost" and not r]
            key = "scales_not_processed" if mc_scales != list(range(n - 1, -1, -1)) else "post_steps_not_once"
            ctx.violation(key, f"{desc}: matching_cost executed at scales {mc_scales} (expected {list(range(n - 1, -1, -1))}); "
                               f"trace {trace}", replay)
            continue
        want_sizes = []
        r_, c_ = rows, cols
        for _ in range(n):
            want_sizes.append((r_, c_))
            r_, c_ = math.ceil(r_ / sf), math.ceil(c_ / sf)
        want_sizes.reverse()
        if impl_sizes != want_sizes or any(e["shape_r"] != e["shape"] for e in rec["mc"]):
            ctx.violation("level_sizes", f"{desc}: image sizes per execution {impl_sizes}, expected {want_sizes}", replay)
        if any((e["msk"] is not None and e["msk"].shape != e["shape"]) or e["im_shape"][-2:] != e["shape"] for e in rec["mc"]):
            ctx.violation("level_sizes", f"{desc}: im/msk shapes differ from the level size", replay)
        # coarsest interval
        first = rec["mc"][0]
        for side, (a, b), (d0, d1) in (("left", (first["dmin"], first["dmax"]), case["disp"]),
                                       ("right", (first["rdmin"], first["rdmax"]), (-case["disp"][1], -case["disp"][0]))):
            if side == "right" and not with_right:
                continue
            want = (Fraction(d0, sf ** (n - 1)), Fraction(d1, sf ** (n - 1)))
            for arr, q in ((a, want[0]), (b, want[1])):
                vals = set(np.asarray(arr, dtype=np.float64).ravel().tolist())
                okv = all((fq(v) == q) if (sf == 2 or q.denominator == 1) else core.close(v, q) for v in vals)
                if not okv:
                    ctx.violation("coarsest_interval", f"{desc}: coarsest level {side} grid holds {sorted(vals)[:4]}, "
                                                       f"expected {q} = user / {sf}^{n - 1}", replay)
        # finer intervals
        for lvl, nxt in zip(rec["ms"], rec["mc"][1:]):
            for side in ("left", "right") if with_right else ("left",):
                py_bad = spec_finer(case, lvl, nxt, side, invalid_bits)
                for key, what in py_bad[:1]:
                    ctx.violation(key, f"{desc}: {what}", replay)
                # the same verdict from the checker extracted from Spec/Multiscale.v (C15_spec_checker_sound)
                cb = coq_bad.get((lvl["scale"], side))
                if cb is not None:
                    ctx.count("spec_checker_levels")
                    if bool(cb) != bool(py_bad):
                        ctx.mismatch("spec_checker_vs_python_oracle", {"scale": lvl["scale"], "side": side, **replay},
                                     [w for _k, w in py_bad[:2]], cb[:4])
                        if cb and not py_bad:
                            ctx.violation("finer_interval", f"{desc}: scale {lvl['scale'] - 1} {side}: the extracted spec "
                                                            f"checker rejects the interval of pixels {cb[:4]}", replay)
        # zoom index contract on the very calls of the run (the hypothesis zoom_contract of the theorems)
        for lvl in rec["ms"]:
            calls = lvl.get("zoom_calls") or []
            if not calls:
                ctx.violation("zoom_not_called", f"{desc}: run_multiscale at scale {lvl['scale']} did not call zoom", replay)
                continue
            if any(c["maps"] != calls[0]["maps"] or c["shape"] != lvl["left"]["D"].shape for c in calls):
                ctx.mismatch("zoom_calls_differ", {"scale": lvl["scale"], **replay},
                             [(c["shape"], c["kw"]) for c in calls], "same shape and index maps for every call of a level")
            for axis, (mp, n_) in enumerate(zip(calls[0]["maps"], lvl["left"]["D"].shape)):
                ctx.count("zoom_contract_checked")
                badz = [(o, v) for o, v in enumerate(mp) if not (0 <= v < n_ and abs(v - o // sf) <= 1)]
                if len(mp) != sf * n_ or badz:
                    ctx.violation("zoom_outside_map",
                                  f"{desc}: scale {lvl['scale']}: zoom of axis {axis} ({n_} -> {len(mp)} samples, "
                                  f"{calls[0]['kw']}) reads (output index, input index) {badz[:3]}: -1 = outside the "
                                  f"map (the whole output row/column holds cval = 0, i.e. the interval [0, 0])", replay)
        # outputs
        if out_l["disparity_map"].shape != (rows, cols) or (with_right and out_r["disparity_map"].shape != (rows, cols)):
            ctx.violation("outputs_full_size", f"{desc}: output shape {out_l['disparity_map'].shape}", replay)
        # inputs unmodified
        for nm_, before, after in (("left", left0, left), ("right", right0, right)):
            why = datasets_equal(before, after)
            if why is not None:
                ctx.violation("inputs_modified", f"{desc}: the {nm_} input dataset was modified by pandora.run: {why}", replay)
        ctx.sample({"case": desc, "executions": [{"scale": e["scale"], "image": e["shape"], "grid": list(e["dmin"].shape),
                                                  "dmin_values": sorted(set(np.asarray(e["dmin"]).ravel().tolist()))[:6]}
                                                 for e in rec["mc"]]}, limit=5)
    # zoom contract
    for (n_, sf_) in zoom_keys:
        want = mres[k]
        k += 1
        got = [int(v) - 1 for v in zoom(np.arange(n_, dtype=np.float64) + 1.0, sf_, order=0, mode="nearest")]
        ctx.count("zoom_formula_compared")
        if got != list(want):
            # scipy computes the coordinate in floating point: on an exact tie it may take the other neighbour
            if len(got) == len(want) and all(abs(a - b) <= 1 for a, b in zip(got, want)):
                ctx.count("zoom_formula_tie_differs")
            else:
                ctx.mismatch("zoom_index_map", {"n": n_, "sf": sf_}, got, want)
    ctx.gen_obligations = ["run_tbl_wf Gen.Tables.run_table = true (vm_compute), shared with C01",
                           "Gen.MsConst: PANDORA_MSK_PIXEL_INVALID = 963 (bits 0,1,6,7,8,9) and 1 <= chunk size of "
                           "disparity_range (C15_constants_match); class defaults used as regenerated",
                           "skeleton_wf Gen.BlockLoops.disparity_range = true /\\ ms_skeleton_ok (offsets from int((W-1)/2) of the "
                           "sliding_window's own W, two distinct np.full_like outputs receiving nanmin - marge / nanmax + marge of the "
                           "inner chunk) /\\ sk_B = Gen.MsConst.ms_chunk_size (C15_block_loop_skeleton, vm_compute on the skeleton "
                           "translator/gen_block_loops.py reads in fixed_zoom_pyramid.py with ast; fail closed)"] + SCALE_ARITH_OBLIGATIONS
