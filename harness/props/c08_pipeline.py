"""C08, extra stream: the WHOLE-PIPELINE model (coq/Model/PipelineRun.v, extracted by Extract/X21.v) against
whole runs of the real code.

For every generated case the REAL pandora is driven as pandora.main drives it (fresh PandoraMachine,
check_pipeline_section, then pandora.run) with every run callback spied (pandora_util.spy_machine + a snapshot
after each callback).  After EVERY step the left and right cost volumes (costs, validity mask, disparity axis) or
the left and right disparity datasets (disparity map, validity mask, number of confidence bands, last band,
interval, offset) are compared with the state of the composed model after the same step:
  * exactly (floats converted to exact rationals) as long as no refinement step has run -- the inputs are on the
    exact domain (integer radiometry, integer interval, subpix 1/2, thresholds multiples of 1/4);
  * after a refinement step: values with the bridging tolerance (core.close), flags / NaN pattern exactly; a
    validation / interpolation step that would take a decision within rounding distance of a tie on the real
    maps (|frac(d) - 1/2| or ||dL + dR| - threshold| in (0, 1e-4)) ends the comparison of that case (counted).
A difference is a correspondence mismatch reported at the FIRST step that differs (the replay is the pipeline cut
after that step).

The property itself is searched on the same cases: the real run on the mirrored problem (images and masks
exchanged, interval [-max, -min]) is snapshot the same way; after every step the right data of the run must be
bit-for-bit the left data of the mirrored run and conversely (ctx.violation with the pipeline cut at the first
step that differs); without a validation step the right cost volume / dataset must stay empty; a run that raises
while the same pipeline without its validation steps runs, or whose mirrored run raises, is a violation too.
A few cases per run also go through pandora.main (rasters written to a mkdtemp directory, removed afterwards): the
products main hands to save_results against the model and against the mirrored real run."""
import hashlib
import json
import os
import shutil
import tempfile
from fractions import Fraction

import numpy as np

from harness import core
from harness import pandora_util as pu

RULE_PIPELINE = (
    "pipeline stream: random legal pipelines matching_cost(sad|ssd|census, window 1/3/5, subpix 1/2), disparity(wta, "
    "invalid_disparity -9999|NaN|77), then 0..4 steps among filter(median 3|5) / refinement(vfit|quadratic) / "
    "validation(cross_checking_accurate, threshold 0|0.5|1|2, without / mc-cnn / sgm interpolation) with at most two "
    "validation steps (70% of the cases have one, possibly followed by a filter or refinement), on 6-10 x 8-14 integer "
    "image pairs (right = left shifted + noise), masks on both sides, interval within [-3, 3], right interval given or "
    "derived; non-trivial = the model and the run agree on at least one valid pixel whose left and right "
    "disparity differ and the pipeline has >= 3 steps")

MCODE = {"sad": 0, "ssd": 1, "census": 2}
ICODE = {None: 0, "mc-cnn": 1, "sgm": 2}
INVALID = 963


# ---------------------------------------------------------------------------- generator


def gen_case(rng, idx):
    rows, cols = rng.randrange(6, 11), rng.randrange(8, 15)
    w = rng.choice([1, 3, 3, 5])
    method = rng.choice(["sad", "ssd", "census"]) if w in (3, 5) else rng.choice(["sad", "ssd"])
    a, b = rng.randrange(-3, 4), rng.randrange(-3, 4)
    disp = [min(a, b), max(a, b)]
    shift = rng.randrange(-2, 3)
    amp = 40 if method != "ssd" else 24
    base = [[rng.randrange(0, amp) for _ in range(cols + 8)] for _ in range(rows)]
    left = [[base[r][c + 4] for c in range(cols)] for r in range(rows)]
    right = [[base[r][c + 4 + shift] + (rng.randrange(0, 9) if rng.random() < 0.2 else 0) for c in range(cols)]
             for r in range(rows)]

    def mask():
        if rng.random() < 0.35:
            return None
        p = rng.choice([0.03, 0.06, 0.1])
        return [[(rng.choice([1, 1, 2, 5]) if rng.random() < p else 0) for _ in range(cols)] for _ in range(rows)]

    steps = [["matching_cost", {"matching_cost_method": method, "window_size": w, "subpix": rng.choice([1, 1, 2])}],
             ["disparity", {"disparity_method": "wta", "invalid_disparity": rng.choice([-9999, "NaN", 77])}]]
    tail = []
    for _ in range(rng.choice([0, 1, 1, 2, 2, 3])):
        if rng.random() < 0.5:
            tail.append(["filter", {"filter_method": "median", "filter_size": rng.choice([3, 3, 5])}])
        else:
            tail.append(["refinement", {"refinement_method": rng.choice(["vfit", "quadratic"])}])
    nval = rng.choice([0, 0, 0, 1, 1, 1, 1, 1, 1, 2])
    for k in range(nval):
        cfg = {"validation_method": "cross_checking_accurate",
               "cross_checking_threshold": rng.choice([0, 0.5, 1, 1.0, 2])}
        i = rng.choice([None, None, "mc-cnn", "sgm"])
        if i is not None:
            cfg["interpolated_disparity"] = i
        tail.append(["validation", cfg])
        if rng.random() < (0.4 if k == nval - 1 else 0.7):
            if rng.random() < 0.6:
                tail.append(["filter", {"filter_method": "median", "filter_size": 3}])
            else:
                tail.append(["refinement", {"refinement_method": rng.choice(["vfit", "quadratic"])}])
    counts = {}
    for kind, cfg in tail:
        n = counts.get(kind, 0)
        counts[kind] = n + 1
        steps.append([kind if n == 0 else f"{kind}.{n}", cfg])
    return {"stream": "pipeline", "id": idx, "rows": rows, "cols": cols, "left": left, "right": right,
            "mask_left": mask(), "mask_right": mask(), "disp": disp, "steps": steps,
            "right_disp_given": rng.random() < 0.5}


def mirrored(case):
    m = dict(case)
    m["left"], m["right"] = case["right"], case["left"]
    m["mask_left"], m["mask_right"] = case["mask_right"], case["mask_left"]
    m["disp"] = [-case["disp"][1], -case["disp"][0]]
    return m


# ---------------------------------------------------------------------------- the real code


def grab_cv(ds):
    if ds is None or "cost_volume" not in ds:
        return None
    d = ds.coords["disp"].data
    return {"cost": np.array(ds["cost_volume"].data), "mask": np.array(ds["validity_mask"].data).astype(np.int64),
            "axis": [float(x) for x in d], "subpix": int(ds.attrs["subpixel"]),
            "offset": int(ds.attrs["offset_row_col"])}


def grab_ds(ds):
    if ds is None or "disparity_map" not in ds:
        return None
    out = {"disp": np.array(ds["disparity_map"].data), "mask": np.array(ds["validity_mask"].data).astype(np.int64),
           "interval": [float(x) for x in ds["disparity_interval"].data],
           "offset": int(ds.attrs["offset_row_col"]), "nbands": 0, "band": None, "indicators": []}
    if "confidence_measure" in ds:
        cm = np.array(ds["confidence_measure"].data)
        out["nbands"] = int(cm.shape[2])
        out["band"] = cm[:, :, -1]
        out["indicators"] = [str(x) for x in ds.coords["indicator"].data]
    return out


def run_real(case, upto=None):
    """check then run, as pandora.main does, on a fresh spied machine; one snapshot per executed callback"""
    import pandora
    from pandora.check_configuration import check_pipeline_section

    steps = case["steps"] if upto is None else case["steps"][:upto]
    dmin, dmax = case["disp"]
    L = pu.image_dataset(np.array(case["left"]), disp=(dmin, dmax), mask=case["mask_left"])
    R = pu.image_dataset(np.array(case["right"]), disp=(-dmax, -dmin) if case["right_disp_given"] else None,
                         mask=case["mask_right"])
    m = pu.spy_machine()
    snaps = []
    for kind in pu.KINDS:
        cb = "run_multiscale" if kind == "multiscale" else kind + "_run"
        orig = getattr(m, cb)

        def wrapper(cfg, input_step, _orig=orig, _m=m):
            res = _orig(cfg, input_step)
            if input_step.split(".")[0] == "matching_cost":
                snaps.append({"step": input_step, "kind": 0, "left": grab_cv(_m.left_cv), "right": grab_cv(_m.right_cv)})
            else:
                snaps.append({"step": input_step, "kind": 1, "left": grab_ds(_m.left_disparity),
                              "right": grab_ds(_m.right_disparity)})
            return res

        setattr(m, cb, wrapper)
    user = {"pipeline": {n: dict(c) for n, c in steps}}
    cfg = check_pipeline_section(user, pu.meta_dataset(case["rows"], case["cols"], disp=(dmin, dmax)),
                                 pu.meta_dataset(case["rows"], case["cols"], disp=None), m)
    left, right = pandora.run(m, L, R, cfg)
    return snaps, m.trace, left, right


# ---------------------------------------------------------------------------- the model


def enc_step(name, cfg):
    kind = name.split(".")[0]
    if kind == "matching_cost":
        return [0, MCODE[cfg["matching_cost_method"]], cfg["window_size"], cfg["subpix"]]
    if kind == "disparity":
        inv = cfg["invalid_disparity"]
        return [1, None if inv == "NaN" else Fraction(inv)]
    if kind == "filter":
        return [2, cfg["filter_size"]]
    if kind == "refinement":
        return [3, 0 if cfg["refinement_method"] == "vfit" else 1]
    if kind == "validation":
        return [4, Fraction(cfg["cross_checking_threshold"]), ICODE[cfg.get("interpolated_disparity")]]
    raise ValueError(kind)


def model_arg(case, upto=None):
    steps = case["steps"] if upto is None else case["steps"][:upto]
    return [case["rows"], case["cols"], case["left"], case["right"],
            case["mask_left"] if case["mask_left"] is not None else [],
            case["mask_right"] if case["mask_right"] is not None else [],
            case["disp"][0], case["disp"][1], [enc_step(n, c) for n, c in steps]]


# ---------------------------------------------------------------------------- comparison


def q_or_none(v):
    return None if v == [] else core.q_of(v)


def cmp_values(arr, rows_model, exact, what):
    """float array against nested model rationals; returns None or a description of the first difference"""
    arr = np.asarray(arr)
    for idx in np.ndindex(arr.shape):
        f = float(arr[idx])
        mv = rows_model
        for i in idx:
            mv = mv[i]
        if mv == [1]:           # +inf cell of a confidence band
            if not (np.isinf(f) and f > 0):
                return f"{what}{list(idx)}: impl {f} model +inf"
            continue
        q = q_or_none(mv)
        if np.isinf(f):
            return f"{what}{list(idx)}: impl {f} model {q}"
        if exact:
            ok = (q is None and np.isnan(f)) or (q is not None and not np.isnan(f) and core.to_q(f) == q)
        else:
            ok = core.close(f, q)
        if not ok:
            return f"{what}{list(idx)}: impl {f} model {None if q is None else float(q)} ({q})"
    return None


def cmp_mask(arr, rows_model, what):
    mm = np.array(rows_model, dtype=np.int64).reshape(np.asarray(arr).shape)
    if not np.array_equal(np.asarray(arr), mm):
        i, j = map(int, np.argwhere(np.asarray(arr) != mm)[0])
        return f"{what}[{i},{j}]: impl {int(arr[i, j])} model {int(mm[i, j])}"
    return None


def cmp_side(kind, impl, mod, exact, side):
    """one side of one snapshot; returns None or the first difference"""
    if impl is None or mod == []:
        if impl is None and mod == []:
            return None
        return f"{side}: impl {'empty' if impl is None else 'present'}, model {'empty' if mod == [] else 'present'}"
    if kind == 0:
        dmin, dmax, s, off, cost, mask = mod
        if [impl["axis"][0], impl["axis"][-1]] != [float(dmin), float(dmax)] or len(impl["axis"]) != (dmax - dmin) * s + 1:
            return f"{side} disparity axis: impl {impl['axis']} model [{dmin}, {dmax}] subpix {s}"
        if impl["subpix"] != s or impl["offset"] != off:
            return f"{side} attrs: impl subpix {impl['subpix']} offset {impl['offset']} model {s} {off}"
        return cmp_values(impl["cost"], cost, True, side + " cost_volume") or cmp_mask(impl["mask"], mask, side + " cv mask")
    dmin, dmax, off, nb, disp, mask, band = mod
    if impl["interval"] != [float(dmin), float(dmax)] or impl["offset"] != off:
        return f"{side} interval/offset: impl {impl['interval']} {impl['offset']} model [{dmin}, {dmax}] {off}"
    d = cmp_values(impl["disp"], disp, exact, side + " disparity_map") or cmp_mask(impl["mask"], mask, side + " validity_mask")
    if d:
        return d
    if impl["nbands"] != nb:
        return f"{side} confidence bands: impl {impl['nbands']} {impl['indicators']} model {nb}"
    if nb:
        return cmp_values(impl["band"], band, exact, side + " last confidence band")
    return None


def near_tie(snap_before, thr):
    """would the cross-check take a decision within rounding distance of a tie on these (real) maps?"""
    L, R = snap_before["left"], snap_before["right"]
    if L is None or R is None:
        return False
    for me, other in ((L, R), (R, L)):
        d = me["disp"].astype(np.float64)
        fin = np.isfinite(d)
        frac = np.abs(np.abs(d[fin] - np.floor(d[fin])) - 0.5)
        if np.any((frac > 0) & (frac < 1e-4)):
            return True
        o = other["disp"].astype(np.float64)
        nr, nc = d.shape
        for r in range(nr):
            for c in range(nc):
                if not np.isfinite(d[r, c]):
                    continue
                q = c + int(np.rint(d[r, c]))
                if 0 <= q < nc and np.isfinite(o[r, q]):
                    mg = abs(abs(d[r, c] + o[r, q]) - thr)
                    if 0 < mg < 1e-4:
                        return True
    return False


def bits(a):
    return None if a is None else {k: (v.tobytes() if isinstance(v, np.ndarray) else v) for k, v in a.items()}


def first_mirror_diff(s1, s2):
    """right data of run 1 vs left data of the mirrored run (and conversely), bit for bit"""
    for a, b, what in ((s1["right"], s2["left"], "right vs mirrored left"), (s1["left"], s2["right"], "left vs mirrored right")):
        ba, bb = bits(a), bits(b)
        if ba != bb:
            if ba is None or bb is None:
                return f"{what}: one side is empty"
            return f"{what}: {[k for k in ba if ba[k] != bb.get(k)]}"
    return None


def compare_run(ctx, case, kinds, snaps, trace, left, right, counting):
    """model trace against the snapshots of one real run: ("agree" | "undefined" | "near_tie" | "diff", step index or
    None for the returned products, first difference, compared exactly to the end?)"""
    exact = True
    for k, (sn, mo) in enumerate(zip(snaps, trace)):
        kind = kinds[k]
        if counting:
            ctx.count("pipeline_step_" + kind)
        if kind == "refinement":
            exact = False
        if mo[1] != 1:
            if counting:
                ctx.count("pipeline_refinement_undefined_in_model")
            return "undefined", k, None, exact
        if kind == "validation" and not exact and k > 0 and \
                near_tie(snaps[k - 1], float(case["steps"][k][1]["cross_checking_threshold"])):
            if counting:
                ctx.count("pipeline_comparison_stopped_near_tie")
            return "near_tie", k, None, exact
        if mo[0] != sn["kind"]:
            diff = f"state kind: impl {sn['kind']} model {mo[0]}"
        else:
            diff = cmp_side(sn["kind"], sn["left"], mo[2], exact, "left") or \
                cmp_side(sn["kind"], sn["right"], mo[3], exact, "right")
        if counting:
            ctx.count("pipeline_states_compared")
        if diff:
            return "diff", k, diff, exact
    # at the end: the two datasets pandora.run returns against the final state of the model
    if trace and trace[-1][0] == 1:
        diff = cmp_side(1, grab_ds(left), trace[-1][2], exact, "returned left") or \
            cmp_side(1, grab_ds(right), trace[-1][3], exact, "returned right")
        if counting:
            ctx.count("pipeline_final_products_compared")
        if diff:
            return "diff", None, diff, exact
    return "agree", None, None, exact


def cut_case(case, k):
    """the case with its pipeline cut after step k; a validation step is kept (appended) so that the cut pipeline
    still computes right products"""
    cut = dict(case)
    cut["steps"] = case["steps"][:k + 1]
    kinds = [n.split(".")[0] for n, _ in case["steps"]]
    if "validation" in kinds and "validation" not in kinds[:k + 1]:
        cut["steps"] = cut["steps"] + [next(s for s in case["steps"] if s[0].split(".")[0] == "validation")]
    return cut


# ---------------------------------------------------------------------------- through pandora.main


def run_main_case(ctx, model, case):
    """the same comparison through the command-line entry: rasters on disk, pandora.main (which derives the right
    interval [-max, -min] in the input section, pandora/__init__.py), products handed to save_results against the
    final state of the composed model run on the datasets main builds"""
    import pandora
    from pandora import common, check_configuration as cc
    from pandora.img_tools import create_dataset_from_inputs
    from pandora.state_machine import PandoraMachine
    from harness.props.c19 import Spy, write_tif

    names = [n for n, _ in case["steps"]]
    d = tempfile.mkdtemp(prefix="pandora_c08_")
    assert not os.path.realpath(d).startswith((os.path.realpath(core.REPO), os.path.realpath(core.VERIF)))
    try:
        inp = {"left": {"img": os.path.join(d, "left.tif"), "disp": list(case["disp"])},
               "right": {"img": os.path.join(d, "right.tif")}}
        write_tif(inp["left"]["img"], np.array(case["left"]), "float32")
        write_tif(inp["right"]["img"], np.array(case["right"]), "float32")
        for side in ("left", "right"):
            if case["mask_" + side] is not None:
                inp[side]["mask"] = os.path.join(d, side + "_mask.tif")
                write_tif(inp[side]["mask"], np.array(case["mask_" + side]), "int16")
        user = {"input": inp, "pipeline": {n: dict(c) for n, c in case["steps"]}}
        cfg_path = os.path.join(d, "cfg.json")
        with open(cfg_path, "w") as f:
            json.dump(user, f)
        with Spy(common) as spy:
            pandora.main(cfg_path, os.path.join(d, "out"), False)
        ctx.traces += 1
        ctx.count("pipeline_main_runs")
        left_mem, right_mem = spy.calls[0]
        # the datasets main builds from the files (mask convention 0 / 1 / 2), given to the model
        checked = cc.check_conf(json.loads(json.dumps(user)), PandoraMachine())
        dl = create_dataset_from_inputs(checked["input"]["left"])
        dr = create_dataset_from_inputs(checked["input"]["right"])
        c2 = dict(case)
        c2["via_main"] = True
        c2["left"] = np.asarray(dl["im"].data).astype(int).tolist()
        c2["right"] = np.asarray(dr["im"].data).astype(int).tolist()
        c2["mask_left"] = np.asarray(dl["msk"].data).astype(int).tolist() if "msk" in dl else None
        c2["mask_right"] = np.asarray(dr["msk"].data).astype(int).tolist() if "msk" in dr else None
        kinds = [n.split(".")[0] for n in names]
        # the property on the real code: main's right products against the left products of the real run on the
        # mirrored datasets (and conversely), bit for bit
        if "validation" in kinds:
            c2["right_disp_given"] = True
            _, _, l_m, r_m = run_real(mirrored(c2))
            ctx.traces += 1
            for a, b, what in ((grab_ds(right_mem), grab_ds(l_m), "right products of pandora.main vs left products of the mirrored run"),
                               (grab_ds(left_mem), grab_ds(r_m), "left products of pandora.main vs right products of the mirrored run")):
                if bits(a) != bits(b):
                    ctx.violation("pipeline_main_mirror_differs",
                                  f"pipeline {names} through pandora.main on (L, R, {case['disp']}): {what} on "
                                  f"(R, L, {mirrored(case)['disp']}) differ", c2)
                    break
        res = model.call(1, model_arg(c2))
        if res is None or any(mo[1] != 1 for mo in res[1]):
            ctx.count("pipeline_main_model_undefined")
            return
        exact = "refinement" not in kinds
        if not exact and "validation" in kinds:
            ctx.count("pipeline_main_skipped_refinement_before_validation")   # tie screening needs the snapshots
            return
        last = res[1][-1]
        diff = cmp_side(1, grab_ds(left_mem), last[2], exact, "main left") or \
            cmp_side(1, grab_ds(right_mem), last[3], exact, "main right")
        ctx.count("pipeline_main_products_compared")
        if diff:
            ctx.mismatch("pipeline_main_products", case, diff, "Model/PipelineRun.v run_pipeline on (L, R, [min, max])")
    finally:
        shutil.rmtree(d, ignore_errors=True)


# ---------------------------------------------------------------------------- the stream


def run_stream(ctx, n_cases):
    rng = ctx.rng
    model = core.Model("x21")
    if ctx.replay_case is not None and ctx.replay_case.get("via_main"):
        run_main_case(ctx, model, ctx.replay_case)
        ctx.case(None)
        return
    if ctx.replay_case is not None:
        cases = [ctx.replay_case]
    else:
        cases = [gen_case(rng, i) for i in range(n_cases)]
    results = model.batch([(1, model_arg(c)) for c in cases])
    for case, res in zip(cases, results):
        names = [n for n, _ in case["steps"]]
        kinds = [n.split(".")[0] for n in names]
        has_val = "validation" in kinds
        if res is None:
            ctx.count("pipeline_model_stack_overflow")
            ctx.case(None)
            continue
        rdm, trace = res
        try:
            snaps, cbtrace, left, right = run_real(case)
        except Exception as exc:  # pylint: disable=broad-except
            ctx.case(None)
            ctx.count("pipeline_run_raised_" + pu.exc_class(exc))
            ctx.mismatch("pipeline_run_raised", case, f"{type(exc).__name__}: {exc}"[:200], "the model defines every step")
            if has_val:
                # does the run fail because of the right pass?  the same pipeline without its validation steps
                nov = dict(case)
                nov["steps"] = [s for s in case["steps"] if s[0].split(".")[0] != "validation"]
                try:
                    run_real(nov)
                    ctx.violation("pipeline_right_pass_raises",
                                  f"pipeline {names} on a well-formed pair raises {type(exc).__name__}: {str(exc)[:120]}; "
                                  f"without its validation step(s) it runs: the right pass fails, no right products", case)
                except Exception:  # pylint: disable=broad-except
                    pass
            continue
        ctx.traces += 1
        ctx.count("pipeline_runs")
        # the callbacks executed: one per step, in order, right pass iff a validation step is present
        want = [(n, 0, False) for n in names] if not has_val else [x for n in names for x in ((n, 0, False), (n, 0, True))]
        if [tuple(t) for t in cbtrace] != want or (rdm == 1) != has_val or len(snaps) != len(trace):
            ctx.mismatch("pipeline_callbacks", case, [list(t) for t in cbtrace], {"rdm": rdm, "steps": names})
            continue
        status, k, diff, exact = compare_run(ctx, case, kinds, snaps, trace, left, right, True)
        if status == "diff":
            # a disagreement counts only if it is reproducible: the real run once more (fresh machine)
            again = None
            try:
                snaps_b, _, left_b, right_b = run_real(case)
                again = compare_run(ctx, case, kinds, snaps_b, trace, left_b, right_b, False)
            except Exception:  # pylint: disable=broad-except
                pass
            if again is not None and again[0] != "diff":
                ctx.count("pipeline_disagreement_not_reproduced_on_a_second_run")
                ctx.notes.append(f"pipeline stream: the real run of {names} (case {case['id']}) disagreed with the model "
                                 f"({diff}) and agreed on a second run of the same input: the real code was not "
                                 f"reproducible there")
                status = "agree" if again[0] == "agree" else again[0]
            elif k is None:
                ctx.mismatch("pipeline_final_products", case, diff, "Model/PipelineRun.v run_pipeline")
            else:
                ctx.mismatch("pipeline_step_" + kinds[k], cut_case(case, k), f"after step {k} ({names[k]}): {diff}",
                             "Model/PipelineRun.v run_trace")
        agreed = status == "agree"
        if not has_val and (len(right.data_vars) != 0 or any(s["right"] is not None for s in snaps)):
            ctx.violation("pipeline_right_not_empty",
                          f"pipeline {names} has no validation step but right data were produced", case)
        # ---- the property on the real code: the mirrored run, step by step
        if has_val:
            snaps2 = None
            try:
                snaps2, _, _, _ = run_real(mirrored(case))
            except Exception as exc:  # pylint: disable=broad-except
                ctx.count("pipeline_mirrored_run_raised_" + pu.exc_class(exc))
                ctx.violation("pipeline_mirrored_run_raises",
                              f"pipeline {names} runs on (L, R, {case['disp']}) but raises {type(exc).__name__}: "
                              f"{str(exc)[:120]} on the mirrored problem (R, L, {mirrored(case)['disp']})", case)
            if snaps2 is not None:
                ctx.traces += 1
                for k, (s1, s2) in enumerate(zip(snaps, snaps2)):
                    d = first_mirror_diff(s1, s2)
                    if d:
                        ctx.violation("pipeline_mirror_differs_after_" + kinds[k],
                                      f"pipeline {names}: after step {k} ({names[k]}) the run on (L, R, {case['disp']}) and the "
                                      f"run on (R, L, {mirrored(case)['disp']}) differ: {d}", cut_case(case, k))
                        break
        # ---- bookkeeping
        nontrivial = False
        if agreed and len(names) >= 3 and snaps and snaps[-1]["kind"] == 1 and snaps[-1]["left"] is not None:
            lm = snaps[-1]["left"]
            valid = (lm["mask"] & INVALID) == 0
            nontrivial = bool(valid.any())
            if has_val and snaps[-1]["right"] is not None:
                nontrivial = nontrivial and lm["disp"].tobytes() != snaps[-1]["right"]["disp"].tobytes()
        ctx.case((tuple(names), hashlib.sha1(repr((case["left"], case["right"], case["disp"])).encode()).hexdigest()[:12])
                 if nontrivial else None)
        ctx.count("pipeline_len_%d" % len(names))
        mc = case["steps"][0][1]
        ctx.count("pipeline_in_%s_w%d_subpix%d" % (mc["matching_cost_method"], mc["window_size"], mc["subpix"]))
        ctx.count("pipeline_in_masks_%d%d" % (case["mask_left"] is not None, case["mask_right"] is not None))
        ctx.count("pipeline_in_right_interval_" + ("given" if case["right_disp_given"] else "derived"))
        for n_, c_ in case["steps"]:
            if n_.split(".")[0] == "validation":
                ctx.count("pipeline_in_validation_" + str(c_.get("interpolated_disparity", "no_interpolation")))
        if agreed:
            ctx.count("pipeline_cases_agreeing_to_the_end")
        ctx.sample({"stream": "pipeline", "steps": names, "shape": [case["rows"], case["cols"]], "interval": case["disp"],
                    "right_disp_given": case["right_disp_given"], "compared_exactly": exact}, limit=8)
    # ---- a few cases through the command-line entry
    if ctx.replay_case is None:
        for case in cases[:max(6, n_cases // 40)]:
            try:
                run_main_case(ctx, model, case)
            except Exception as exc:  # pylint: disable=broad-except
                ctx.count("pipeline_main_raised_" + pu.exc_class(exc))
                ctx.mismatch("pipeline_main_raised", case, f"{type(exc).__name__}: {exc}"[:300], "pandora.main runs")
