"""Core of the check machinery: environment, Coq build, extracted-model driver,
verdict protocol, evidence writer.  Used by harness/main.py and every
harness/props/cXX.py module."""
import fcntl
import fractions
import hashlib
import json
import math
import os
import random
import re
import subprocess
import sys
import time

VERIF = os.path.dirname(os.path.dirname(os.path.abspath(__file__)))
REPO = os.environ.get("PANDORA_REPO", "/repo")
COQ = os.path.join(VERIF, "coq")
BUILD = os.path.join(VERIF, "build")
PY = "/venv/bin/python"

FORBIDDEN = re.compile(
    r"\b(Admitted|admit|Axiom|Axioms|Parameter|Parameters|Conjecture|Conjectures|"
    r"Unset\s+Guard|bypass_check|Admit\s+Obligations|type-in-type|impredicative-set|"
    r"Unset\s+Positivity|Unset\s+Universe)\b"
)
# axioms of the standard library that may appear in Print Assumptions (named in the trusted base)
STDLIB_AXIOMS = {
    "functional_extensionality_dep", "proof_irrelevance", "classic", "JMeq_eq", "eq_rect_eq",
    "propositional_extensionality", "constructive_indefinite_description", "sig_forall_dec",
    "sig_not_dec", "completeness", "archimed", "total_order_T", "up", "Rabst", "Rrepr",
}


def setup_env():
    """Environment forced on every run of the implementation."""
    os.environ["PYTHONPATH"] = REPO
    os.environ["PANDORA_REPO"] = REPO
    os.environ.setdefault("PYTHONHASHSEED", "0")
    os.environ["NUMBA_CACHE_DIR"] = os.path.join(VERIF, ".cache", "numba")
    os.environ.setdefault("NUMBA_NUM_THREADS", "4")
    os.makedirs(os.environ["NUMBA_CACHE_DIR"], exist_ok=True)
    if sys.path[0] != REPO:
        sys.path.insert(0, REPO)
    import warnings

    warnings.filterwarnings("ignore")
    import logging

    logging.disable(logging.CRITICAL)


def assert_repo_import():
    import pandora

    src = os.path.realpath(os.path.dirname(pandora.__file__))
    if not src.startswith(os.path.realpath(REPO)):
        raise RuntimeError(f"pandora imported from {src}, expected {REPO}")


# ---------------------------------------------------------------- s-expressions


def enc(v):
    """nested lists / ints / bools / None -> s-expression text"""
    if v is None:
        return "()"
    if isinstance(v, bool):
        return "1" if v else "0"
    if isinstance(v, int):
        return str(v)
    if isinstance(v, fractions.Fraction):
        return f"({v.numerator} {v.denominator})"
    if isinstance(v, (list, tuple)):
        return "(" + " ".join(enc(x) for x in v) + ")"
    if hasattr(v, "item"):  # numpy scalar
        return enc(v.item())
    raise TypeError(f"cannot encode {type(v)}: {v!r}")


def dec(s):
    """s-expression text -> nested lists of ints"""
    toks = s.replace("(", " ( ").replace(")", " ) ").split()
    pos = 0

    def rd():
        nonlocal pos
        t = toks[pos]
        pos += 1
        if t == "(":
            out = []
            while toks[pos] != ")":
                out.append(rd())
            pos += 1
            return out
        return int(t)

    return rd()


def to_q(x):
    """float/int -> exact Fraction (None for NaN); +-inf are not representable"""
    if x is None:
        return None
    if isinstance(x, fractions.Fraction):
        return x
    if isinstance(x, (int,)) and not isinstance(x, bool):
        return fractions.Fraction(x)
    x = float(x)
    if math.isnan(x):
        return None
    if math.isinf(x):
        raise ValueError("inf is not a rational")
    return fractions.Fraction(*x.as_integer_ratio())


def close(f, q, rel=2.0 ** -18, abs_=2.0 ** -18):
    """bridging rule (b): float f (possibly NaN) against exact model value q (Fraction or None)"""
    if q is None:
        return f is None or (isinstance(f, float) and math.isnan(f))
    if f is None or (isinstance(f, float) and (math.isnan(f) or math.isinf(f))):
        return False
    return abs(fractions.Fraction(float(f)) - q) <= max(fractions.Fraction(abs_), abs(q) * fractions.Fraction(rel))


def coqchk(prop_id, timeout=1500):
    """independent re-check of the compiled property file and everything it depends on (thorough tier)"""
    rc, text = run_cmd(["coqchk", "-silent", "-o", "-Q", ".", "Pandora", f"Pandora.Props.{prop_id}"], timeout, cwd=COQ)
    axioms = []
    m = re.search(r"\* Axioms:(.*?)(?:\n\* |\Z)", text, re.S)
    if m:
        axioms = [l.strip() for l in m.group(1).strip().split("\n") if l.strip() and l.strip() != "<none>"]
    return rc == 0, axioms, text[-1500:]


def q_of(v):
    """decoded (num den) or () -> Fraction or None"""
    if v == []:
        return None
    if isinstance(v, int):
        return fractions.Fraction(v)
    return fractions.Fraction(v[0], v[1])


# ---------------------------------------------------------------- model driver


class Model:
    """The extracted Coq model of one property, run as a subprocess."""

    def __init__(self, name):
        self.path = os.path.join(BUILD, name, "driver")
        self.name = name
        self.calls = 0

    def batch(self, cases):
        """cases: list of (fid, arg) -> list of decoded results (one process per batch)"""
        if not cases:
            return []
        text = "\n".join(f"{fid} {enc(arg)}" for fid, arg in cases) + "\n"
        res = subprocess.run(
            ["bash", "-c", f"ulimit -s unlimited 2>/dev/null; exec {self.path}"],
            input=text, capture_output=True, text=True, timeout=3600, check=False,
        )
        lines = res.stdout.split("\n")
        if lines and lines[-1] == "":
            lines.pop()
        if res.returncode != 0 or len(lines) != len(cases):
            raise RuntimeError(
                f"model driver {self.name}: rc={res.returncode} got {len(lines)} lines for {len(cases)} cases; "
                f"stderr={res.stderr[-500:]}"
            )
        self.calls += len(cases)
        return [None if ln == "STACK_OVERFLOW" else dec(ln) for ln in lines]

    def call(self, fid, arg):
        return self.batch([(fid, arg)])[0]


# ---------------------------------------------------------------- build


class BuildLock:
    def __enter__(self):
        os.makedirs(BUILD, exist_ok=True)
        self.f = open(os.path.join(BUILD, ".lock"), "w")
        fcntl.flock(self.f, fcntl.LOCK_EX)
        return self

    def __exit__(self, *a):
        fcntl.flock(self.f, fcntl.LOCK_UN)
        self.f.close()


def run_cmd(cmd, timeout, cwd=None, env=None):
    try:
        r = subprocess.run(cmd, cwd=cwd, env=env, capture_output=True, text=True, timeout=timeout, check=False)
        return r.returncode, r.stdout + r.stderr
    except subprocess.TimeoutExpired as exc:
        out = (exc.stdout or b"").decode("utf-8", "replace") if isinstance(exc.stdout, bytes) else (exc.stdout or "")
        return 124, out + "\nTIMEOUT"


def run_translators(names):
    """Regenerate coq/Gen/*.v from /repo, in this process (importing pandora costs ~20 s because
    pandora/interval_tools.py compiles its numba kernels eagerly: one import per check).
    Returns list of (name, ok, output)."""
    import contextlib
    import importlib
    import io

    tdir = os.path.join(VERIF, "translator")
    if tdir not in sys.path:
        sys.path.insert(1, tdir)
    out = []
    for n in names:
        buf = io.StringIO()
        ok = True
        try:
            mod = importlib.import_module(n)
            with contextlib.redirect_stdout(buf):
                mod.main()
        except BaseException as exc:  # fail closed; TranslationError, SystemExit, anything
            ok = False
            buf.write(f"\nTRANSLATION-ERROR {n}: {type(exc).__name__}: {exc}")
        out.append((n, ok, buf.getvalue().strip()))
    return out


def coq_makefile():
    rc, text = run_cmd(["bash", os.path.join(COQ, "build.sh"), "-n", "--version"], 120, cwd=COQ)
    return rc, text


def coq_build(targets, timeout=1500):
    """make the given .vo targets (and their cone).  Returns (ok, log, failing_file, failing_detail)."""
    # regenerate _CoqProject/Makefile (file lists may have changed)
    files = []
    for d in ("Lib", "Spec", "Model", "Gen", "Proofs", "Props", "Extract"):
        p = os.path.join(COQ, d)
        if os.path.isdir(p):
            files += sorted(os.path.join(d, f) for f in os.listdir(p) if f.endswith(".v") and not f.endswith("_dbg.v"))
    with open(os.path.join(COQ, "_CoqProject.base")) as f:
        base = f.read()
    proj = base + "\n".join(files) + "\n"
    pp = os.path.join(COQ, "_CoqProject")
    old = open(pp).read() if os.path.exists(pp) else None
    if old != proj or not os.path.exists(os.path.join(COQ, "Makefile")):
        with open(pp, "w") as f:
            f.write(proj)
        rc, text = run_cmd(["coq_makefile", "-f", "_CoqProject", "-o", "Makefile"], 120, cwd=COQ)
        if rc != 0:
            return False, text, "_CoqProject", text[-400:]
    rc, text = run_cmd(["make", "-j16", "-k"] + list(targets), timeout, cwd=COQ)
    if rc == 0:
        return True, text, None, None
    m = re.search(r'File "\./([^"]+)", line (\d+), characters [\d-]+:\s*\n(Error:.*?)(?:\n\n|\nmake|\Z)', text, re.S)
    if m:
        return False, text, m.group(1), f"line {m.group(2)}: {m.group(3)[:600]}"
    return False, text, "?", text[-600:]


def enclosing_lemma(vfile, line):
    """Name of the Theorem/Lemma containing a line of a .v file."""
    name = None
    try:
        with open(os.path.join(COQ, vfile)) as f:
            for i, l in enumerate(f, 1):
                m = re.match(r"\s*(Theorem|Lemma|Corollary|Example|Definition|Fixpoint|Fact|Remark)\s+([A-Za-z0-9_']+)", l)
                if m:
                    name = m.group(2)
                if i >= line:
                    break
    except OSError:
        pass
    return name


def props_assumptions(prop_id, timeout=600):
    """Re-run coqc on Props/<id>.v to capture Print Assumptions.
    Returns (ok, theorem_names, {name: 'closed' | [axioms]}, log)."""
    vfile = os.path.join("Props", prop_id + ".v")
    src = open(os.path.join(COQ, vfile)).read()
    theorems = re.findall(r"^\s*(?:Theorem|Corollary)\s+([A-Za-z0-9_']+)", src, re.M)
    printed = re.findall(r"^\s*Print Assumptions\s+([A-Za-z0-9_'.]+)\s*\.", src, re.M)
    # The output of Print Assumptions is a function of the compiled file (a .vo embeds the checksums of
    # everything it depends on): it is kept beside the build, keyed by the SHA-1 of Props/<id>.vo, and the
    # file is compiled a second time only when that .vo changed since the output was captured.
    vo = os.path.join(COQ, "Props", prop_id + ".vo")
    cache = os.path.join(BUILD, "assumptions", prop_id + ".json")
    text = None
    try:
        key = hashlib.sha1(open(vo, "rb").read()).hexdigest()
        c = json.load(open(cache))
        if c.get("vo_sha1") == key and c.get("src_sha1") == hashlib.sha1(src.encode()).hexdigest():
            text = c["text"]
    except (OSError, ValueError):
        pass
    if text is None:
        rc, text = run_cmd(["coqc", "-Q", ".", "Pandora", "-w", "-all", vfile], timeout, cwd=COQ)
        if rc != 0:
            return False, theorems, {}, text
        try:
            os.makedirs(os.path.dirname(cache), exist_ok=True)
            with open(cache, "w") as f:
                json.dump({"vo_sha1": hashlib.sha1(open(vo, "rb").read()).hexdigest(),
                           "src_sha1": hashlib.sha1(src.encode()).hexdigest(), "text": text}, f)
        except OSError:
            pass
    # split the output into one block per Print Assumptions, in order
    blocks = re.split(r"(?=Closed under the global context|Axioms:)", text)
    blocks = [b for b in blocks if b.startswith("Closed under") or b.startswith("Axioms:")]
    result = {}
    for name, b in zip(printed, blocks):
        if b.startswith("Closed under"):
            result[name] = "closed"
        else:
            result[name] = re.findall(r"^([A-Za-z0-9_'.]+)\s*:", b, re.M)
    return True, theorems, result, text


def grep_gate(prop_cone_files):
    """No Admitted/admit/Axiom/... anywhere in the development (comments excluded)."""
    hits = []
    for vf in prop_cone_files:
        try:
            text = open(vf).read()
        except OSError:
            continue
        text = strip_coq_comments(text)
        for m in FORBIDDEN.finditer(text):
            line = text.count("\n", 0, m.start()) + 1
            hits.append(f"{os.path.relpath(vf, COQ)}:{line}: {m.group(0)}")
    return hits


def strip_coq_comments(text):
    out = []
    depth = 0
    i = 0
    n = len(text)
    while i < n:
        if text.startswith("(*", i):
            depth += 1
            i += 2
        elif text.startswith("*)", i) and depth > 0:
            depth -= 1
            i += 2
        else:
            if depth == 0:
                out.append(text[i])
            elif text[i] == "\n":
                out.append("\n")
            i += 1
    return "".join(out)


def all_v_files():
    out = []
    for d in ("Lib", "Spec", "Model", "Gen", "Proofs", "Props", "Extract"):
        p = os.path.join(COQ, d)
        if os.path.isdir(p):
            out += [os.path.join(p, f) for f in sorted(os.listdir(p)) if f.endswith(".v")]
    return out


def build_driver(name, timeout=600):
    """Compile build/<name>/driver from the extracted model.ml (only when it changed)."""
    d = os.path.join(BUILD, name)
    ml = os.path.join(d, "model.ml")
    if not os.path.exists(ml):
        return False, f"{ml} missing (extraction did not run)"
    drv_src = open(os.path.join(VERIF, "extract", "driver.ml")).read()
    h = hashlib.sha1((open(ml).read() + drv_src).encode()).hexdigest()
    stamp = os.path.join(d, "driver.sha1")
    if os.path.exists(os.path.join(d, "driver")) and os.path.exists(stamp) and open(stamp).read() == h:
        return True, "up to date"
    with open(os.path.join(d, "driver.ml"), "w") as f:
        f.write(drv_src)
    rc, text = run_cmd(
        ["ocamlfind", "ocamlopt", "-package", "zarith", "-linkpkg", "-w", "-a",
         "model.mli", "model.ml", "driver.ml", "-o", "driver"],
        timeout, cwd=d,
    )
    if rc != 0:
        return False, text[-800:]
    with open(stamp, "w") as f:
        f.write(h)
    return True, "rebuilt"


# ---------------------------------------------------------------- context / verdict


class Ctx:
    def __init__(self, prop, tier, seed):
        self.prop = prop
        self.tier = tier
        self.seed = seed
        self.rng = random.Random(seed * 1000003 + int(prop[1:]))
        self.t0 = time.time()
        self.broken = []        # obligations / correspondences that no longer check
        self.violations = []    # concrete failing inputs on the real code
        self.stats = {}         # free-form counters printed into the evidence
        self.samples = []
        self.evaluations = 0
        self.nontrivial = set()
        self.traces = 0
        self.model = None
        self.notes = []
        self.obligations = 0
        self.discharged = 0
        self.axioms = {}
        self.theorems = []
        self.gen_obligations = []

    # -- recording
    def count(self, key, n=1):
        self.stats[key] = self.stats.get(key, 0) + n

    def case(self, nontrivial_key=None):
        """one evaluated case; nontrivial_key (hashable) when it is non-trivial by the property's rule"""
        self.evaluations += 1
        if nontrivial_key is not None:
            self.nontrivial.add(nontrivial_key)

    def sample(self, s, limit=6):
        if len(self.samples) < limit:
            self.samples.append(s)

    def broken_obligation(self, name, detail):
        self.broken.append({"name": name, "detail": detail})

    def mismatch(self, name, case, impl, model):
        """correspondence mismatch between the implementation and the extracted model"""
        self.count("correspondence_mismatches")
        if sum(1 for b in self.broken if b["name"] == "correspondence:" + name) < 5:
            self.broken.append({"name": "correspondence:" + name,
                                "detail": {"case": case, "impl": impl, "model": model}})

    def violation(self, key, what, replay):
        """a concrete input on which the PROPERTY fails on the real code"""
        self.violations.append({"key": key, "what": what, "replay": replay})


def load_known():
    p = os.path.join(VERIF, "known_findings.json")
    if not os.path.exists(p):
        return []
    return json.load(open(p)).get("findings", [])


def finish(ctx, level="proof", trusted_base=None, assumptions=None, rule="", checker_cmd="", extra=None):
    """Apply the verdict protocol, write evidence and replay files, print lines, return exit code."""
    known = {(k["property"], k["key"]): k for k in load_known()}
    os.makedirs(os.path.join(VERIF, "replays"), exist_ok=True)
    os.makedirs(os.path.join(VERIF, "evidence"), exist_ok=True)
    lines = []
    n_viol = 0
    seen_known = set()
    reported = set()
    for v in ctx.violations:
        k = (ctx.prop, v["key"])
        if k in known:
            if k not in seen_known:
                seen_known.add(k)
                lines.append(f"KNOWN-FINDING: property={ctx.prop} {known[k]['what']}")
            continue
        if v["key"] in reported:
            continue
        reported.add(v["key"])
        n_viol += 1
        path = os.path.join(VERIF, "replays", f"{ctx.prop}_{v['key']}_{ctx.seed}.json")
        with open(path, "w") as f:
            json.dump({"property": ctx.prop, "kind": "failing-input", "key": v["key"], "what": v["what"],
                       "replay": v["replay"], "broken": ctx.broken[:5]}, f, indent=1, default=str)
        lines.append(f"VIOLATION property={ctx.prop} replay={path}")
    if ctx.broken and n_viol == 0:
        n_viol += 1
        path = os.path.join(VERIF, "replays", f"{ctx.prop}_broken_{ctx.seed}.json")
        with open(path, "w") as f:
            json.dump({"property": ctx.prop, "kind": "no-failing-input-found",
                       "no_longer_checks": ctx.broken[:10],
                       "searched": {"evaluations": ctx.evaluations, "stats": ctx.stats}}, f, indent=1, default=str)
        lines.append(f"VIOLATION property={ctx.prop} replay={path} no-failing-input-found")
    cov = {
        "obligations": ctx.obligations,
        "discharged": ctx.discharged,
        "checker_cmd": checker_cmd,
        "trusted_base": trusted_base or [],
        "evaluations": ctx.evaluations,
        "distinct_nontrivial": len(ctx.nontrivial),
        "rule": rule,
        "samples": ctx.samples,
        "traces_validated_against_impl": ctx.traces,
        "theorems": ctx.theorems,
        "print_assumptions": ctx.axioms,
        "generated_obligations": ctx.gen_obligations,
        "stats": ctx.stats,
        "broken": [b["name"] for b in ctx.broken],
        "known_findings_seen": sorted(k[1] for k in seen_known),
        "notes": ctx.notes,
    }
    if extra:
        cov.update(extra)
    if ctx.discharged < 1 or ctx.obligations < 1:
        # nothing was proved in this run (broken build): the proof-level keys would claim otherwise
        cov["obligations_total"] = cov.pop("obligations")
        cov["discharged_count"] = cov.pop("discharged")
        cov["distinct_nontrivial"] = max(cov["distinct_nontrivial"], 0)
    ev = {
        "property_id": ctx.prop,
        "tier": ctx.tier,
        "seed": ctx.seed,
        "level": level,
        "coverage": cov,
        "assumptions": assumptions or [],
        "wall_s": round(time.time() - ctx.t0, 2),
        "violations": n_viol,
    }
    with open(os.path.join(VERIF, "evidence", ctx.prop + ".json"), "w") as f:
        json.dump(ev, f, indent=1, default=str)
    for l in lines:
        print(l, flush=True)
    print(f"[{ctx.prop}] tier={ctx.tier} seed={ctx.seed} obligations={ctx.obligations} discharged={ctx.discharged} "
          f"evaluations={ctx.evaluations} nontrivial={len(ctx.nontrivial)} broken={len(ctx.broken)} "
          f"violations={n_viol} wall={ev['wall_s']}s", flush=True)
    return 1 if n_viol else 0
