"""Worker process of the C18 check: executed with a fixed NUMBA_NUM_THREADS / PANDORA_NUMBA_PARALLEL
environment (set by harness/props/c18.py before the interpreter starts, so that numba and the
`parallel=` decorators of Pandora see them at import time).

stdin : JSON {"cases": [case, ...], "scenarios": bool, "set_threads": [..]}
stdout: one JSON document {"env": {...}, "results": [...]}.

For every case the REAL code is run through pandora.run / check_pipeline_section (public entry
points, compiled kernels).  Every product is reduced to sha1 digests of its bytes (dtype, shape,
dims, data of every variable, coordinates, attributes), the caller's inputs are digested before and
after every run."""
import copy
import hashlib
import json
import os
import sys
import warnings

warnings.filterwarnings("ignore")
import logging  # noqa: E402

logging.disable(logging.CRITICAL)

import numpy as np  # noqa: E402


def feed_ds(h, o):
    import xarray as xr
    if o is None:
        h.update(b"N")
    elif isinstance(o, xr.Dataset):
        h.update(b"DS")
        for name in sorted(map(str, o.variables)):
            v = o.variables[name]
            h.update(name.encode())
            h.update(str(v.dtype).encode() + str(v.shape).encode() + str(v.dims).encode())
            a = np.asarray(v.values)
            h.update(np.ascontiguousarray(a).tobytes() if a.dtype != object else repr(a.tolist()).encode())
            h.update(repr(sorted((str(k), repr(x)) for k, x in v.attrs.items())).encode())
        h.update(repr(sorted((str(k), repr(v)) for k, v in o.attrs.items())).encode())
    elif isinstance(o, np.ndarray):
        h.update(str(o.dtype).encode() + str(o.shape).encode() + np.ascontiguousarray(o).tobytes())
    elif isinstance(o, (list, tuple)):
        h.update(b"L%d" % len(o))
        for x in o:
            feed_ds(h, x)
    else:
        h.update(repr(o).encode())


def digest(o):
    h = hashlib.sha1()
    feed_ds(h, o)
    return h.hexdigest()


def parts(ds):
    """per-component digests of an image dataset: samples, masks, other variables, coordinates, attributes"""
    out = {}
    for name in sorted(map(str, ds.variables)):
        v = ds.variables[name]
        a = np.asarray(v.values)
        hh = hashlib.sha1(str(v.dtype).encode() + str(v.shape).encode() + str(v.dims).encode()
                          + (np.ascontiguousarray(a).tobytes() if a.dtype != object else repr(a.tolist()).encode())
                          + repr(sorted((str(k), repr(x)) for k, x in v.attrs.items())).encode()).hexdigest()
        kind = "coord:" if name in ds.coords else "var:"
        out[kind + name] = hh
    out["attrs"] = hashlib.sha1(repr(sorted((str(k), repr(v)) for k, v in ds.attrs.items())).encode()).hexdigest()
    return out


def product_digests(left, right):
    """digest of every variable of the two product datasets, separately (so that a difference can be named)"""
    out = {}
    for side, ds in (("left", left), ("right", right)):
        if ds is None:
            out[side] = None
            continue
        d = {}
        for name in sorted(map(str, ds.variables)):
            v = ds.variables[name]
            a = np.asarray(v.values)
            d[name] = hashlib.sha1(str(v.dtype).encode() + str(v.shape).encode() + str(v.dims).encode()
                                   + (np.ascontiguousarray(a).tobytes() if a.dtype != object
                                      else repr(a.tolist()).encode())).hexdigest()
        d["__attrs__"] = hashlib.sha1(repr(sorted((str(k), repr(v)) for k, v in ds.attrs.items())).encode()).hexdigest()
        out[side] = d
    return out


def run_info(left, right):
    """what makes a case non-trivial: valid pixels, fractional (refined) disparities, right products"""
    import pandora.constants as cst
    d = np.asarray(left["disparity_map"].values)
    vm = np.asarray(left["validity_mask"].values)
    valid = (vm & cst.PANDORA_MSK_PIXEL_INVALID) == 0
    with np.errstate(invalid="ignore"):
        frac = int(np.sum(valid & np.isfinite(d) & (d != np.round(d))))
    return {"shape": list(d.shape), "valid_left": int(valid.sum()), "fractional_left": frac,
            "flags_left": sorted(int(x) for x in np.unique(vm))[:12],
            "right_products": bool(right is not None and len(right.data_vars) > 0),
            "confidence_bands": [str(x) for x in left.coords["indicator"].values] if "indicator" in left.coords else []}


def make_inputs(case):
    """deterministic image pair of a case (all values are in the case: seed -> numpy RandomState)"""
    from harness import pandora_util as pu
    rs = np.random.RandomState(case["seed"])
    rows, cols, bands = case["rows"], case["cols"], case.get("bands", 1)
    shift = case.get("shift", 1)
    base = rs.randint(0, 256, size=(bands, rows, cols + 8)).astype(np.float32)
    # a little structure: smooth along columns so that cost curves are not flat
    base = (base + np.roll(base, 1, axis=2) + np.roll(base, 2, axis=2)) / np.float32(3.0)
    base = np.round(base * 4) / 4
    left = base[:, :, 4:cols + 4].copy()
    right = base[:, :, 4 + shift:cols + 4 + shift].copy() + rs.randint(0, 3, size=(bands, rows, cols)).astype(np.float32)
    ml = mr = None
    if case.get("masks"):
        ml = (rs.random_sample((rows, cols)) < 0.06).astype(np.int16) * rs.randint(1, 3, size=(rows, cols)).astype(np.int16)
        mr = (rs.random_sample((rows, cols)) < 0.06).astype(np.int16) * rs.randint(1, 3, size=(rows, cols)).astype(np.int16)
    if case.get("nodata"):
        left[:, 1, 2] = -9999
    names = ["r", "g", "b"][:bands]
    disp = tuple(case["disp"])
    if bands == 1:
        L = pu.image_dataset(left[0], disp=disp, mask=ml)
        R = pu.image_dataset(right[0], disp=None, mask=mr)
    else:
        L = pu.image_dataset(left, disp=disp, mask=ml, bands=names)
        R = pu.image_dataset(right, disp=None, mask=mr, bands=names)
    return L, R


OTHER_PIPELINES = [
    {"pipeline": {"matching_cost": {"matching_cost_method": "census", "window_size": 3},
                  "disparity": {"disparity_method": "wta", "invalid_disparity": -7},
                  "refinement": {"refinement_method": "vfit"},
                  "validation": {"validation_method": "cross_checking_accurate"}}},
    {"pipeline": {"matching_cost": {"matching_cost_method": "zncc", "window_size": 5, "subpix": 2},
                  "cost_volume_confidence": {"confidence_method": "ambiguity", "eta_max": 0.5},
                  "disparity": {"disparity_method": "wta", "invalid_disparity": "NaN"},
                  "filter": {"filter_method": "median", "filter_size": 3}}},
    {"pipeline": {"matching_cost": {"matching_cost_method": "ssd", "window_size": 1},
                  "aggregation": {"aggregation_method": "cbca"},
                  "disparity": {"disparity_method": "wta", "invalid_disparity": 5},
                  "filter": {"filter_method": "bilateral"}}},
]


def other_inputs(k):
    from harness import pandora_util as pu
    rs = np.random.RandomState(1000 + k)
    a = rs.randint(0, 200, size=(9, 13)).astype(np.float32)
    b = np.roll(a, 1, axis=1) + rs.randint(0, 2, size=(9, 13)).astype(np.float32)
    return pu.image_dataset(a, disp=(-2, 1)), pu.image_dataset(b, disp=None)


def neighbour_cfg(v):
    """the same configuration with every finite real-valued parameter moved by 5 % (sigma_space 2.0 -> 2.1 keeps the
    7-pixel window, ...)"""
    if isinstance(v, dict):
        return {k: neighbour_cfg(x) for k, x in v.items()}
    if isinstance(v, float) and v == v and abs(v) != float("inf"):
        return v * 1.05
    return v


def run_neighbour(case):
    """another machine object runs the neighbour-parameter pipeline on copies of the case's inputs; anything memoised
    per class / per module under a key coarser than the parameters would afterwards serve the wrong values"""
    import pandora
    from pandora.state_machine import PandoraMachine

    L, R = make_inputs(case)
    try:
        pandora.run(PandoraMachine(), L, R, neighbour_cfg(copy.deepcopy(case["cfg"])))
        return "ran"
    except Exception as exc:  # pylint: disable=broad-except
        return "refused: " + type(exc).__name__


def run_case(case, scenarios, full=False):
    import pandora
    from pandora.state_machine import PandoraMachine
    from pandora.check_configuration import check_pipeline_section
    from pandora.img_tools import get_metadata  # noqa: F401  (not used: metadata built from the datasets)
    from harness import pandora_util as pu

    cfg0 = case["cfg"]
    L, R = make_inputs(case)
    in_before = {"left": parts(L), "right": parts(R)}
    res = {"id": case["id"], "runs": {}, "inputs_changed": [], "cfg_changed": [], "errors": []}

    def check_inputs(tag):
        now = {"left": parts(L), "right": parts(R)}
        for side in ("left", "right"):
            keys = sorted(set(now[side]) | set(in_before[side]))
            ch = [k for k in keys if now[side].get(k) != in_before[side].get(k)]
            if ch:
                res["inputs_changed"].append({"after": tag, "side": side, "components": ch})
                in_before[side] = now[side]       # report each change once

    def one_run(tag, machine, cfg=None):
        c = copy.deepcopy(cfg0) if cfg is None else cfg
        c_before = json.dumps(c, sort_keys=True, default=str)
        try:
            left, right = pandora.run(machine, L, R, c)
            res["runs"][tag] = product_digests(left, right)
            if tag == "fresh":
                res["info"] = run_info(left, right)
        except Exception as exc:  # pylint: disable=broad-except
            res["runs"][tag] = {"error": type(exc).__name__ + ": " + str(exc)[:160]}
        if json.dumps(c, sort_keys=True, default=str) != c_before:
            res["cfg_changed"].append(tag)
        check_inputs(tag)

    def meta(ds):
        bands = list(ds.coords["band_im"].values) if "band_im" in ds.coords else None
        return pu.meta_dataset(rows=ds.sizes["row"], cols=ds.sizes["col"], disp=tuple(case["disp"]), bands=bands)

    m = PandoraMachine()
    one_run("fresh", m)
    if scenarios:
        # the same machine again, twice
        one_run("reused_1", m)
        if full:
            one_run("reused_2", m)
        # repetitions with ONE configuration dictionary (a tile loop passes the same dict every time): whatever a run
        # writes into it must not change the next run
        shared = copy.deepcopy(cfg0)
        one_run("reused_samecfg_1", PandoraMachine(), shared)
        one_run("reused_samecfg_2", PandoraMachine(), shared)
        one_run("reused_samecfg_3", m, shared)
        # the same machine checks the pipeline (both orders of use occur in main and in the API), then runs
        try:
            checked = check_pipeline_section(copy.deepcopy(cfg0), meta(L), meta(R), m)
            res["checked_cfg_digest"] = hashlib.sha1(json.dumps(checked, sort_keys=True, default=str).encode()).hexdigest()
        except Exception as exc:  # pylint: disable=broad-except
            res["errors"].append("check: " + type(exc).__name__ + ": " + str(exc)[:160])
            checked = None
        one_run("after_check", m)
        if checked is not None:
            # run with the checked (completed) configuration, as main does
            one_run("after_check_completed_cfg", m, copy.deepcopy(checked))
            try:
                checked2 = check_pipeline_section(copy.deepcopy(cfg0), meta(L), meta(R), m)
                d2 = hashlib.sha1(json.dumps(checked2, sort_keys=True, default=str).encode()).hexdigest()
                if d2 != res["checked_cfg_digest"]:
                    res["errors"].append("second check of the same pipeline on the same machine returned another configuration")
            except Exception as exc:  # pylint: disable=broad-except
                res["errors"].append("second check: " + type(exc).__name__ + ": " + str(exc)[:160])
        # other machine objects check and run other pipelines (other matching-cost classes: the shared
        # class-level schema dictionary is rewritten) in between
        for k, ocfg in enumerate(OTHER_PIPELINES if full else OTHER_PIPELINES[:1]):
            om = PandoraMachine()
            oL, oR = other_inputs(k)
            try:
                check_pipeline_section(copy.deepcopy(ocfg), meta(oL), meta(oR), om)
                pandora.run(om, oL, oR, copy.deepcopy(ocfg))
            except Exception as exc:  # pylint: disable=broad-except
                res["errors"].append(f"other pipeline {k}: " + type(exc).__name__ + ": " + str(exc)[:160])
            one_run(f"after_other_{k}", m)
        # another machine object runs the SAME pipeline with every real-valued parameter moved by 5 %
        res.setdefault("notes", []).append("neighbour-parameter pipeline " + run_neighbour(case))
        one_run("after_other_neighbour_parameters", m)
        # a pipeline the other machine REJECTS (leaves its transitions / the shared dicts half-way)
        try:
            bad = PandoraMachine()
            check_pipeline_section({"pipeline": {"matching_cost": {"matching_cost_method": "census", "window_size": 7},
                                                 "disparity": {"disparity_method": "wta"}}}, meta(L), meta(R), bad)
            res["errors"].append("the malformed pipeline was accepted")
        except Exception:  # pylint: disable=broad-except
            pass
        one_run("after_rejected_other", m)
        # the SAME machine object checks and runs another pipeline (with a validation step: right products,
        # second checking round), then one without, then runs this case's pipeline again
        for k, ocfg in enumerate(OTHER_PIPELINES[:2]):
            oL, oR = other_inputs(k)
            try:
                check_pipeline_section(copy.deepcopy(ocfg), meta(oL), meta(oR), m)
                pandora.run(m, oL, oR, copy.deepcopy(ocfg))
            except Exception as exc:  # pylint: disable=broad-except
                res["errors"].append(f"other pipeline {k} on the same machine: " + type(exc).__name__ + ": " + str(exc)[:160])
            one_run(f"same_machine_after_other_{k}", m)
        one_run("fresh_again", PandoraMachine())
    return res


def audit_frames(case, frames):
    """one more real run on a machine whose run callbacks are wrapped: every attribute listed by the translator is
    digested before and after each callback; what changed must be inside (may-assign + read) of the generated frame"""
    import pandora
    from pandora.state_machine import PandoraMachine

    L, R = make_inputs(case)
    m = PandoraMachine()
    attrs = frames["attrs"]
    bad = []
    n_cb = [0]
    for cb, fr in frames["callbacks"].items():
        orig = getattr(m, cb)

        def wrapper(cfg, input_step, _orig=orig, _cb=cb, _fr=fr):
            before = {a: digest(getattr(m, a, None)) for a in attrs}
            rdm = m.right_disp_map == "cross_checking_accurate"
            out = _orig(cfg, input_step)
            n_cb[0] += 1
            allowed = set(_fr[str(rdm)]["may"]) | set(_fr[str(rdm)]["reads"])
            changed = [a for a in attrs if digest(getattr(m, a, None)) != before[a]]
            extra = [a for a in changed if a not in allowed]
            if extra:
                bad.append({"callback": _cb, "step": input_step, "rdm": rdm, "changed_outside_frame": extra})
            return out

        setattr(m, cb, wrapper)
    orig_prep = m.run_prepare

    def prep_wrapper(cfg, left, right, scale_factor=None, num_scales=None, _orig=orig_prep):
        before = {a: digest(getattr(m, a, None)) for a in attrs}
        out = _orig(cfg, left, right, scale_factor, num_scales)
        multi = m.num_scales > 1
        fr = frames["prepare"][str(multi)]
        # add_transitions touches no listed attribute; everything that changed must be in may-assign
        extra = [a for a in attrs if digest(getattr(m, a, None)) != before[a] and a not in fr["may"]]
        if extra:
            bad.append({"callback": "run_prepare", "changed_outside_frame": extra})
        return out

    m.run_prepare = prep_wrapper
    try:
        pandora.run(m, L, R, copy.deepcopy(case["cfg"]))
    except Exception as exc:  # pylint: disable=broad-except
        return {"error": type(exc).__name__ + ": " + str(exc)[:160]}
    return {"callbacks_audited": n_cb[0], "bad": bad}


def kernel_cases(case):
    """the parallel kernels that pandora.run does not reach (sampled variants, approximate refinement):
    called directly (compiled static methods) on a cost volume produced by the real matching cost"""
    import pandora
    from pandora import matching_cost, disparity, refinement
    from pandora.cost_volume_confidence.ambiguity import Ambiguity
    from pandora.cost_volume_confidence.risk import Risk
    from pandora.criteria import validity_mask
    from pandora import interval_tools

    L, R = make_inputs(case)
    out = {}
    mc = matching_cost.AbstractMatchingCost(matching_cost_method="sad", window_size=3, subpix=1)
    dmin, dmax = case["disp"]
    grid = mc.allocate_cost_volume(L, (L["disparity"].sel(band_disp="min").data, L["disparity"].sel(band_disp="max").data))
    grid = validity_mask(L, R, grid)
    cv = mc.compute_cost_volume(L, R, grid)
    mc.cv_masked(L, R, cv, L["disparity"].sel(band_disp="min").data, L["disparity"].sel(band_disp="max").data)
    data = np.ascontiguousarray(cv["cost_volume"].data.astype(np.float32))
    amb, samp = Ambiguity.compute_ambiguity_and_sampled_ambiguity(data, np.float32(0.0), np.float32(0.7), np.float32(0.01))
    out["ambiguity_and_sampled"] = [digest(amb), digest(samp)]
    r = Risk.compute_risk_and_sampled_risk(data, samp, np.float32(0.0), np.float32(0.7), np.float32(0.01))
    out["risk_and_sampled"] = [digest(x) for x in r]
    out["risk"] = [digest(x) for x in Risk.compute_risk(data, samp, np.float32(0.0), np.float32(0.7), np.float32(0.01))]
    dsp = disparity.AbstractDisparity(disparity_method="wta", invalid_disparity=-9999)
    dl = dsp.to_disp(cv, L, R)
    dr = dsp.approximate_right_disparity(cv, R)
    ref = refinement.AbstractRefinement(refinement_method=case.get("refinement", "vfit"))
    dr2 = ref.approximate_subpixel_refinement(cv, dr)
    out["approximate_refinement"] = product_digests(dr2, None)["left"]
    ref.subpixel_refinement(cv, dl)
    out["refinement"] = product_digests(dl, None)["left"]
    # interval regularisation on a synthetic ambiguity map with many segments, and the data precondition of
    # graph_regularization (the segments handed to it are pairwise disjoint)
    rs = np.random.RandomState(case["seed"] + 7)
    rows, cols = case["rows"], case["cols"]
    inf = rs.randint(-5, 0, size=(rows, cols)).astype(np.float32)
    sup = inf + rs.randint(0, 6, size=(rows, cols)).astype(np.float32)
    ambm = rs.random_sample((rows, cols)).astype(np.float32)
    seen = {}
    orig = interval_tools.graph_regularization

    def spy(i_inf, i_sup, bl, br, graph, quant):
        cells = set()
        overlap = 0
        for k in range(len(bl)):
            for c in range(int(bl[k, 1]), int(br[k, 1]) + 1):
                key = (int(bl[k, 0]), c)
                overlap += key in cells
                cells.add(key)
        seen["segments"] = int(len(bl))
        seen["overlapping_cells"] = int(overlap)
        seen["rows_match"] = bool((bl[:, 0] == br[:, 0]).all())
        return orig(i_inf, i_sup, bl, br, graph, quant)

    interval_tools.graph_regularization = spy
    try:
        for depth in (0, 1, 2):
            reg = interval_tools.interval_regularization(inf, sup, ambm, 0.6, 3, depth, 0.9)
            out[f"interval_regularization_depth{depth}"] = [digest(x) for x in reg]
    finally:
        interval_tools.graph_regularization = orig
    out["segments_precondition"] = seen
    return out


def schema_probe():
    """accept / refuse of small matching-cost configurations, in a fixed order: first the classes that do NOT rewrite
    the shared class-level schema dictionary on every key (sad / ssd / zncc, probed on every shared key: window_size,
    subpix), then census (which rewrites window_size), then the first ones again.  In a new process the first block runs
    before any census object exists; at the end of the process every class has been instantiated many times: the two
    lists must be equal"""
    from pandora import matching_cost
    probes = [("sad", {"window_size": 4}), ("sad", {"window_size": 7}), ("sad", {"subpix": 8}), ("sad", {"subpix": 6}),
              ("ssd", {"subpix": 16}), ("ssd", {"window_size": 1}), ("zncc", {"subpix": 3}), ("zncc", {"window_size": 2}),
              ("zncc", {"window_size": 9}), ("zncc", {"subpix": 8}),
              ("census", {"window_size": 3}), ("census", {"window_size": 7}), ("census", {"window_size": 4}),
              ("census", {"window_size": 5}), ("census", {"window_size": 9}), ("census", {"subpix": 8}),
              ("sad", {"subpix": 8}), ("sad", {"window_size": 7}), ("zncc", {"window_size": 9}), ("ssd", {"subpix": 16})]
    out = []
    for method, extra in probes:
        try:
            matching_cost.AbstractMatchingCost(matching_cost_method=method, **extra)
            out.append([method, json.dumps(extra, sort_keys=True), "accepted"])
        except Exception as exc:  # pylint: disable=broad-except
            out.append([method, json.dumps(extra, sort_keys=True), "refused:" + type(exc).__name__])
    return out


def main():
    spec = json.load(sys.stdin)
    import numba
    import pandora  # noqa: F401
    from pandora.refinement import refinement as _r  # noqa: F401

    env = {"NUMBA_NUM_THREADS": os.environ.get("NUMBA_NUM_THREADS"),
           "PANDORA_NUMBA_PARALLEL": os.environ.get("PANDORA_NUMBA_PARALLEL"),
           "numba_threads": int(numba.config.NUMBA_NUM_THREADS),
           "threading_layer_requested": str(numba.config.THREADING_LAYER),
           "pandora": os.path.dirname(pandora.__file__)}
    results = []
    probe_start = schema_probe()
    for n in spec.get("set_threads") or [None]:
        if n is not None:
            numba.set_num_threads(n)
        for case in spec["cases"]:
            if spec.get("neighbour_first"):
                # in THIS process the neighbour-parameter pipeline runs before the case is ever run: its `fresh` products
                # are compared with those of the processes that ran the case first
                run_neighbour(case)
            r = run_case(case, spec.get("scenarios", False) and case.get("scenarios", True), spec.get("full", False))
            r["threads_now"] = int(numba.get_num_threads())
            if spec.get("frames") and spec.get("scenarios") and case.get("scenarios", True):
                r["frame_audit"] = audit_frames(case, spec["frames"])
            if case.get("kernels"):
                try:
                    r["kernels"] = kernel_cases(case)
                except Exception as exc:  # pylint: disable=broad-except
                    r["kernels"] = {"error": type(exc).__name__ + ": " + str(exc)[:200]}
            results.append(r)
    try:
        env["threading_layer"] = numba.threading_layer()
    except Exception:  # pylint: disable=broad-except
        env["threading_layer"] = None
    json.dump({"env": env, "results": results, "probe_start": probe_start, "probe_end": schema_probe()}, sys.stdout)


if __name__ == "__main__":
    sys.path.insert(0, os.path.dirname(os.path.dirname(os.path.abspath(__file__))))
    main()
