"""./check <id> [--tier quick|thorough] [--replay path]

Anatomy (DESIGN.md 2.3/2.4): regenerate Gen/*.v from /repo, build the Coq cone
of Props/<id>.v, read Print Assumptions, grep gate, build the extracted model,
run the property's correspondence / spec checks against the real code, apply
the verdict protocol, write evidence/<id>.json."""
import argparse
import importlib
import json
import os
import sys
import traceback

sys.path.insert(0, os.path.dirname(os.path.dirname(os.path.abspath(__file__))))
from harness import core  # noqa: E402

TRUSTED_COMMON = [
    "Coq 8.16.1 kernel (coqc; vm_compute used, native_compute not used)",
    "axioms declared by this development: none (grep gate on every run); Print Assumptions per theorem in coverage.print_assumptions",
    "extraction: ExtrOcamlBasic directives only (bool, option, unit, prod, list, sumbool, sumor, comparison; fst/snd/andb/orb inlined); Z/positive/Q/nat stay Coq inductives; OCaml 4.13.1 + zarith only in the hand-written driver (integer parsing/printing)",
    "the translators in /verif/translator (T-gen) and the correspondence harness in /verif/harness (T-corr), including canonicalisation",
]


def main():
    ap = argparse.ArgumentParser()
    ap.add_argument("prop")
    ap.add_argument("--tier", default=os.environ.get("VERIF_TIER", "quick"), choices=["quick", "thorough"])
    ap.add_argument("--replay", default=None)
    args = ap.parse_args()
    seed = int(os.environ.get("VERIF_SEED", "1"))
    prop = args.prop.upper()
    core.setup_env()
    ctx = core.Ctx(prop, args.tier, seed)
    mod = importlib.import_module("harness.props." + prop.lower())
    ctx.replay_path = args.replay
    ctx.replay_case = None
    if args.replay:
        with open(args.replay) as f:
            rp = json.load(f)
        ctx.replay_case = rp.get("replay")
        if ctx.replay_case is None:
            print(f"replay file names no failing input (kind={rp.get('kind')}); no longer checks: "
                  f"{[b['name'] for b in rp.get('no_longer_checks', [])]}; re-running the whole check")
    else:
        # stale replays of this property are removed; this run rewrites what it finds
        import glob
        for old in glob.glob(os.path.join(core.VERIF, "replays", prop + "_*.json")):
            os.remove(old)

    coq_ok = True
    with core.BuildLock():
        for x in getattr(mod, "DRIVERS", []):
            os.makedirs(os.path.join(core.BUILD, x), exist_ok=True)
        # 1. T-gen
        for name, ok, text in core.run_translators(getattr(mod, "GEN", [])):
            ctx.notes.append(f"translator {name}: {text.splitlines()[-1] if text else ''}")
            if not ok:
                ctx.broken_obligation("translator:" + name, text[-800:])
        # 2. Coq build: the model/extraction first (needed to run), then the theorems
        extract_targets = [f"Extract/{x}.vo" for x in getattr(mod, "EXTRACT_FILES", [])]
        if extract_targets:
            ok, log, ffile, fdetail = core.coq_build(extract_targets)
            if not ok:
                ctx.broken_obligation(f"coq-build:{ffile}", fdetail)
        ok, log, ffile, fdetail = core.coq_build([f"Props/{prop}.vo"])
        if not ok:
            coq_ok = False
            lemma = None
            import re
            m = re.match(r"line (\d+)", fdetail or "")
            if m and ffile:
                lemma = core.enclosing_lemma(ffile, int(m.group(1)))
            ctx.broken_obligation(f"coq:{ffile}:{lemma}", fdetail)
        # 3. Print Assumptions + grep gate
        if coq_ok:
            ok, theorems, axioms, log = core.props_assumptions(prop)
            ctx.theorems = theorems
            ctx.axioms = axioms
            ctx.obligations = len(theorems)
            if not ok:
                ctx.broken_obligation(f"coq:Props/{prop}.v", log[-600:])
            else:
                bad = {}
                for t in theorems:
                    a = axioms.get(t)
                    if a is None:
                        bad[t] = "no Print Assumptions"
                    elif a != "closed":
                        extra = [x for x in a if x.split(".")[-1] not in core.STDLIB_AXIOMS]
                        if extra:
                            bad[t] = extra
                ctx.discharged = len(theorems) - len(bad)
                for t, why in bad.items():
                    ctx.broken_obligation(f"assumptions:{t}", str(why))
        else:
            import re
            src = open(os.path.join(core.COQ, "Props", prop + ".v")).read()
            ctx.theorems = re.findall(r"^\s*(?:Theorem|Corollary)\s+([A-Za-z0-9_']+)", src, re.M)
            ctx.obligations = len(ctx.theorems)
            ctx.discharged = 0
        if coq_ok and args.tier == "thorough":
            ok, chk_axioms, chk_log = core.coqchk(prop)
            ctx.notes.append(f"coqchk -o: {'ok' if ok else 'FAILED'}; axioms: {chk_axioms or 'none'}")
            if not ok:
                ctx.broken_obligation("coqchk", chk_log)
        hits = core.grep_gate(core.all_v_files())
        if hits:
            ctx.broken_obligation("grep-gate", hits[:10])
        # 4. extracted model driver
        for x in getattr(mod, "DRIVERS", []):
            ok, text = core.build_driver(x)
            if not ok:
                ctx.broken_obligation(f"driver:{x}", text)
    ctx.notes.append(f"build phase: {round(__import__('time').time() - ctx.t0, 1)} s")
    # 5. the property's own exploration against the real code
    try:
        core.assert_repo_import()
        mod.run(ctx)
    except Exception:  # a crash of the harness is a broken correspondence, never silence
        ctx.broken_obligation("harness-crash", traceback.format_exc()[-1500:])
    # 6. verdict + evidence
    rc = core.finish(
        ctx,
        level="proof",
        trusted_base=TRUSTED_COMMON + list(getattr(mod, "TRUSTED", [])),
        assumptions=list(getattr(mod, "ASSUMES", [])),
        rule=getattr(mod, "RULE", ""),
        checker_cmd=f"cd /verif/coq && make Props/{prop}.vo && coqc -Q . Pandora Props/{prop}.v  (thorough: coqchk -o -Q . Pandora Pandora.Props.{prop})",
    )
    sys.exit(rc)


if __name__ == "__main__":
    main()
