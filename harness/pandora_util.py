"""Helpers to drive the real Pandora code (imported from /repo) from the harness."""
import copy

import numpy as np
import xarray as xr

KINDS = ["matching_cost", "aggregation", "semantic_segmentation", "optimization", "disparity",
         "filter", "refinement", "validation", "multiscale", "cost_volume_confidence"]
KIND_CODE = {k: i for i, k in enumerate(KINDS)}


def kind_code_of_name(name):
    return KIND_CODE.get(name.split(".")[0], -1)


def meta_dataset(rows=8, cols=12, disp=(-2, 2), bands=None):
    """metadata-like dataset as returned by img_tools.get_metadata (what check_conf receives)"""
    ds = xr.Dataset({}, coords={"band_im": list(bands) if bands else [None],
                                "row": np.arange(rows), "col": np.arange(cols)})
    ds.attrs = {"disparity_source": list(disp) if disp is not None else None}
    return ds


def image_dataset(data, disp=(-2, 2), mask=None, bands=None, nodata=-9999, grids=None):
    """in-memory image dataset as create_dataset_from_inputs builds it.
    data: 2-D (rows, cols) or 3-D (bands, rows, cols); disp: (min,max) or None; grids: (min_grid, max_grid)"""
    data = np.asarray(data, dtype=np.float32)
    if data.ndim == 2:
        rows, cols = data.shape
        ds = xr.Dataset({"im": (["row", "col"], data)}, coords={"row": np.arange(rows), "col": np.arange(cols)})
    else:
        _, rows, cols = data.shape
        ds = xr.Dataset({"im": (["band_im", "row", "col"], data)},
                        coords={"band_im": list(bands), "row": np.arange(rows), "col": np.arange(cols)})
    ds.attrs = {"no_data_img": nodata, "valid_pixels": 0, "no_data_mask": 1, "crs": None, "transform": None,
                "disparity_source": None}
    if mask is not None:
        ds["msk"] = xr.DataArray(np.asarray(mask, dtype=np.int16), dims=["row", "col"])
    if grids is not None:
        gmin, gmax = grids
        ds["disparity"] = xr.DataArray(
            np.array([gmin, gmax], dtype=np.float32), dims=["band_disp", "row", "col"],
            coords={"band_disp": ["min", "max"]})
        ds.attrs["disparity_source"] = "grids"
    elif disp is not None:
        ds["disparity"] = xr.DataArray(
            np.array([np.full((rows, cols), disp[0]), np.full((rows, cols), disp[1])], dtype=np.float32),
            dims=["band_disp", "row", "col"], coords={"band_disp": ["min", "max"]})
        ds.attrs["disparity_source"] = list(disp)
    return ds


_STUBS_DONE = False


def register_stub_plugins():
    """optimization and semantic_segmentation have no built-in method: register identity stubs."""
    global _STUBS_DONE
    if _STUBS_DONE:
        return
    from pandora import optimization, semantic_segmentation

    @optimization.AbstractOptimization.register_subclass("stub_opt")
    class StubOpt(optimization.AbstractOptimization):  # pylint: disable=unused-variable
        # margins are inherited from AbstractOptimization on purpose

        def __init__(self, _img, **cfg):
            if cfg.get("bad"):
                raise KeyError("bad optimization parameter")
            self.cfg = dict(cfg)

        def desc(self):
            pass

        def optimize_cv(self, cv, img_left, img_right):
            return cv

    @semantic_segmentation.AbstractSemanticSegmentation.register_subclass("stub_seg")
    class StubSeg(semantic_segmentation.AbstractSemanticSegmentation):  # pylint: disable=unused-variable
        def __init__(self, _img, **cfg):
            if cfg.get("bad"):
                raise KeyError("bad segmentation parameter")
            self.cfg = dict(cfg)

        def desc(self):
            pass

        def compute_semantic_segmentation(self, cv, img_left, img_right):
            return img_left

    _STUBS_DONE = True


def n_registered(machine):
    """number of transitions currently registered on a transitions.Machine"""
    return sum(len(ts) for ev in machine.events.values() for ts in ev.transitions.values())


STATE_CODE = {"begin": 0, "cost_volume": 1, "disp_map": 2}


def spy_machine():
    """A PandoraMachine whose run callbacks record (step name, scale, right?) when they execute."""
    from pandora.state_machine import PandoraMachine

    m = PandoraMachine()
    m.trace = []
    for kind in KINDS:
        cb = "run_multiscale" if kind == "multiscale" else kind + "_run"
        orig = getattr(m, cb)

        def wrapper(cfg, input_step, _orig=orig, _m=m):
            scale = _m.current_scale
            right = _m.right_disp_map == "cross_checking_accurate"
            _m.trace.append((input_step, scale, False))
            if right:
                _m.trace.append((input_step, scale, True))
            return _orig(cfg, input_step)

        setattr(m, cb, wrapper)
    return m


def exc_class(exc):
    """small enum of exception classes"""
    n = type(exc).__name__
    if n in ("MachineError", "KeyError", "AttributeError", "TypeError", "ValueError", "ZeroDivisionError",
             "SystemError", "IndexError"):
        return n
    if "Checker" in n:
        return "CheckerError"
    return "Other:" + n


def deep_copy_cfg(cfg):
    return copy.deepcopy(cfg)
