"""Shared by C02 / C09: case generator for the matching-cost step, runner of the REAL code
(entry points as the state machine calls them), and a short independent brute-force oracle
of the PROPERTY (python, Fractions) used for exploration and as a second opinion next to the
spec extracted from Coq (Spec/Cost.v)."""
import math
from fractions import Fraction

import numpy as np

from harness import pandora_util as pu

MEASURES = ["sad", "ssd", "census", "zncc"]
MCODE = {m: i for i, m in enumerate(MEASURES)}
VALID, NODATA = 0, 1  # attrs valid_pixels / no_data_mask used by image_dataset


# ---------------------------------------------------------------- generator


def gen_image(rng, rows, cols, amp, style):
    if style == "flat":      # many ties / zero-variance windows
        v = rng.randrange(-amp, amp + 1)
        img = [[v for _ in range(cols)] for _ in range(rows)]
        for _ in range(rng.randrange(0, 4)):
            img[rng.randrange(rows)][rng.randrange(cols)] = rng.randrange(-amp, amp + 1)
        return img
    if style == "small":     # few grey levels (census ties)
        return [[rng.randrange(0, 4) for _ in range(cols)] for _ in range(rows)]
    return [[rng.randrange(-amp, amp + 1) for _ in range(cols)] for _ in range(rows)]


def gen_mask(rng, rows, cols):
    """valid (0) / nodata (1) / invalid (other values), with cells next to the borders"""
    m = [[VALID] * cols for _ in range(rows)]
    n = rng.randrange(1, max(2, rows * cols // 6))
    for _ in range(n):
        if rng.random() < 0.4:   # next to a border
            r = rng.choice([0, 1, rows - 1, rows - 2]) % rows
            c = rng.randrange(cols)
            if rng.random() < 0.5:
                r, c = rng.randrange(rows), rng.choice([0, 1, cols - 1, cols - 2]) % cols
        else:
            r, c = rng.randrange(rows), rng.randrange(cols)
        m[r][c] = rng.choice([NODATA, NODATA, 2, 3, 255, -1])
    return m


def gen_interval(rng, cols):
    k = rng.random()
    if k < 0.12:                      # one point
        a = rng.randrange(-4, 5)
        return a, a
    if k < 0.27:                      # all negative
        b = -rng.randrange(1, 4)
        return b - rng.randrange(0, 4), b
    if k < 0.42:                      # all positive
        a = rng.randrange(1, 4)
        return a, a + rng.randrange(0, 4)
    if k < 0.52:                      # wider than the image
        return -cols - rng.randrange(0, 3), cols + rng.randrange(0, 3)
    if k < 0.6:                       # beyond the image on one side
        if rng.random() < 0.5:
            return cols - 2, cols + 2
        return -cols - 2, -cols + 2
    a = -rng.randrange(0, 5)
    return a, a + rng.randrange(1, 7)


def gen_case(rng, measure=None, window=None, subpix=None, small=False, max_nd=None):
    measure = measure or rng.choice(MEASURES)
    if window is None:
        window = rng.choice([3, 5]) if measure == "census" else rng.choice([1, 3, 3, 5, 5, 7])
    subpix = subpix or rng.choice([1, 1, 2, 4])
    rows = rng.randrange(3, 9 if small else 15)
    cols = rng.randrange(4, 11 if small else 19)
    amp = {"sad": 1023, "ssd": 60, "census": 1023, "zncc": 255}[measure]
    style = rng.choice(["rand", "rand", "rand", "small", "flat"])
    nb = rng.choice([1, 1, 2, 3])
    left = [gen_image(rng, rows, cols, amp, style) for _ in range(nb)]
    # right = left moved by a few columns plus noise on some pixels, or independent
    if rng.random() < 0.5:
        sh = rng.randrange(-2, 3)
        right = [[[b[r][(c + sh) % cols] + (rng.randrange(-3, 4) if rng.random() < 0.3 and style != "flat" else 0)
                   for c in range(cols)] for r in range(rows)] for b in left]
    else:
        right = [gen_image(rng, rows, cols, amp, style) for _ in range(nb)]
    if nb == 1:
        bands, band = None, None
    else:
        bands = ["r", "g", "b"][:nb]
        band = rng.choice(bands)
    # the right dataset may list its bands in another order than the left one (nothing enforces the same order:
    # the selected band is looked up by NAME in each image)
    perm_r = None
    if nb > 1 and rng.random() < 0.4:
        perm_r = list(range(nb))
        rng.shuffle(perm_r)
    mask_l = gen_mask(rng, rows, cols) if rng.random() < 0.55 else None
    mask_r = gen_mask(rng, rows, cols) if rng.random() < 0.55 else None
    dmin, dmax = gen_interval(rng, cols)
    if max_nd is not None and (dmax - dmin) * subpix + 1 > max_nd:
        dmax = dmin + max(0, (max_nd - 1) // subpix)
    grids = None
    if rng.random() < 0.35 and dmax > dmin:
        gmin = [[rng.randrange(dmin, dmax + 1) for _ in range(cols)] for _ in range(rows)]
        gmax = [[rng.randrange(gmin[r][c], dmax + 1) for c in range(cols)] for r in range(rows)]
        grids = (gmin, gmax)
    return {"measure": measure, "window": window, "subpix": subpix, "rows": rows, "cols": cols,
            "left": left, "right": right, "bands": bands, "band": band, "mask_l": mask_l, "mask_r": mask_r,
            "disp": [dmin, dmax], "grids": grids, "perm_r": perm_r,
            "conv_r": rng.choice([(5, 7), (4, 0), (1, 0), (7, 5)]) if (mask_r is not None and rng.random() < 0.35) else None}


def case_grids(case):
    """(gmin, gmax) integer grids of a case (a scalar interval is the constant grid, as add_disparity builds it)"""
    if case["grids"] is not None:
        return case["grids"]
    rows, cols = case["rows"], case["cols"]
    return ([[case["disp"][0]] * cols for _ in range(rows)], [[case["disp"][1]] * cols for _ in range(rows)])


def case_global_interval(case):
    """the disparity axis of the cost volume: int(nanmin), int(nanmax) of the grids (get_min_max_from_grid; int()
    rounds a fractional bound toward zero)"""
    gmin, gmax = case_grids(case)
    return int(min(min(r) for r in gmin)), int(max(max(r) for r in gmax))


def fractional_grids(rng, case):
    """the same case with per-pixel bounds that are multiples of 1/4 pixel (exact in float32): the grids that the
    multiscale step builds from refined disparities, or that are read from float files"""
    rows, cols = case["rows"], case["cols"]
    dmin, dmax = case["disp"]
    if dmax <= dmin:
        dmax = dmin + 2
    q = lambda lo, hi: rng.randrange(int(lo * 4), int(hi * 4) + 1) / 4.0
    lo_all = dmin
    if rng.random() < 0.5:
        # the smallest bound of the whole grid is itself fractional (the origin of the disparity axis is its
        # integer part), half of the time positive
        if rng.random() < 0.5:
            dmin, dmax = rng.randrange(0, 3), rng.randrange(0, 3) + rng.randrange(3, 6)
            dmax = max(dmax, dmin + 2)
        lo_all = dmin + rng.choice([0.25, 0.5, 0.75])
    gmin = [[q(lo_all, dmax) for _ in range(cols)] for _ in range(rows)]
    gmin[rng.randrange(rows)][rng.randrange(cols)] = lo_all
    gmax = [[q(gmin[r][c], dmax) for c in range(cols)] for r in range(rows)]
    return dict(case, disp=[dmin, dmax], grids=(gmin, gmax), fractional=True)


def band_index(case):
    return 0 if case["bands"] is None else case["bands"].index(case["band"])


# ---------------------------------------------------------------- the real code


def datasets(case):
    def arr(bands):
        a = np.array(bands, dtype=np.float32)
        return a[0] if case["bands"] is None else a
    if case["grids"] is not None:
        left = pu.image_dataset(arr(case["left"]), disp=None, mask=case["mask_l"], bands=case["bands"],
                                grids=case["grids"])
    else:
        left = pu.image_dataset(arr(case["left"]), disp=tuple(case["disp"]), mask=case["mask_l"], bands=case["bands"])
    # the right dataset may use another mask convention than the left one (attrs valid_pixels / no_data_mask are per
    # dataset): the case keeps the canonical classes (0 valid, 1 no data, anything else invalid), the right dataset
    # is built with its own two codes
    conv = case.get("conv_r")
    mask_r = case["mask_r"]
    if conv and mask_r is not None:
        v, nd = conv
        mask_r = [[v if x == VALID else nd if x == NODATA else x for x in row] for row in mask_r]
    case = dict(case, mask_r=mask_r)
    perm = case.get("perm_r") if case["bands"] is not None else None
    if perm:
        right = pu.image_dataset(arr([case["right"][j] for j in perm]), disp=None, mask=case["mask_r"],
                                 bands=[case["bands"][j] for j in perm])
    else:
        right = pu.image_dataset(arr(case["right"]), disp=None, mask=case["mask_r"], bands=case["bands"])
    if conv:
        right.attrs["valid_pixels"], right.attrs["no_data_mask"] = conv
    return left, right


def mc_cfg(case):
    cfg = {"matching_cost_method": case["measure"], "window_size": case["window"], "subpix": case["subpix"]}
    if case["band"] is not None:
        cfg["band"] = case["band"]
    return cfg


def run_impl(case):
    """matching_cost_prepare + matching_cost_run of the state machine, left image only.
    Returns (cv dataset, None) or (None, exception)."""
    from pandora import matching_cost
    from pandora.criteria import validity_mask

    left, right = datasets(case)
    try:
        mc = matching_cost.AbstractMatchingCost(**mc_cfg(case))
        dmin = left["disparity"].sel(band_disp="min").data
        dmax = left["disparity"].sel(band_disp="max").data
        cv = mc.allocate_cost_volume(left, (dmin, dmax), {"pipeline": {"matching_cost": mc_cfg(case)}})
        cv = validity_mask(left, right, cv)
        cv = mc.compute_cost_volume(left, right, cv)
        mc.cv_masked(left, right, cv, dmin, dmax)
        return cv, None
    except Exception as exc:  # pylint: disable=broad-except
        return None, exc


# ---------------------------------------------------------------- independent oracle of the property


def interp(img, r, c, D, s):
    """right image at row r, column c + D/s (linear interpolation), exact"""
    x0, i = c + D // s, D % s
    if i == 0:
        return Fraction(img[r][x0])
    return Fraction((s - i) * img[r][x0] + i * img[r][x0 + 1], s)


def computable(case, r, c, D):
    s, w = case["subpix"], case["window"]
    off = (w - 1) // 2
    rows, cols = case["rows"], case["cols"]
    lo, hi = D // s, -((-D) // s)          # floor / ceil of the disparity
    if not (off <= r < rows - off and off <= c < cols - off):
        return False                        # left window leaves the image
    if not (off <= c + lo and c + hi < cols - off):
        return False                        # right window leaves the image
    ml, mr = case["mask_l"], case["mask_r"]
    if ml is not None:
        if ml[r][c] not in (VALID, NODATA):
            return False
        if any(ml[r + a][c + b] == NODATA for a in range(-off, off + 1) for b in range(-off, off + 1)):
            return False
    if mr is not None:
        if mr[r][c + lo] not in (VALID, NODATA) or mr[r][c + hi] not in (VALID, NODATA):
            return False
        if any(mr[r + a][x] == NODATA for a in range(-off, off + 1) for x in range(c + lo - off, c + hi + off + 1)):
            return False
    gmin, gmax = case_grids(case)
    return gmin[r][c] * s <= D <= gmax[r][c] * s


def cost_oracle(case, r, c, D):
    """textbook measure on the two windows; zncc returns (cov, varL, varR)"""
    s, w, m = case["subpix"], case["window"], case["measure"]
    off = (w - 1) // 2
    b = band_index(case)
    L, R = case["left"][b], case["right"][b]
    win = [(a, e) for a in range(-off, off + 1) for e in range(-off, off + 1)]
    lv = [Fraction(L[r + a][c + e]) for a, e in win]
    rv = [interp(R, r + a, c + e, D, s) for a, e in win]
    if m == "sad":
        return sum(abs(x - y) for x, y in zip(lv, rv))
    if m == "ssd":
        return sum((x - y) ** 2 for x, y in zip(lv, rv))
    if m == "census":
        cl, cr = Fraction(L[r][c]), interp(R, r, c, D, s)
        return Fraction(sum(1 for x, y in zip(lv, rv) if (x > cl) != (y > cr)))
    n = len(win)
    ml_, mr_ = sum(lv) / n, sum(rv) / n
    cov = sum(x * y for x, y in zip(lv, rv)) / n - ml_ * mr_
    vl = sum(x * x for x in lv) / n - ml_ ** 2
    vr = sum(y * y for y in rv) / n - mr_ ** 2
    return (cov, vl, vr)


def zncc_value(cov, vl, vr):
    """float value of cov / sqrt(vl * vr), 0 when a variance is 0"""
    if vl * vr <= 0:
        return Fraction(0)
    p = vl * vr
    return Fraction(float(cov) / math.sqrt(float(p)))


def disparities(case):
    """scaled disparities D = d * subpix of the disparity axis"""
    dmin, dmax = case_global_interval(case)
    s = case["subpix"]
    return list(range(dmin * s, dmax * s + 1))


def oracle_volume(case):
    """rows x cols x nd : None or Fraction (zncc: triple)"""
    out = []
    for r in range(case["rows"]):
        row = []
        for c in range(case["cols"]):
            row.append([cost_oracle(case, r, c, D) if computable(case, r, c, D) else None for D in disparities(case)])
        out.append(row)
    return out
