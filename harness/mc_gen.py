"""T-gen tie of the index arithmetic of the matching-cost step, harness side (shared by C02 and C09).

translator/gen_point_interval.py regenerates coq/Gen/PointInterval.v from the source; Proofs/PointIntervalGenP.v
proves generated = model.  What is checked HERE, against the real code, is the translator's reading itself
(Model/PyArith.v: the scaled-integer reading of ceil / floor / int / % / * on multiples of 1/subpix):

* function level: the real AbstractMatchingCost.point_interval and get_min_max_from_grid, called directly,
  against the EXTRACTED generated definitions (build/x02g), on every (subpix, widths, disparity) of a small
  exhaustive domain / on random integer grids;
* statement level: the very Python statements the translator turned into `let`s (their text is written next to
  the generated file, build/gen_point_interval.json) are executed by Python on the real objects -- a real
  matching-cost instance, the real shift_right_img / census_transform outputs, the real disparity axis of
  get_disparity_range -- and the values of i_right, point_p, point_q, i_mask_right, dsp, the written column
  range, p_std, q_std are compared with the extracted generated loop functions;
* the property at that level (the independent oracle of C02_point_interval_spec / C09 dsp-index consistency):
  left column c is in the left range iff floor(c + d) and ceil(c + d) are columns of the right image, the ranges
  have equal lengths and non-negative bounds, the shifted image is the fractional part of the disparity, dsp is
  the index of the sample on the axis.  A failure is a VIOLATION with the arguments as replay."""
import json
import math
import os
from fractions import Fraction

import numpy as np

from harness import core
from harness import pandora_util as pu

GEN = ["gen_point_interval"]
EXTRACT = ["X02G"]
DRIVER = ["x02g"]

OBLIGATIONS = [
    "C02_gen_point_interval_eq_model: Gen.PointInterval.point_interval (ast of AbstractMatchingCost.point_interval, "
    "regenerated) = Model.MatchingCost.point_interval for all subpix, widths, disparities",
    "C02_gen_loops_eq_model: the generated iteration of the loop over the disparities of SadSsd / Census / "
    "Zncc.compute_cost_volume (i_right = int((disp % 1) * subpix), the point_interval call, the written column range, "
    "p_std / q_std, on which images) = the values the model's pixel_wise_plane / census_plane / zncc_plane use",
    "C02_gen_cv_masked_eq_model: the generated iteration of cv_masked (i_right, ranges, i_mask_right, dsp = "
    "int((disp - dmin) * subpix) with dmin from get_min_max_from_grid) = the values of the model's mask_step; the "
    "generated test `disp < disp_min or disp > disp_max` = the one of mask_interval; generated "
    "get_min_max_from_grid = (grid_min, grid_max)",
    "C02_gen_point_interval_spec / C02_gen_zncc_loop_spec / C02_gen_cv_masked_loop_spec: the C02 headline facts on "
    "the generated definitions (re-checked against the regenerated text)",
    "C02_gen_pyarith_sound: the scaled-integer operations used by the translation are the Q / Qround operations",
]
OBLIGATIONS_C09 = [
    "C09_gen_dsp_index_consistent: on the GENERATED cv_masked iteration (ast of cv_masked, regenerated), the plane "
    "that receives the masks for sample k of the axis starting at get_min_max_from_grid(...)[0] is k",
    "C09_gen_interval_test: the GENERATED out-of-interval test of cv_masked is the negation of the specification's "
    "in_interval and the test of the model's mask_interval",
    "C09_gen_axis_origin: the GENERATED get_min_max_from_grid returns the attained extrema of the grids",
]
ASSUMES = [
    "T-gen reading of the numbers: disparities are multiples of 1/subpix of small magnitude, so that every float64 "
    "operation of the translated expressions is exact (checked on the real axis of get_disparity_range by the "
    "statement-level correspondence); integer disparity grids of the shape of the image (the crop of the grids in "
    "cv_masked is then the identity)",
]
TRUSTED = ["translator/gen_point_interval.py (ast -> Gallina, types integer / real-times-subpix inferred) and "
           "Model/PyArith.v as the reading of Python's ceil / floor / int / % / * -- proved equal to the Q / Qround "
           "operations (C02_gen_pyarith_sound) and validated against the real code at function and statement level "
           "on every run"]


def _fl(D, s):
    return D // s


def _ce(D, s):
    return -((-D) // s)


def pi_oracle(s, nxl, widths, D, i, pq):
    """the property at the level of one iteration; returns None or a description of what fails"""
    (p0, p1), (q0, q1) = pq
    if i != D % s:
        return f"shifted image {i}, the fractional part of the disparity is {D % s}/{s}"
    nxr = widths[i]
    if p1 - p0 != q1 - q0:
        return f"ranges of different lengths: [{p0},{p1}) and [{q0},{q1})"
    if min(p0, p1, q0, q1) < 0:
        return f"negative bound (would be counted from the end): [{p0},{p1}) [{q0},{q1})"
    if p1 > max(p0, nxl) or q1 > max(q0, nxr):
        return f"range beyond the image: [{p0},{p1}) of {nxl}, [{q0},{q1}) of {nxr}"
    for c in range(nxl):
        want = 0 <= c + _fl(D, s) and c + _ce(D, s) <= widths[0] - 1
        if (p0 <= c < p1) != want:
            return (f"left column {c} {'is' if p0 <= c < p1 else 'is not'} in the left range [{p0},{p1}) but columns "
                    f"floor/ceil(c + d) = {c + _fl(D, s)}, {c + _ce(D, s)} {'are' if want else 'are not'} both inside "
                    f"the right image of {widths[0]} columns")
    if p1 > p0 and q0 - p0 != _fl(D, s):
        return f"matched column offset {q0 - p0}, floor of the disparity is {_fl(D, s)}"
    return None


def _pairs(x):
    return [[int(x[0][0]), int(x[0][1])], [int(x[1][0]), int(x[1][1])]]


def _flat(pq):
    return [pq[0][0], pq[0][1], pq[1][0], pq[1][1]]


def _disp(D, s):
    """the disparity as the real axis holds it: integer for subpix 1, float64 otherwise"""
    return np.int64(D) if s == 1 else np.float64(D / s)


_DS = {}


def _ds(nx, rows=1):
    key = (nx, rows)
    if key not in _DS:
        _DS[key] = pu.image_dataset(np.zeros((rows, nx), dtype=np.float32), disp=None)
    return _DS[key]


def replay_one(ctx, rc):
    """re-run one function-level case of a replay file"""
    from pandora import matching_cost as mcpkg

    s, nxl, nxr, D = rc["subpix"], rc["nx_left"], rc["nx_right"], rc["D"]
    mc = mcpkg.AbstractMatchingCost(matching_cost_method="sad", window_size=1, subpix=s)
    pq = _pairs(mc.point_interval(_ds(nxl), _ds(nxr), _disp(D, s)))
    widths = [nxl] + [nxl - 1] * (s - 1)
    if nxr == widths[D % s]:
        bad = pi_oracle(s, nxl, widths, D, D % s, pq)
        if bad:
            ctx.violation("point_interval_range", f"point_interval(nx_left={nxl}, nx_right={nxr}, disp={D}/{s}) = {pq}: {bad}", rc)
    ctx.case(None)


def run(ctx, which="C02"):
    """function-level and statement-level correspondence of the generated index arithmetic"""
    from pandora import matching_cost as mcpkg
    from pandora.img_tools import shift_right_img, census_transform

    quick = ctx.tier == "quick"
    side = os.path.join(core.BUILD, "gen_point_interval.json")
    if not os.path.exists(os.path.join(core.BUILD, "x02g", "driver")):
        ctx.notes.append("mc_gen: no driver of the generated definitions (extraction failed): generated-code "
                         "correspondence skipped")
        return
    model = core.Model("x02g")
    roles = {}
    if os.path.exists(side):
        roles = json.load(open(side))
    else:
        ctx.notes.append("mc_gen: the translation failed: function-level comparison against the LAST generated "
                         "definitions only, statement-level correspondence skipped")
    rng = ctx.rng

    # ---------------- function level: point_interval on an exhaustive small domain
    jobs, impl = [], []
    for s in (1, 2, 4):
        mc = mcpkg.AbstractMatchingCost(matching_cost_method="sad", window_size=1, subpix=s)
        for nxl in range(1, 8 if quick else 13):
            for nxr in sorted({nxl, nxl - 1, nxl + 2} - {0}):
                for D in range(-(nxl + 3) * s, (nxl + 3) * s + 1):
                    pq = _pairs(mc.point_interval(_ds(nxl), _ds(nxr), _disp(D, s)))
                    jobs.append((1, [s, nxl, nxr, D]))
                    impl.append((s, nxl, nxr, D, pq))
    res = model.batch(jobs)
    for (s, nxl, nxr, D, pq), m in zip(impl, res):
        ctx.count("gen_point_interval_calls")
        ctx.traces += 1
        case = {"kind": "point_interval", "subpix": s, "nx_left": nxl, "nx_right": nxr, "D": D}
        empty = pq[0][0] == pq[0][1]
        ctx.case(("gen_pi", s, nxl, nxr, D) if not empty else None)
        if _flat(pq) != m:
            ctx.mismatch("gen_point_interval", case, pq, m)
        if (s, nxl, nxr, D) == (4, 5, 4, -9):
            ctx.sample({"generated_code_case": case, "real_point_interval": pq, "extracted_generated": m})
        widths = [nxl] + [nxl - 1] * (s - 1)
        if nxr == widths[D % s]:
            bad = pi_oracle(s, nxl, widths, D, D % s, pq)
            if bad:
                ctx.violation("point_interval_range",
                              f"point_interval(nx_left={nxl}, nx_right={nxr}, disp={D}/{s}) = {pq}: {bad}", case)

    # ---------------- the reported maximal cost: the real SadSsd.compute_cost_volume on image pairs whose values are
    # multiples of 1/u (u = 1, 2, 4; exact in float32) against the generated sad_cmax / ssd_cmax at the unit 1/u
    jobs, impl = [], []
    for k in range(18 if quick else 180):
        meth, u, w = ("sad", "ssd")[k % 2], (1, 2, 4)[(k // 2) % 3], (1, 3, 5)[(k // 6) % 3]
        rows, cols = rng.randint(w, w + 3), rng.randint(w + 1, w + 5)
        amp = 60 if meth == "ssd" else 1000
        li = np.array([[rng.randint(0, amp * u) for _ in range(cols)] for _ in range(rows)])
        ri = np.array([[rng.randint(0, amp * u) for _ in range(cols)] for _ in range(rows)])
        lds = pu.image_dataset((li / float(u)).astype(np.float32), disp=(-1, 1))
        rds = pu.image_dataset((ri / float(u)).astype(np.float32), disp=None)
        mcq = mcpkg.AbstractMatchingCost(matching_cost_method=meth, window_size=w, subpix=1)
        cvq = mcq.allocate_cost_volume(lds, (lds["disparity"].sel(band_disp="min").data, lds["disparity"].sel(band_disp="max").data),
                                       {"pipeline": {"matching_cost": {"matching_cost_method": meth, "window_size": w, "subpix": 1}}})
        cvq = mcq.compute_cost_volume(lds, rds, cvq)
        jobs.append((8, [0 if meth == "sad" else 1, u, int(li.max()), int(li.min()), int(ri.max()), int(ri.min()), w]))
        impl.append(({"kind": "statements", "function": "cmax", "method": meth, "unit": f"1/{u}", "window": w,
                      "left": (li / float(u)).tolist(), "right": (ri / float(u)).tolist()}, int(cvq.attrs["cmax"]),
                     float(np.nanmax(cvq["cost_volume"].data)) if np.isfinite(cvq["cost_volume"].data).any() else None))
    for (case, got, largest), m in zip(impl, model.batch(jobs)):
        ctx.count("gen_cmax_calls")
        ctx.traces += 1
        ctx.case(("gen_cmax", case["method"], case["unit"], case["window"], str(case["left"])))
        if got != m:
            ctx.mismatch("gen_cmax", case, got, m)
        if largest is not None and largest >= got + 1:
            ctx.violation("cmax_below_a_cost", f"{case['method']} window {case['window']} on images in multiples of "
                          f"{case['unit']}: reported cmax {got}, a cost of the volume is {largest}", case)

    # ---------------- function level: get_min_max_from_grid on random integer grids
    jobs, impl = [], []
    for _ in range(40 if quick else 400):
        ny, nx = rng.randint(1, 5), rng.randint(1, 6)
        lo = [[rng.randint(-9, 6) for _ in range(nx)] for _ in range(ny)]
        hi = [[lo[r][c] + rng.randint(0, 5) for c in range(nx)] for r in range(ny)]
        got = mcpkg.AbstractMatchingCost.get_min_max_from_grid(np.array(lo, dtype=np.float32), np.array(hi, dtype=np.float32))
        jobs.append((2, [lo, hi]))
        impl.append((lo, hi, [int(got[0]), int(got[1])]))
    for (lo, hi, got), m in zip(impl, model.batch(jobs)):
        ctx.count("gen_min_max_calls")
        ctx.traces += 1
        ctx.case(("gen_mm", str(lo), str(hi)))
        if got != m:
            ctx.mismatch("gen_get_min_max_from_grid", {"gmin": lo, "gmax": hi}, got, m)
        if got != [min(min(r) for r in lo), max(max(r) for r in hi)]:
            ctx.violation("axis_origin", f"get_min_max_from_grid({lo}, {hi}) = {got}", {"kind": "min_max", "gmin": lo, "gmax": hi})

    # ---------------- statement level: the translated statements, executed by Python on the real objects
    jobs, impl = [], []
    nstat = 0
    for s in (1, 2, 4):
        for nx in ((3, 6) if quick else (1, 2, 3, 5, 6, 9)):
            w = 3 if nx >= 3 else 1
            rows = 5
            left = pu.image_dataset(np.array([[rng.randint(0, 9) for _ in range(nx)] for _ in range(rows)], dtype=np.float32), disp=None)
            right = pu.image_dataset(np.array([[rng.randint(0, 9) for _ in range(nx)] for _ in range(rows)], dtype=np.float32), disp=None)
            gmin = np.array([[rng.randint(-nx - 2, 0) for _ in range(nx)] for _ in range(rows)], dtype=np.float32)
            gmax = gmin + np.array([[rng.randint(0, nx + 3) for _ in range(nx)] for _ in range(rows)], dtype=np.float32)
            dmin, dmax = mcpkg.AbstractMatchingCost.get_min_max_from_grid(gmin, gmax)
            axis = mcpkg.AbstractMatchingCost.get_disparity_range(dmin, dmax, s)
            for gname, fid, method in (("cv_masked_loop", 3, "sad"), ("sad_ssd_loop", 5, "ssd"), ("census_loop", 6, "census"),
                                       ("zncc_loop", 7, "zncc")):
                ro = roles.get(gname)
                if ro is None or (method == "census" and w < 3):      # census accepts windows 3 and 5 only
                    continue
                mc = mcpkg.AbstractMatchingCost(matching_cost_method=method, window_size=w, subpix=s)
                rs = shift_right_img(right, s, None)
                lft = left
                tl, tr = ro.get("on_transformed", [False, False])
                if (tl or tr) and min(rows, nx - (1 if s > 1 else 0)) < w:
                    continue
                if tl:
                    lft = census_transform(left, w, None)
                if tr:
                    rs = [census_transform(x, w, None) for x in rs]
                widths = [int(x.sizes["col"]) for x in rs]
                nxl = int(lft.sizes["col"])
                for k, d in enumerate(axis):
                    D = int(round(float(d) * s))
                    env = {"self": mc, "np": np, ro["disp"]: d, ro["left"]: lft, ro["rs"]: rs,
                           "disp_min": gmin, "disp_max": gmax, "math": math}
                    env.update({"ceil": math.ceil, "floor": math.floor})
                    for st in ro["statements"]:
                        exec(st, env)  # pylint: disable=exec-used  (statements of the real source, on real objects)
                    nstat += len(ro["statements"])
                    i = int(env[ro["i_right"]])
                    pq = _pairs((env[ro["points"][0]], env[ro["points"][1]]))
                    case = {"kind": "statements", "function": gname, "subpix": s, "window": w, "nx_left": nxl,
                            "widths": widths, "D": D, "sample": k}
                    if gname == "cv_masked_loop":
                        got = [i, _flat(pq), int(env[ro["i_mask_right"]]), int(env[ro["dsp"]])]
                        jobs.append((fid, [gmin.astype(int).tolist(), gmax.astype(int).tolist(), s, nxl, widths, D]))
                        if got[3] != k:
                            ctx.violation("dsp_is_not_the_sample_index",
                                          f"cv_masked, subpix {s}, axis from {dmin}: sample {k} (disparity {float(d)}) is masked in "
                                          f"plane dsp = {got[3]}", case)
                    else:
                        wr = [int(eval(ro["write"][0], env)), int(eval(ro["write"][1], env))]  # pylint: disable=eval-used
                        got = [i, _flat(pq), wr]
                        arg = [s, nxl, widths, D]
                        if ro.get("std"):
                            got.append(_flat(_pairs((env[ro["std"][0]], env[ro["std"][1]]))))
                            arg.append(w)
                            off = (w - 1) // 2
                            want = [pq[0][0], max(pq[0][0], pq[0][1] - 2 * off)]
                        else:
                            want = pq[0]
                        if wr != want:
                            ctx.violation("written_columns", f"{gname}, subpix {s}, disparity {D}/{s}: columns {wr} are written, "
                                          f"the left range is {pq[0]}", case)
                        jobs.append((fid, arg))
                    if widths == [nxl] + [nxl - 1] * (s - 1):
                        bad = pi_oracle(s, nxl, widths, D, i, pq)
                        if bad:
                            ctx.violation("point_interval_range", f"{gname}, subpix {s}, {nxl} columns, disparity {D}/{s}: {bad}", case)
                    impl.append((case, got))
            # the out-of-interval test of the second loop of cv_masked, evaluated by numpy on a real cost volume
            ro = roles.get("cv_masked_out_of_range")
            if ro is not None:
                mc = mcpkg.AbstractMatchingCost(matching_cost_method="sad", window_size=1, subpix=s)
                lg = pu.image_dataset(left["im"].data, disp=None, grids=(gmin, gmax))
                cv = mc.allocate_cost_volume(lg, (gmin, gmax), {"pipeline": {"matching_cost": {
                    "matching_cost_method": "sad", "window_size": 1, "subpix": s}}})
                for k, d in enumerate(cv.coords["disp"].data):
                    D = int(round(float(d) * s))
                    tst = np.asarray(eval(ro["test"], {"np": np, "cost_volume": cv, "disp_min": gmin, "disp_max": gmax,  # pylint: disable=eval-used
                                                       ro["k"]: k}))
                    nstat += 1
                    for r in range(rows):
                        for c in range(nx):
                            case = {"kind": "statements", "function": "cv_masked_out_of_range", "subpix": s, "nx_left": nx,
                                    "gmin": int(gmin[r, c]), "gmax": int(gmax[r, c]), "D": D, "sample": k, "pixel": [r, c]}
                            jobs.append((4, [gmin.astype(int).tolist(), gmax.astype(int).tolist(), s, r, c, D]))
                            impl.append((case, 1 if bool(tst[r, c]) else 0))
                            if bool(tst[r, c]) != (not gmin[r, c] * s <= D <= gmax[r, c] * s):
                                ctx.violation("interval_test", f"cv_masked: sample {D}/{s} is {'masked' if tst[r, c] else 'kept'} "
                                              f"at a pixel whose interval is [{int(gmin[r, c])}, {int(gmax[r, c])}]", case)
                # the same statement on per-pixel bounds that are multiples of 1/4 pixel (float grids), against the
                # generated test read in the unit 1/(4 s) pixel (C02_gen_interval_test_quarter_pixel)
                rr, cc = np.indices(gmin.shape)
                gq = (4 * gmin.astype(int) + (3 * rr + cc) % 4).astype(int)
                hq = np.maximum(4 * gmax.astype(int) - (rr + 2 * cc) % 4, gq).astype(int)
                gminq, gmaxq = (gq / 4.0).astype(np.float32), (hq / 4.0).astype(np.float32)
                lgq = pu.image_dataset(left["im"].data, disp=None, grids=(gminq, gmaxq))
                cvq = mc.allocate_cost_volume(lgq, (gminq, gmaxq), {"pipeline": {"matching_cost": {
                    "matching_cost_method": "sad", "window_size": 1, "subpix": s}}})
                for k, d in enumerate(cvq.coords["disp"].data):
                    D = int(round(float(d) * s))
                    tst = np.asarray(eval(ro["test"], {"np": np, "cost_volume": cvq, "disp_min": gminq, "disp_max": gmaxq,  # pylint: disable=eval-used
                                                       ro["k"]: k}))
                    nstat += 1
                    for r in range(rows):
                        for c in range(nx):
                            case = {"kind": "statements", "function": "cv_masked_out_of_range", "subpix": s, "nx_left": nx,
                                    "gmin_quarters": int(gq[r, c]), "gmax_quarters": int(hq[r, c]), "D": D, "sample": k,
                                    "pixel": [r, c]}
                            jobs.append((4, [(gq * s).tolist(), (hq * s).tolist(), 1, r, c, 4 * D]))
                            impl.append((case, 1 if bool(tst[r, c]) else 0))
                            if bool(tst[r, c]) != (not gq[r, c] * s <= 4 * D <= hq[r, c] * s):
                                ctx.violation("interval_test_quarter_pixel_bounds",
                                              f"cv_masked: sample {D}/{s} is {'masked' if tst[r, c] else 'kept'} at a pixel "
                                              f"whose interval is [{gq[r, c] / 4}, {hq[r, c] / 4}]", case)
    sampled = False
    for (case, got), m in zip(impl, model.batch(jobs)):
        ctx.count("gen_statement_iterations")
        ctx.traces += 1
        ctx.case(("gen_st", case["function"], case["subpix"], case["nx_left"], case["D"]))
        if got != m:
            ctx.mismatch("gen_" + case["function"], case, got, m)
        if (case["function"], case["subpix"], case["D"]) == ("zncc_loop", 2, -3) and not sampled:
            sampled = True
            ctx.sample({"generated_code_case": case, "translated_statements_on_real_objects": got, "extracted_generated": m})
    ctx.stats["gen_translated_statements_executed"] = nstat
    ctx.stats["gen_model_calls"] = model.calls
