(* C07 -- cross-checking flags exactly the left-right inconsistent pixels, nothing else.
   Statements only; proofs are `exact <lemma>` from Proofs/CrossCheckP.v.
   [xcheck] is the model of CrossCheckingAccurate.disparity_checking of the tree under test
   (with the two `fix:` commits in); [xcheck_before] the model of the code as found. *)
From Coq Require Import List Bool ZArith QArith Qabs Lia.
From Pandora Require Import Model.CrossCheck Spec.CrossCheck Proofs.CrossCheckP Gen.ValConst.
From Pandora Require Import Lib.NpVec Lib.NpRow Model.XCheckGen Proofs.XCheckGenP.
From Pandora Require Gen.XCheckKernel.
Import ListNotations.
Open Scope Z_scope.

(* Per-run obligation: the constants of the regenerated Gen/ValConst.v (pandora/constants.py)
   are the ones the model and the proofs use. *)
Theorem C07_constants_match :
  [PANDORA_MSK_PIXEL_INVALID; PANDORA_MSK_PIXEL_LEFT_NODATA_OR_BORDER; PANDORA_MSK_PIXEL_OCCLUSION;
   PANDORA_MSK_PIXEL_MISMATCH]
  = [MSK_INVALID; MSK_BORDER; MSK_OCCLUSION; MSK_MISMATCH].
Proof. reflexivity. Qed.

(* the model's rint is round-half-to-even: it is a nearest integer, even on ties, and such
   an integer is unique (so it is also the Spec's round_he) *)
Theorem C07_rint_round_half_even : forall q,
  is_nearest_even q (rint q) /\ (forall z, is_nearest_even q z -> z = rint q) /\ rint q = round_he q.
Proof.
  intro q. split. apply rint_nearest. split.
  intros z H. apply (nearest_even_unique q); [exact H | apply rint_nearest].
  apply rint_round_he.
Qed.

(* the "invalid" test of the code (mask & 0b01111000011 == 0) is "none of bits 0,1,6,7,8,9" *)
Theorem C07_valid_test : forall m, is_valid m = spec_valid m.
Proof. exact is_valid_spec. Qed.

Section C07.
  Variable thr : Q.
  Variables me other : dataset.   (* the checked dataset and the reference one *)

  (* every previously valid, non-border pixel ends with exactly the bit xspec prescribes
     (and every other bit as before), outside the recorded finding's class *)
  Theorem C07_xcheck_eq_spec : forall r c,
    in_ds me r c -> ds_nc me <= 2 ^ 63 -> border_at me r c = false ->
    spec_valid (ds_mask me r c) = true ->
    finding_at me other r c = false ->
    ds_mask (xcheck thr me other) r c
    = Z.lor (ds_mask me r c) (verdict_bit (verdict_at thr me other r c)).
  Proof. exact (xcheck_eq_spec thr me other). Qed.

  (* without any guard: a valid pixel stays unflagged iff its correspondent is in the image
     and |dL(p)+dR(q)| <= threshold *)
  Theorem C07_xcheck_keep_iff : forall r c,
    in_ds me r c -> ds_nc me <= 2 ^ 63 -> border_at me r c = false ->
    spec_valid (ds_mask me r c) = true ->
    (ds_mask (xcheck thr me other) r c = ds_mask me r c <-> verdict_at thr me other r c = Keep).
  Proof. exact (xcheck_keep_iff thr me other). Qed.

  (* inside the finding's class the property says mismatch and the code flags occlusion *)
  Theorem C07_xcheck_finding_class : forall r c,
    in_ds me r c -> ds_nc me <= 2 ^ 63 -> border_at me r c = false ->
    spec_valid (ds_mask me r c) = true -> finding_at me other r c = true ->
    verdict_at thr me other r c = Mismatch /\
    ds_mask (xcheck thr me other) r c = Z.lor (ds_mask me r c) (verdict_bit Occlusion).
  Proof. exact (xcheck_finding_class thr me other). Qed.

  Theorem C07_xcheck_never_both : forall r c,
    in_ds me r c -> ds_nc me <= 2 ^ 63 -> border_at me r c = false ->
    spec_valid (ds_mask me r c) = true ->
    Z.testbit (ds_mask (xcheck thr me other) r c) 8 && Z.testbit (ds_mask (xcheck thr me other) r c) 9 = false.
  Proof. exact (xcheck_never_both thr me other). Qed.

  Theorem C07_xcheck_invalid_untouched : forall r c,
    in_ds me r c -> border_at me r c = false -> spec_valid (ds_mask me r c) = false ->
    ds_mask (xcheck thr me other) r c = ds_mask me r c.
  Proof. exact (xcheck_invalid_untouched thr me other). Qed.

  (* the step returns the same disparity map, shape, interval, offset; appends one band;
     the reference dataset is an argument that is only read (see C07_validation_run) *)
  Theorem C07_xcheck_disp_unchanged :
    ds_disp (xcheck thr me other) = ds_disp me /\ ds_nr (xcheck thr me other) = ds_nr me /\
    ds_nc (xcheck thr me other) = ds_nc me /\ ds_dmin (xcheck thr me other) = ds_dmin me /\
    ds_dmax (xcheck thr me other) = ds_dmax me /\ ds_offset (xcheck thr me other) = ds_offset me /\
    exists band, ds_bands (xcheck thr me other) = ds_bands me ++ [band].
  Proof. exact (xcheck_disp_unchanged thr me other). Qed.

  (* the appended band holds |dL(p)+dR(q)| for a valid pixel whose correspondent is inside,
     NaN for invalid pixels and correspondents outside; +inf when dR(q) is NaN (not
     prescribed by the property: the temporary NaN -> inf substitution is visible there) *)
  Theorem C07_xcheck_confidence : forall r c d, in_ds me r c -> ds_nc me <= 2 ^ 63 ->
    let cell := last (ds_bands (xcheck thr me other)) d r c in
    match spec_conf (ds_nc me) (ds_disp me r) (ds_disp other r) (spec_valid (ds_mask me r c)) c with
    | Some (Some x) => exists y, cell = CFin y /\ (y == x)%Q
    | Some None => cell = CNan
    | None => cell = CInf
    end.
  Proof. exact (xcheck_confidence thr me other). Qed.

  Theorem C07_xcheck_border_bit0 : forall r c,
    in_ds me r c -> 0 < ds_offset me -> border_at me r c = true ->
    ds_mask (xcheck thr me other) r c = 1.
  Proof. exact (xcheck_border_bit0 thr me other). Qed.

  (* the += / -= on uint16 never wrap *)
  Theorem C07_no_wrap : forall r c, in_ds me r c -> ds_nc me <= 2 ^ 63 ->
    0 <= ds_mask me r c < 65536 -> 0 <= ds_mask (xcheck thr me other) r c < 65536.
  Proof. exact (xcheck_no_wrap thr me other). Qed.

  (* the call depends on the reference dataset only through the in-range part of its
     disparity map (what C08 needs for the second call of validation_run) *)
  Theorem C07_xcheck_right_uses_only_left_disp : forall other',
    (forall r c, 0 <= r < ds_nr me -> 0 <= c < ds_nc me -> ds_disp other r c = ds_disp other' r c) ->
    forall r c d, 0 <= r < ds_nr me -> 0 <= c < ds_nc me ->
      ds_mask (xcheck thr me other) r c = ds_mask (xcheck thr me other') r c /\
      last (ds_bands (xcheck thr me other)) d r c = last (ds_bands (xcheck thr me other')) d r c.
  Proof. exact (xcheck_uses_only_disp thr me other). Qed.
End C07.

(* validation_run: the right map is checked against the (already checked) left one by the
   same function; both disparity maps come out as they went in *)
Theorem C07_validation_run : forall thr L R,
  snd (validation_run thr L R) = xcheck thr R L /\
  ds_disp (fst (validation_run thr L R)) = ds_disp L /\
  ds_disp (snd (validation_run thr L R)) = ds_disp R.
Proof. exact validation_run_right. Qed.

(* ---------------------------------------------------------------- T-gen: the method regenerated from the source
   Gen/XCheckKernel.v is written at every run by translator/gen_xcheck_kernel.py from the text of
   CrossCheckingAccurate.disparity_checking (pandora/validation/validation.py) and of the two disparity-range helpers
   of pandora/disparity/disparity.py, statement by statement, over the numpy semantics of Lib/NpVec.v + Lib/NpRow.v
   (floats with NaN / inf, uint16 stores reduced modulo 65536, fancy indexing, np.where, np.tile, 2-D gather /
   scatter; every operation numpy can refuse is partial).  XCheckKernel.g_row is the body of the row loop,
   XCheckKernel.g_disparity_checking the whole method (prelude, loop, epilogue) over the list-based dataset of
   Model/XCheckGen.v.  The obligations below are re-proved against the regenerated text at every run. *)

(* the generated row body = the model's row functions, for EVERY row: any width, disparities / NaN, uint16 masks,
   threshold, interval; in particular no partial operation fails (Some) and no uint16 store wraps (the model
   computes in Z) *)
Theorem C07_gen_row_eq_model : forall thr dmin dmax (mk : list Z) (dL dR : list (option Q)),
  length dL = length mk -> length dR = length mk -> Forall (fun m => 0 <= m < 65536) mk ->
  XCheckKernel.g_row (XFin thr) (vlen mk) (np_arange2 dmin (dmax + 1)) mk (map x_of_oq dL) (map x_of_oq dR)
                     (repeat XNaN (length mk))
  = Some (tab (vlen mk) (mask_row true true (vlen mk) (fn_of None dL) (fn_of None dR) (fn_of 0 mk) thr dmin dmax),
          tab (vlen mk) (fun c => x_of_conf (conf_row true (vlen mk) (fn_of None dL) (fn_of None dR) (fn_of 0 mk) c))).
Proof. exact gen_row_eq_model. Qed.

(* the whole generated method (shape, disparity range, band allocation, row loop, attrs, band append, mask_border)
   = the model's xcheck, on every well-shaped call ([gen_pre]: non-empty checked dataset, reference dataset of the
   same shape, uint16 masks); the two callees of the epilogue are the hand-written band append / mask_border *)
Theorem C07_gen_xcheck_eq_model : forall thr me other, gen_pre me other ->
  XCheckKernel.g_disparity_checking x_append_band (x_mask_border (ds_nr me) (ds_nc me)) (XFin thr) (to_x me) (to_x other)
  = Some (to_x (xcheck thr me other)).
Proof. exact gen_call_eq. Qed.

(* C07_xcheck_eq_spec on the generated method, with the guard of the recorded finding *)
Theorem C07_gen_xcheck_eq_spec : forall thr me other, gen_pre me other -> forall r c,
  in_ds me r c -> ds_nc me <= 2 ^ 63 -> border_at me r c = false ->
  spec_valid (ds_mask me r c) = true -> finding_at me other r c = false ->
  exists out,
    XCheckKernel.g_disparity_checking x_append_band (x_mask_border (ds_nr me) (ds_nc me)) (XFin thr) (to_x me) (to_x other)
    = Some out /\
    cell2 (x_mask out) r c = Z.lor (ds_mask me r c) (verdict_bit (verdict_at thr me other r c)).
Proof. exact gen_xcheck_eq_spec. Qed.

(* C07_xcheck_keep_iff on the generated method (no guard) *)
Theorem C07_gen_xcheck_keep_iff : forall thr me other, gen_pre me other -> forall r c,
  in_ds me r c -> ds_nc me <= 2 ^ 63 -> border_at me r c = false -> spec_valid (ds_mask me r c) = true ->
  exists out,
    XCheckKernel.g_disparity_checking x_append_band (x_mask_border (ds_nr me) (ds_nc me)) (XFin thr) (to_x me) (to_x other)
    = Some out /\
    (cell2 (x_mask out) r c = ds_mask me r c <-> verdict_at thr me other r c = Keep).
Proof. exact gen_xcheck_keep_iff. Qed.

(* C07_xcheck_invalid_untouched on the generated method *)
Theorem C07_gen_invalid_untouched : forall thr me other, gen_pre me other -> forall r c,
  in_ds me r c -> border_at me r c = false -> spec_valid (ds_mask me r c) = false ->
  exists out,
    XCheckKernel.g_disparity_checking x_append_band (x_mask_border (ds_nr me) (ds_nc me)) (XFin thr) (to_x me) (to_x other)
    = Some out /\ cell2 (x_mask out) r c = ds_mask me r c.
Proof. exact gen_invalid_untouched. Qed.

(* C07_no_wrap on the generated method: its uint16 arithmetic (every += / -= / astype(np.uint16) reduces modulo
   65536 in the semantics) returns, cell by cell, the number the model computes in Z, and that number is a uint16 *)
Theorem C07_gen_no_wrap : forall thr me other, gen_pre me other -> ds_nc me <= 2 ^ 63 ->
  exists out,
    XCheckKernel.g_disparity_checking x_append_band (x_mask_border (ds_nr me) (ds_nc me)) (XFin thr) (to_x me) (to_x other)
    = Some out /\
    forall r c, in_ds me r c ->
      cell2 (x_mask out) r c = ds_mask (xcheck thr me other) r c /\ 0 <= cell2 (x_mask out) r c < 65536.
Proof. exact gen_no_wrap. Qed.

(* C07_xcheck_disp_unchanged on the generated method, for ANY two datasets (well-shaped or not) and any mask_border
   callee: what is returned has the disparity map, interval and offset of dataset_left and one more band;
   dataset_right is only an argument (the translator refuses every store into it) *)
Theorem C07_gen_disparity_unchanged : forall h_mask_border thr dl dr out,
  XCheckKernel.g_disparity_checking x_append_band h_mask_border thr dl dr = Some out ->
  x_disp out = x_disp dl /\ x_interval out = x_interval dl /\ x_offset out = x_offset dl /\
  exists band, x_bands out = x_bands dl ++ [band].
Proof. exact gen_disparity_unchanged. Qed.

(* ---------------------------------------------------------------- witnesses *)

Definition row_fn {A} (d : A) (l : list A) : Z -> Z -> A :=
  fun r c => if (r =? 0) && (0 <=? c) then nth (Z.to_nat c) l d else d.
Definition ds_of (disp : list (option Q)) (mask : list Z) (dmin dmax : Z) : dataset :=
  mkDS 1 (Z.of_nat (length disp)) (row_fn None disp) (row_fn 0 mask) [] dmin dmax 0.
Definition q (z : Z) : option Q := Some (inject_Z z).

(* D2 (DESIGN.md section 4), the corpus case of the check: dL = [-3,0,0,0,0,3], dR = 0.
   The code as found left pixels 0 and 5 unflagged; the repaired code flags them. *)
Definition d2_L := ds_of [q (-3); q 0; q 0; q 0; q 0; q 3] [0; 0; 0; 0; 0; 0] (-3) 3.
Definition d2_R := ds_of [q 0; q 0; q 0; q 0; q 0; q 0] [0; 0; 0; 0; 0; 0] (-3) 3.
Example C07_D2_regression :
  map (ds_mask (xcheck_before 1 d2_L d2_R) 0) [0; 1; 2; 3; 4; 5] = [0; 0; 0; 0; 0; 0] /\
  map (ds_mask (xcheck 1 d2_L d2_R) 0) [0; 1; 2; 3; 4; 5] = [256; 0; 0; 0; 0; 256] /\
  verdict_at 1 d2_L d2_R 0 0 <> Keep /\ verdict_at 1 d2_L d2_R 0 5 <> Keep.
Proof. vm_compute. repeat split; discriminate. Qed.

(* rounding as found: rint(col + d); column 1 with disparity 1/2 went to column 2 although
   round(1/2) = 0; the repaired code uses col + rint(d) *)
Definition h_L := ds_of [Some (1 # 2); Some (1 # 2); q 0; q 0]%Q [0; 0; 0; 0] (-1) 1.
Definition h_R := ds_of [q 0; q (-1); q 5; q 0] [0; 0; 0; 0] (-1) 1.
Example C07_rounding_regression :
  ds_mask (xcheck_before (1 # 2)%Q h_L h_R) 0 1 = 256 /\
  verdict_at (1 # 2)%Q h_L h_R 0 1 = Keep /\ ds_mask (xcheck (1 # 2)%Q h_L h_R) 0 1 = 0.
Proof. vm_compute. repeat split. Qed.

(* the recorded finding: without the guard [finding_at = false] the statement of
   C07_xcheck_eq_spec is false of the (repaired) code: pixel 0 has its correspondent outside
   and d = 2 satisfies round(dR(0+2)) = -2 *)
Definition f_L := ds_of [q (-3); q 0; q 0; q 0] [0; 0; 0; 0] (-3) 3.
Definition f_R := ds_of [q 1; q 1; q (-2); q 1] [0; 0; 0; 0] (-3) 3.
Definition C07_xcheck_eq_spec_unguarded : Prop :=
  forall thr me other r c,
    in_ds me r c -> ds_nc me <= 2 ^ 63 -> border_at me r c = false ->
    spec_valid (ds_mask me r c) = true ->
    ds_mask (xcheck thr me other) r c
    = Z.lor (ds_mask me r c) (verdict_bit (verdict_at thr me other r c)).
Theorem C07_xcheck_eq_spec_unguarded_refuted : ~ C07_xcheck_eq_spec_unguarded.
Proof.
  intro H.
  assert (E : ds_mask (xcheck 0 f_L f_R) 0 0 = 256) by (vm_compute; reflexivity).
  assert (V : verdict_at 0 f_L f_R 0 0 = Mismatch) by (vm_compute; reflexivity).
  assert (X : ds_mask (xcheck 0 f_L f_R) 0 0
              = Z.lor (ds_mask f_L 0 0) (verdict_bit (verdict_at 0 f_L f_R 0 0))).
  { apply H.
    - unfold in_ds. vm_compute. repeat split; discriminate.
    - vm_compute. discriminate.
    - vm_compute. reflexivity.
    - vm_compute. reflexivity. }
  rewrite E, V in X. vm_compute in X. discriminate X.
Qed.

(* Non-vacuity: a 1x6 row where the three verdicts occur, all hypotheses of
   C07_xcheck_eq_spec hold at each pixel, and the model computes them. *)
Definition e_L := ds_of [q 1; q 0; q 2; q (-1); q 0; q 0] [0; 4; 0; 0; 2; 0] (-2) 2.
Definition e_R := ds_of [q 0; q (-1); q 3; q 1; q (-1); q 3] [0; 0; 0; 0; 0; 0] (-2) 2.
Example C07_example_hyps :
  map (verdict_at 1 e_L e_R 0) [0; 1; 2; 3; 5] = [Keep; Keep; Keep; Mismatch; Occlusion] /\
  map (finding_at e_L e_R 0) [0; 1; 2; 3; 5] = [false; false; false; false; false] /\
  map (ds_mask (xcheck 1 e_L e_R) 0) [0; 1; 2; 3; 4; 5] = [0; 4; 0; 512; 2; 256].
Proof. vm_compute. repeat split. Qed.

(* T-gen sanity / non-vacuity: [gen_pre] holds of the example pair; the generated method runs on it (vm_compute of
   the regenerated text) and returns the masks of C07_example_hyps and the band |dL + dR|; on the witness of the
   recorded finding it returns occlusion (256) where the property says mismatch *)
Example C07_example_gen :
  gen_pre e_L e_R /\
  option_map x_mask (gen_call 1 e_L e_R) = Some [[0; 4; 0; 512; 2; 256]] /\
  option_map x_bands (gen_call 1 e_L e_R) = Some [[[XFin 0; XFin 1; XFin 1; XFin 2; XNaN; XFin 3]]] /\
  option_map x_mask (gen_call 0 f_L f_R) = Some [[256; 512; 512; 256]] /\
  verdict_at 0 f_L f_R 0 0 = Mismatch.
Proof.
  split.
  - unfold gen_pre. split; [vm_compute; reflexivity|]. split; [vm_compute; congruence|].
    split; [reflexivity|]. split; [reflexivity|].
    intros r c Hr Hc. change (ds_nr e_L) with 1 in Hr. change (ds_nc e_L) with 6 in Hc.
    assert (r = 0) by lia. subst r.
    assert (Hcs : c = 0 \/ c = 1 \/ c = 2 \/ c = 3 \/ c = 4 \/ c = 5) by lia.
    destruct Hcs as [->|[->|[->|[->|[->| ->]]]]]; vm_compute; split; congruence.
  - vm_compute. repeat split.
Qed.

Print Assumptions C07_constants_match.
Print Assumptions C07_rint_round_half_even.
Print Assumptions C07_valid_test.
Print Assumptions C07_xcheck_eq_spec.
Print Assumptions C07_xcheck_keep_iff.
Print Assumptions C07_xcheck_finding_class.
Print Assumptions C07_xcheck_never_both.
Print Assumptions C07_xcheck_invalid_untouched.
Print Assumptions C07_xcheck_disp_unchanged.
Print Assumptions C07_xcheck_confidence.
Print Assumptions C07_xcheck_border_bit0.
Print Assumptions C07_no_wrap.
Print Assumptions C07_xcheck_right_uses_only_left_disp.
Print Assumptions C07_validation_run.
Print Assumptions C07_xcheck_eq_spec_unguarded_refuted.
Print Assumptions C07_gen_row_eq_model.
Print Assumptions C07_gen_xcheck_eq_model.
Print Assumptions C07_gen_xcheck_eq_spec.
Print Assumptions C07_gen_xcheck_keep_iff.
Print Assumptions C07_gen_invalid_untouched.
Print Assumptions C07_gen_no_wrap.
Print Assumptions C07_gen_disparity_unchanged.
