(* C07 -- cross-checking flags exactly the left-right inconsistent pixels, nothing else.
   Statements only; proofs are `exact <lemma>` from Proofs/CrossCheckP.v.
   [xcheck] is the model of CrossCheckingAccurate.disparity_checking of the tree under test
   (with the two `fix:` commits in); [xcheck_before] the model of the code as found. *)
From Coq Require Import List Bool ZArith QArith Qabs.
From Pandora Require Import Model.CrossCheck Spec.CrossCheck Proofs.CrossCheckP Gen.ValConst.
Import ListNotations.
Open Scope Z_scope.

(* Per-run obligation: the constants of the regenerated Gen/ValConst.v (pandora/constants.py)
   are the ones the model and the proofs use. *)
Theorem C07_constants_match :
  [PANDORA_MSK_PIXEL_INVALID; PANDORA_MSK_PIXEL_LEFT_NODATA_OR_BORDER; PANDORA_MSK_PIXEL_OCCLUSION;
   PANDORA_MSK_PIXEL_MISMATCH]
  = [MSK_INVALID; MSK_BORDER; MSK_OCCLUSION; MSK_MISMATCH].
Proof. reflexivity. Qed.

(* the model's rint is round-half-to-even: it is a nearest integer, even on ties, and such
   an integer is unique (so it is also the Spec's round_he) *)
Theorem C07_rint_round_half_even : forall q,
  is_nearest_even q (rint q) /\ (forall z, is_nearest_even q z -> z = rint q) /\ rint q = round_he q.
Proof.
  intro q. split. apply rint_nearest. split.
  intros z H. apply (nearest_even_unique q); [exact H | apply rint_nearest].
  apply rint_round_he.
Qed.

(* the "invalid" test of the code (mask & 0b01111000011 == 0) is "none of bits 0,1,6,7,8,9" *)
Theorem C07_valid_test : forall m, is_valid m = spec_valid m.
Proof. exact is_valid_spec. Qed.

Section C07.
  Variable thr : Q.
  Variables me other : dataset.   (* the checked dataset and the reference one *)

  (* every previously valid, non-border pixel ends with exactly the bit xspec prescribes
     (and every other bit as before), outside the recorded finding's class *)
  Theorem C07_xcheck_eq_spec : forall r c,
    in_ds me r c -> ds_nc me <= 2 ^ 63 -> border_at me r c = false ->
    spec_valid (ds_mask me r c) = true ->
    finding_at me other r c = false ->
    ds_mask (xcheck thr me other) r c
    = Z.lor (ds_mask me r c) (verdict_bit (verdict_at thr me other r c)).
  Proof. exact (xcheck_eq_spec thr me other). Qed.

  (* without any guard: a valid pixel stays unflagged iff its correspondent is in the image
     and |dL(p)+dR(q)| <= threshold *)
  Theorem C07_xcheck_keep_iff : forall r c,
    in_ds me r c -> ds_nc me <= 2 ^ 63 -> border_at me r c = false ->
    spec_valid (ds_mask me r c) = true ->
    (ds_mask (xcheck thr me other) r c = ds_mask me r c <-> verdict_at thr me other r c = Keep).
  Proof. exact (xcheck_keep_iff thr me other). Qed.

  (* inside the finding's class the property says mismatch and the code flags occlusion *)
  Theorem C07_xcheck_finding_class : forall r c,
    in_ds me r c -> ds_nc me <= 2 ^ 63 -> border_at me r c = false ->
    spec_valid (ds_mask me r c) = true -> finding_at me other r c = true ->
    verdict_at thr me other r c = Mismatch /\
    ds_mask (xcheck thr me other) r c = Z.lor (ds_mask me r c) (verdict_bit Occlusion).
  Proof. exact (xcheck_finding_class thr me other). Qed.

  Theorem C07_xcheck_never_both : forall r c,
    in_ds me r c -> ds_nc me <= 2 ^ 63 -> border_at me r c = false ->
    spec_valid (ds_mask me r c) = true ->
    Z.testbit (ds_mask (xcheck thr me other) r c) 8 && Z.testbit (ds_mask (xcheck thr me other) r c) 9 = false.
  Proof. exact (xcheck_never_both thr me other). Qed.

  Theorem C07_xcheck_invalid_untouched : forall r c,
    in_ds me r c -> border_at me r c = false -> spec_valid (ds_mask me r c) = false ->
    ds_mask (xcheck thr me other) r c = ds_mask me r c.
  Proof. exact (xcheck_invalid_untouched thr me other). Qed.

  (* the step returns the same disparity map, shape, interval, offset; appends one band;
     the reference dataset is an argument that is only read (see C07_validation_run) *)
  Theorem C07_xcheck_disp_unchanged :
    ds_disp (xcheck thr me other) = ds_disp me /\ ds_nr (xcheck thr me other) = ds_nr me /\
    ds_nc (xcheck thr me other) = ds_nc me /\ ds_dmin (xcheck thr me other) = ds_dmin me /\
    ds_dmax (xcheck thr me other) = ds_dmax me /\ ds_offset (xcheck thr me other) = ds_offset me /\
    exists band, ds_bands (xcheck thr me other) = ds_bands me ++ [band].
  Proof. exact (xcheck_disp_unchanged thr me other). Qed.

  (* the appended band holds |dL(p)+dR(q)| for a valid pixel whose correspondent is inside,
     NaN for invalid pixels and correspondents outside; +inf when dR(q) is NaN (not
     prescribed by the property: the temporary NaN -> inf substitution is visible there) *)
  Theorem C07_xcheck_confidence : forall r c d, in_ds me r c -> ds_nc me <= 2 ^ 63 ->
    let cell := last (ds_bands (xcheck thr me other)) d r c in
    match spec_conf (ds_nc me) (ds_disp me r) (ds_disp other r) (spec_valid (ds_mask me r c)) c with
    | Some (Some x) => exists y, cell = CFin y /\ (y == x)%Q
    | Some None => cell = CNan
    | None => cell = CInf
    end.
  Proof. exact (xcheck_confidence thr me other). Qed.

  Theorem C07_xcheck_border_bit0 : forall r c,
    in_ds me r c -> 0 < ds_offset me -> border_at me r c = true ->
    ds_mask (xcheck thr me other) r c = 1.
  Proof. exact (xcheck_border_bit0 thr me other). Qed.

  (* the += / -= on uint16 never wrap *)
  Theorem C07_no_wrap : forall r c, in_ds me r c -> ds_nc me <= 2 ^ 63 ->
    0 <= ds_mask me r c < 65536 -> 0 <= ds_mask (xcheck thr me other) r c < 65536.
  Proof. exact (xcheck_no_wrap thr me other). Qed.

  (* the call depends on the reference dataset only through the in-range part of its
     disparity map (what C08 needs for the second call of validation_run) *)
  Theorem C07_xcheck_right_uses_only_left_disp : forall other',
    (forall r c, 0 <= r < ds_nr me -> 0 <= c < ds_nc me -> ds_disp other r c = ds_disp other' r c) ->
    forall r c d, 0 <= r < ds_nr me -> 0 <= c < ds_nc me ->
      ds_mask (xcheck thr me other) r c = ds_mask (xcheck thr me other') r c /\
      last (ds_bands (xcheck thr me other)) d r c = last (ds_bands (xcheck thr me other')) d r c.
  Proof. exact (xcheck_uses_only_disp thr me other). Qed.
End C07.

(* validation_run: the right map is checked against the (already checked) left one by the
   same function; both disparity maps come out as they went in *)
Theorem C07_validation_run : forall thr L R,
  snd (validation_run thr L R) = xcheck thr R L /\
  ds_disp (fst (validation_run thr L R)) = ds_disp L /\
  ds_disp (snd (validation_run thr L R)) = ds_disp R.
Proof. exact validation_run_right. Qed.

(* ---------------------------------------------------------------- witnesses *)

Definition row_fn {A} (d : A) (l : list A) : Z -> Z -> A :=
  fun r c => if (r =? 0) && (0 <=? c) then nth (Z.to_nat c) l d else d.
Definition ds_of (disp : list (option Q)) (mask : list Z) (dmin dmax : Z) : dataset :=
  mkDS 1 (Z.of_nat (length disp)) (row_fn None disp) (row_fn 0 mask) [] dmin dmax 0.
Definition q (z : Z) : option Q := Some (inject_Z z).

(* D2 (DESIGN.md section 4), the corpus case of the check: dL = [-3,0,0,0,0,3], dR = 0.
   The code as found left pixels 0 and 5 unflagged; the repaired code flags them. *)
Definition d2_L := ds_of [q (-3); q 0; q 0; q 0; q 0; q 3] [0; 0; 0; 0; 0; 0] (-3) 3.
Definition d2_R := ds_of [q 0; q 0; q 0; q 0; q 0; q 0] [0; 0; 0; 0; 0; 0] (-3) 3.
Example C07_D2_regression :
  map (ds_mask (xcheck_before 1 d2_L d2_R) 0) [0; 1; 2; 3; 4; 5] = [0; 0; 0; 0; 0; 0] /\
  map (ds_mask (xcheck 1 d2_L d2_R) 0) [0; 1; 2; 3; 4; 5] = [256; 0; 0; 0; 0; 256] /\
  verdict_at 1 d2_L d2_R 0 0 <> Keep /\ verdict_at 1 d2_L d2_R 0 5 <> Keep.
Proof. vm_compute. repeat split; discriminate. Qed.

(* rounding as found: rint(col + d); column 1 with disparity 1/2 went to column 2 although
   round(1/2) = 0; the repaired code uses col + rint(d) *)
Definition h_L := ds_of [Some (1 # 2); Some (1 # 2); q 0; q 0]%Q [0; 0; 0; 0] (-1) 1.
Definition h_R := ds_of [q 0; q (-1); q 5; q 0] [0; 0; 0; 0] (-1) 1.
Example C07_rounding_regression :
  ds_mask (xcheck_before (1 # 2)%Q h_L h_R) 0 1 = 256 /\
  verdict_at (1 # 2)%Q h_L h_R 0 1 = Keep /\ ds_mask (xcheck (1 # 2)%Q h_L h_R) 0 1 = 0.
Proof. vm_compute. repeat split. Qed.

(* the recorded finding: without the guard [finding_at = false] the statement of
   C07_xcheck_eq_spec is false of the (repaired) code: pixel 0 has its correspondent outside
   and d = 2 satisfies round(dR(0+2)) = -2 *)
Definition f_L := ds_of [q (-3); q 0; q 0; q 0] [0; 0; 0; 0] (-3) 3.
Definition f_R := ds_of [q 1; q 1; q (-2); q 1] [0; 0; 0; 0] (-3) 3.
Definition C07_xcheck_eq_spec_unguarded : Prop :=
  forall thr me other r c,
    in_ds me r c -> ds_nc me <= 2 ^ 63 -> border_at me r c = false ->
    spec_valid (ds_mask me r c) = true ->
    ds_mask (xcheck thr me other) r c
    = Z.lor (ds_mask me r c) (verdict_bit (verdict_at thr me other r c)).
Theorem C07_xcheck_eq_spec_unguarded_refuted : ~ C07_xcheck_eq_spec_unguarded.
Proof.
  intro H.
  assert (E : ds_mask (xcheck 0 f_L f_R) 0 0 = 256) by (vm_compute; reflexivity).
  assert (V : verdict_at 0 f_L f_R 0 0 = Mismatch) by (vm_compute; reflexivity).
  assert (X : ds_mask (xcheck 0 f_L f_R) 0 0
              = Z.lor (ds_mask f_L 0 0) (verdict_bit (verdict_at 0 f_L f_R 0 0))).
  { apply H.
    - unfold in_ds. vm_compute. repeat split; discriminate.
    - vm_compute. discriminate.
    - vm_compute. reflexivity.
    - vm_compute. reflexivity. }
  rewrite E, V in X. vm_compute in X. discriminate X.
Qed.

(* Non-vacuity: a 1x6 row where the three verdicts occur, all hypotheses of
   C07_xcheck_eq_spec hold at each pixel, and the model computes them. *)
Definition e_L := ds_of [q 1; q 0; q 2; q (-1); q 0; q 0] [0; 4; 0; 0; 2; 0] (-2) 2.
Definition e_R := ds_of [q 0; q (-1); q 3; q 1; q (-1); q 3] [0; 0; 0; 0; 0; 0] (-2) 2.
Example C07_example_hyps :
  map (verdict_at 1 e_L e_R 0) [0; 1; 2; 3; 5] = [Keep; Keep; Keep; Mismatch; Occlusion] /\
  map (finding_at e_L e_R 0) [0; 1; 2; 3; 5] = [false; false; false; false; false] /\
  map (ds_mask (xcheck 1 e_L e_R) 0) [0; 1; 2; 3; 4; 5] = [0; 4; 0; 512; 2; 256].
Proof. vm_compute. repeat split. Qed.

Print Assumptions C07_constants_match.
Print Assumptions C07_rint_round_half_even.
Print Assumptions C07_valid_test.
Print Assumptions C07_xcheck_eq_spec.
Print Assumptions C07_xcheck_keep_iff.
Print Assumptions C07_xcheck_finding_class.
Print Assumptions C07_xcheck_never_both.
Print Assumptions C07_xcheck_invalid_untouched.
Print Assumptions C07_xcheck_disp_unchanged.
Print Assumptions C07_xcheck_confidence.
Print Assumptions C07_xcheck_border_bit0.
Print Assumptions C07_no_wrap.
Print Assumptions C07_xcheck_right_uses_only_left_disp.
Print Assumptions C07_validation_run.
Print Assumptions C07_xcheck_eq_spec_unguarded_refuted.
