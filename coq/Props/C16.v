(* C16 -- Image datasets faithfully encode input rasters, masks, nodata and ROI.
   Statements only; proofs are in Proofs/DatasetP.v (hand-written model of
   create_dataset_from_inputs, tied to the code by the correspondence run of
   harness/props/c16.py) and Proofs/WindowP.v (img_tools.get_window as REGENERATED in
   Gen/Window.v from the source at every run: if the source changes, these proofs are
   re-checked against the new text).

   Notes.
   * Window theorems assume a non-empty requested interval on each axis
     (first - margin <= last + margin; implied by first <= last and margins >= 0).  ROI bounds
     may be any integers (negative, beyond the image), sizes any integers.
   * With an INFINITE nodata value the code flags infinite samples of both signs (np.isinf);
     mask_semantics / samples_unchanged carry the explicit guard [opposite_inf ... = false]
     for the pixel they speak about.  Nothing else is excluded.
   * C16_gen_*: the functions of img_tools.py that decide the property (add_disparity, add_classif,
     add_segm, add_no_data, add_mask, create_dataset_from_inputs) are REGENERATED at every run into
     Gen/DatasetFns.v (translator/gen_dataset_fns.py, statement by statement, over the numpy / xarray /
     rasterio primitives of Model/DatasetPrims.v).  C16_gen_add_*_eq and C16_gen_create_eq are the per-run
     obligations "what the code says now computes what the model computes, for all inputs" (arrays are
     compared with arr_eq: same shape, same value at every index); the C16_gen_* theorems after them restate
     the theorems above on the generated create_dataset_from_inputs (G), window computation included.
   * D6 (negative mask values were valid) and D7 (a ROI adjacent to the image was not refused)
     were refuted here on the code as found, with witnesses now kept as regression Examples
     (Proofs/DatasetP.v negative_mask_value_is_invalid, Proofs/WindowP.v roi_right_after_last_column_refused etc.). *)
From Coq Require Import List Bool ZArith QArith String.
From Pandora Require Import Model.Dataset Model.DatasetPrims Spec.Dataset Proofs.DatasetP Proofs.WindowP
     Proofs.DatasetGenP Gen.Window.
From Pandora Require Gen.DatasetFns.
Import ListNotations.
Open Scope Z_scope.

(* When the read is not refused, the window is exactly the set of columns (rows) of the image
   lying in [first - margin, last + margin]; it is not empty and lies inside the image. *)
Theorem C16_window_is_clipped_roi :
  forall cf cl rf rl m0 m1 m2 m3 W H co ro w h,
    cf - m0 <= cl + m2 -> rf - m1 <= rl + m3 ->
    get_window cf cl rf rl m0 m1 m2 m3 W H = Window co ro w h ->
    1 <= w /\ 1 <= h /\ 0 <= co /\ 0 <= ro /\ co + w <= W /\ ro + h <= H /\
    (forall c, co <= c < co + w <-> in_roi cf cl m0 m2 W c) /\
    (forall r, ro <= r < ro + h <-> in_roi rf rl m1 m3 H r).
Proof. exact window_is_clipped_roi. Qed.

(* The read is refused ("Roi specified is outside the image") exactly when no pixel of the
   image is inside the ROI with its margins; no other error is possible. *)
Theorem C16_window_refused_iff_empty :
  forall cf cl rf rl m0 m1 m2 m3 W H,
    cf - m0 <= cl + m2 -> rf - m1 <= rl + m3 ->
    (get_window cf cl rf rl m0 m1 m2 m3 W H = RaiseOutside
     <-> ~ exists c r, in_roi cf cl m0 m2 W c /\ in_roi rf rl m1 m3 H r)
    /\ get_window cf cl rf rl m0 m1 m2 m3 W H <> RaiseNegative.
Proof. exact window_refused_iff_empty. Qed.

(* Reading through a window lying inside the image = cropping the dataset of the whole image:
   coordinates, every band of im, band names, the valid / no-data / invalid classification of
   every pixel (an absent msk meaning "all valid"), disparity, classif, segm. *)
Theorem C16_roi_read_is_crop :
  forall inp W H co ro w h,
    i_img inp <> [] ->
    Forall (fun a => nr a = H /\ nc a = W) (i_img inp) ->
    0 <= co -> 0 <= ro -> co + w <= W -> ro + h <= H ->
    let full := create_dataset inp None in
    let roi := create_dataset inp (Some (co, ro, w, h)) in
    (d_row full = zrange 0 H /\ d_col full = zrange 0 W /\
     d_row roi = zrange ro h /\ d_col roi = zrange co w) /\
    Forall2 (crop_of co ro w h) (d_im full) (d_im roi) /\
    d_band_im roi = d_band_im full /\
    (forall r c, 0 <= r < h -> 0 <= c < w ->
                 class_at (d_msk roi) r c = class_at (d_msk full) (ro + r) (co + c)) /\
    opt_rel (crop2 co ro w h) (d_disp full) (d_disp roi) /\
    opt_rel (crop_classif co ro w h) (d_classif full) (d_classif roi) /\
    opt_rel (crop_of co ro w h) (d_segm full) (d_segm roi).
Proof. exact roi_read_is_crop. Qed.

(* get_window followed by the read: the dataset of a ROI is the crop of the dataset of the whole
   image to [first - margin, last + margin] clipped to the image (composition of the two
   theorems above, so that nothing is lost between them). *)
Theorem C16_roi_dataset :
  forall inp W H cf cl rf rl m0 m1 m2 m3 co ro w h,
    i_img inp <> [] ->
    Forall (fun a => nr a = H /\ nc a = W) (i_img inp) ->
    cf - m0 <= cl + m2 -> rf - m1 <= rl + m3 ->
    get_window cf cl rf rl m0 m1 m2 m3 W H = Window co ro w h ->
    let full := create_dataset inp None in
    let roi := create_dataset inp (Some (co, ro, w, h)) in
    (forall c, In c (d_col roi) <-> in_roi cf cl m0 m2 W c) /\
    (forall r, In r (d_row roi) <-> in_roi rf rl m1 m3 H r) /\
    Forall2 (crop_of co ro w h) (d_im full) (d_im roi) /\
    (forall r c, 0 <= r < h -> 0 <= c < w ->
                 class_at (d_msk roi) r c = class_at (d_msk full) (ro + r) (co + c)).
Proof. exact roi_dataset. Qed.

(* The classification written in msk is the one of the property: no-data iff a sample of some
   band equals the nodata value; else invalid iff the input mask is non-zero; else valid. *)
Theorem C16_mask_semantics :
  forall inp win r c,
    let nd := i_nodata inp in
    let data := data_of inp win in
    let ds := create_dataset inp win in
    (forall a, In a data -> 0 <= r < nr a /\ 0 <= c < nc a) ->
    (forall a, In a data -> opposite_inf nd (px a r c) = false) ->
    class_at (d_msk ds) r c =
    spec_class nd (map (fun a => px a r c) data)
               (option_map (fun m => px (read win m) r c) (i_mask inp)).
Proof. exact mask_semantics. Qed.

(* No msk variable exactly when there is nothing to flag: no mask input and no sample of the
   data that was read passes the nodata test. *)
Theorem C16_mask_absent_iff :
  forall inp win,
    let nd := i_nodata inp in
    d_msk (create_dataset inp win) = None <->
    (i_mask inp = None /\
     forall a r c, In a (data_of inp win) -> 0 <= r < nr a -> 0 <= c < nc a ->
                   nodata_test nd (px a r c) = false).
Proof. exact mask_absent_iff. Qed.

(* The image variable holds the samples that were read, unchanged, except that samples equal to
   a NaN/inf nodata value are replaced by -9999; same shapes; band names from the file. *)
Theorem C16_samples_unchanged :
  forall inp win,
    let nd := i_nodata inp in
    let ds := create_dataset inp win in
    Forall2 (fun out d =>
               nr out = nr d /\ nc out = nc d /\
               forall r c, 0 <= r < nr d -> 0 <= c < nc d ->
                           opposite_inf nd (px d r c) = false ->
                           px out r c = spec_sample nd (px d r c))
            (d_im ds) (data_of inp win)
    /\ d_band_im ds = match data_of inp win with [_] => None | _ => Some (i_names inp) end.
Proof. exact samples_unchanged. Qed.

(* The disparity variable is the [min,max] pair broadcast to the image shape, or the two grid
   bands (windowed like the image); classif and segm are attached unchanged. *)
Theorem C16_disparity_var :
  forall inp win,
    let ds := create_dataset inp win in
    let '(ny, nx) := shape_of (data_of inp win) in
    match i_disp inp with
    | DispNone => d_disp ds = None
    | DispPair a b =>
      exists d1 d2, d_disp ds = Some (d1, d2) /\
        nr d1 = ny /\ nc d1 = nx /\ nr d2 = ny /\ nc d2 = nx /\
        forall r c, px d1 r c = sz a /\ px d2 r c = sz b
    | DispGrid g1 g2 => d_disp ds = Some (read win g1, read win g2)
    end
    /\ d_classif ds = option_map (fun nb => (fst nb, map (read win) (snd nb))) (i_classif inp)
    /\ d_segm ds = option_map (read win) (i_segm inp).
Proof. exact disparity_var. Qed.

(* ================================================================== on the generated functions *)

Module G := Pandora.Gen.DatasetFns.

(* ---- per-run obligations: generated = model, for all inputs *)

(* add_disparity updates band_disp, the disparity variable ([min,max] broadcast to the image shape, or the
   two bands of the grid read through the window) and attrs["disparity_source"]; nothing else *)
Theorem C16_gen_add_disparity_eq : forall ds d win,
  G.add_disparity ds d win =
  mkX (x_im ds) (x_im_dims ds) (x_band_im ds) (x_row ds) (x_col ds) (x_valid_pixels ds)
      (x_no_data_mask ds) (x_no_data_img ds) (Some d) (x_msk ds)
      (match d with DispNone => x_band_disp ds | _ => Some ["min"%string; "max"%string] end)
      (match d with
       | DispNone => x_disparity ds
       | DispPair a b => Some [const_arr (ds_size_row ds) (ds_size_col ds) (sz a);
                               const_arr (ds_size_row ds) (ds_size_col ds) (sz b)]
       | DispGrid g1 g2 => Some [read win g1; read win g2]
       end)
      (x_band_classif ds) (x_classif ds) (x_segm ds).
Proof. exact gen_add_disparity_eq. Qed.

(* add_classif / add_segm attach the rasters (descriptions, every band / band 1) read through the window *)
Theorem C16_gen_add_classif_segm_eq : forall ds c s win,
  G.add_classif ds c win =
  mkX (x_im ds) (x_im_dims ds) (x_band_im ds) (x_row ds) (x_col ds) (x_valid_pixels ds)
      (x_no_data_mask ds) (x_no_data_img ds) (x_disparity_source ds) (x_msk ds) (x_band_disp ds)
      (x_disparity ds)
      (match c with Some f => Some (rf_desc f) | None => x_band_classif ds end)
      (match c with Some f => Some (map (read win) (rf_bands f)) | None => x_classif ds end)
      (x_segm ds)
  /\
  G.add_segm ds s win =
  mkX (x_im ds) (x_im_dims ds) (x_band_im ds) (x_row ds) (x_col ds) (x_valid_pixels ds)
      (x_no_data_mask ds) (x_no_data_img ds) (x_disparity_source ds) (x_msk ds) (x_band_disp ds)
      (x_disparity ds) (x_band_classif ds) (x_classif ds)
      (match s with Some f => Some (read win (band1 f)) | None => x_segm ds end).
Proof. intros. split; [apply gen_add_classif_eq|apply gen_add_segm_eq]. Qed.

(* add_no_data, given no_data_pixels = np.where(t(im)): when the nodata value is NaN/inf and some sample
   passes t, exactly the samples passing t become -9999 and attrs["no_data_img"] = -9999; else the image is
   untouched and attrs["no_data_img"] = nodata ([add_no_data_attr] of the model); nothing else changes *)
Theorem C16_gen_add_no_data_eq : forall ds (nv : sample) (t : sample -> bool),
  let any := any_px t (nd_bands (x_im ds)) in
  let w := np_where (np_map t (x_im ds)) in
  G.add_no_data ds nv w =
  mkX (if any && special nv then nd_assign_where (x_im ds) w minus9999 else x_im ds)
      (x_im_dims ds) (x_band_im ds) (x_row ds) (x_col ds) (x_valid_pixels ds)
      (x_no_data_mask ds) (Some (add_no_data_attr nv any)) (x_disparity_source ds) (x_msk ds)
      (x_band_disp ds) (x_disparity ds) (x_band_classif ds) (x_classif ds) (x_segm ds)
  /\ nd_bands (nd_assign_where (x_im ds) w minus9999) =
     map (fun a => assign_where a (fun r c => t (px a r c)) minus9999) (nd_bands (x_im ds)).
Proof. intros. split; [apply gen_add_no_data_eq|apply nd_assign_where_bands]. Qed.

(* add_mask, given no_data_pixels = np.where(t(im)), writes the msk variable the model's add_mask describes
   (absent when there is no mask and nothing passes t; else valid_pixels, then 2 where the input mask is not 0,
   then no_data_mask where some band passes t -- in that order) and changes nothing else *)
Theorem C16_gen_add_mask_eq : forall ds mask (t : sample -> bool) width height win,
  x_msk ds = None -> x_valid_pixels ds = valid_pixels -> x_no_data_mask ds = no_data_mask ->
  let any := any_px t (nd_bands (x_im ds)) in
  let w := np_where (np_map t (x_im ds)) in
  exists m,
    G.add_mask ds mask w width height win =
    mkX (x_im ds) (x_im_dims ds) (x_band_im ds) (x_row ds) (x_col ds) (x_valid_pixels ds)
        (x_no_data_mask ds) (x_no_data_img ds) (x_disparity_source ds) m
        (x_band_disp ds) (x_disparity ds) (x_band_classif ds) (x_classif ds) (x_segm ds)
    /\ opt_rel arr_eq m
         (Dataset.add_mask height width (option_map (fun f => read win (band1 f)) mask) any
                           (fun r c => existsb (fun a => t (px a r c)) (nd_bands (x_im ds)))).
Proof. exact gen_add_mask_eq. Qed.

(* the whole create_dataset_from_inputs(input_config, roi) as generated -- defaults of the input section,
   size of the image file, get_window, which window goes to which read, 2-D / 3-D image, coordinates, the
   three-way nodata test, the order add_disparity / add_classif / add_segm / add_no_data / add_mask -- raises
   what the model raises, and otherwise returns a dataset equal to the model's in every variable, coordinate
   and attribute the model has ([ds_rel]), with the image dims, band_disp and disparity_source as documented *)
Theorem C16_gen_create_eq : forall xi roi,
  match G.create_dataset_from_inputs xi roi, model_create (to_inputs xi) roi with
  | COk g, MOk m =>
    (Forall2 arr_eq (nd_bands (x_im g)) (d_im m) /\
     x_band_im g = d_band_im m /\ x_row g = d_row m /\ x_col g = d_col m /\
     x_valid_pixels g = 0 /\ x_no_data_mask g = 1 /\
     x_no_data_img g = Some (d_nodata m) /\
     opt_rel arr_eq (x_msk g) (d_msk m) /\
     opt_rel (fun l p => Forall2 arr_eq l [fst p; snd p]) (x_disparity g) (d_disp m) /\
     x_band_classif g = option_map fst (d_classif m) /\
     opt_rel (Forall2 arr_eq) (x_classif g) (option_map snd (d_classif m)) /\
     opt_rel arr_eq (x_segm g) (d_segm m)) /\
    x_im_dims g = (if rf_count (xi_img xi) =? 1 then ["row"%string; "col"%string]
                   else ["band_im"%string; "row"%string; "col"%string]) /\
    x_band_disp g = (match cfg_get DispNone (xi_disp xi) with
                     | DispNone => None | _ => Some ["min"%string; "max"%string] end) /\
    x_disparity_source g = xi_disp xi
  | CRaiseOutside, MRaiseOutside => True
  | CRaiseNegative, MRaiseNegative => True
  | _, _ => False
  end.
Proof.
  intros xi roi. pose proof (gen_create_eq xi roi) as R. unfold cres_rel in R.
  destruct (G.create_dataset_from_inputs xi roi), (model_create (to_inputs xi) roi); auto.
  destruct R as [[] [? [? ?]]]. repeat split; assumption.
Qed.

(* every raster read has the out_dtype the property speaks of: float32 for the image and the disparity grid,
   int16 for classification and segmentation, the file's own type for the mask *)
Theorem C16_gen_read_dtypes :
  G.read_dtypes =
  [("add_disparity"%string, DtFloat32); ("add_classif"%string, DtInt16); ("add_segm"%string, DtInt16);
   ("add_mask"%string, DtNative);
   ("create_dataset_from_inputs"%string, DtFloat32); ("create_dataset_from_inputs"%string, DtFloat32)].
Proof. exact gen_read_dtypes. Qed.

(* ---- the theorems of the property, on the generated create_dataset_from_inputs
   [reads_through xi roi win]: win is None without a ROI, else the window get_window returns for the size of
   the image file; [xdata xi win]: the bands of the image file read through win *)

Theorem C16_gen_mask_semantics : forall xi roi g,
  G.create_dataset_from_inputs xi roi = COk g ->
  x_valid_pixels g = 0 /\ x_no_data_mask g = 1 /\
  exists win, reads_through xi roi win /\
    let nv := xi_nodata xi in
    let data := xdata xi win in
    forall r c,
      (forall a, In a data -> 0 <= r < nr a /\ 0 <= c < nc a) ->
      (forall a, In a data -> opposite_inf nv (px a r c) = false) ->
      class_at (x_msk g) r c =
      spec_class nv (map (fun a => px a r c) data)
                 (option_map (fun f => px (read win (band1 f)) r c) (cfg_get None (xi_mask xi))).
Proof. exact gen_mask_semantics. Qed.

Theorem C16_gen_mask_absent_iff : forall xi roi g,
  G.create_dataset_from_inputs xi roi = COk g ->
  exists win, reads_through xi roi win /\
    (x_msk g = None <->
     (cfg_get None (xi_mask xi) = None /\
      forall a r c, In a (xdata xi win) -> 0 <= r < nr a -> 0 <= c < nc a ->
                    nodata_test (xi_nodata xi) (px a r c) = false)).
Proof. exact gen_mask_absent_iff. Qed.

Theorem C16_gen_samples_unchanged : forall xi roi g,
  G.create_dataset_from_inputs xi roi = COk g ->
  exists win, reads_through xi roi win /\
    let nv := xi_nodata xi in
    Forall2 (fun out d =>
               nr out = nr d /\ nc out = nc d /\
               forall r c, 0 <= r < nr d -> 0 <= c < nc d ->
                           opposite_inf nv (px d r c) = false ->
                           px out r c = spec_sample nv (px d r c))
            (nd_bands (x_im g)) (xdata xi win)
    /\ x_band_im g = match xdata xi win with [_] => None | _ => Some (rf_desc (xi_img xi)) end
    /\ x_im_dims g = (if rf_count (xi_img xi) =? 1 then ["row"%string; "col"%string]
                      else ["band_im"%string; "row"%string; "col"%string]).
Proof. exact gen_samples_unchanged. Qed.

Theorem C16_gen_disparity_var : forall xi roi g,
  G.create_dataset_from_inputs xi roi = COk g ->
  exists win, reads_through xi roi win /\
    let '(ny, nx) := shape_of (xdata xi win) in
    match cfg_get DispNone (xi_disp xi) with
    | DispNone => x_disparity g = None /\ x_band_disp g = None
    | DispPair a b =>
      exists d1 d2, x_disparity g = Some [d1; d2] /\ x_band_disp g = Some ["min"%string; "max"%string] /\
        nr d1 = ny /\ nc d1 = nx /\ nr d2 = ny /\ nc d2 = nx /\
        forall r c, px d1 r c = sz a /\ px d2 r c = sz b
    | DispGrid g1 g2 =>
      exists d1 d2, x_disparity g = Some [d1; d2] /\ x_band_disp g = Some ["min"%string; "max"%string] /\
        arr_eq d1 (read win g1) /\ arr_eq d2 (read win g2)
    end
    /\ x_disparity_source g = xi_disp xi
    /\ x_band_classif g = option_map rf_desc (cfg_get None (xi_classif xi))
    /\ opt_rel (Forall2 arr_eq) (x_classif g)
               (option_map (fun f => map (read win) (rf_bands f)) (cfg_get None (xi_classif xi)))
    /\ opt_rel arr_eq (x_segm g) (option_map (fun f => read win (band1 f)) (cfg_get None (xi_segm xi))).
Proof. exact gen_disparity_var. Qed.

(* the generated function with a ROI against the generated function without one: coordinates, every band of
   im, band names, the classification of every pixel, disparity, classif, segm of the ROI dataset are the crop
   of those of the whole dataset to [first - margin, last + margin] clipped to the image *)
Theorem C16_gen_roi_dataset : forall xi r gf gr W H,
  rf_bands (xi_img xi) <> [] ->
  Forall (fun a => nr a = H /\ nc a = W) (rf_bands (xi_img xi)) ->
  let cf := r_col_first r in let cl := r_col_last r in
  let rf := r_row_first r in let rl := r_row_last r in
  let m0 := r_m_left r in let m1 := r_m_up r in let m2 := r_m_right r in let m3 := r_m_down r in
  cf - m0 <= cl + m2 -> rf - m1 <= rl + m3 ->
  G.create_dataset_from_inputs xi None = COk gf ->
  G.create_dataset_from_inputs xi (Some r) = COk gr ->
  (forall c, In c (x_col gr) <-> in_roi cf cl m0 m2 W c) /\
  (forall i, In i (x_row gr) <-> in_roi rf rl m1 m3 H i) /\
  x_col gf = zrange 0 W /\ x_row gf = zrange 0 H /\
  exists co ro w h,
    get_window cf cl rf rl m0 m1 m2 m3 W H = Window co ro w h /\
    x_col gr = zrange co w /\ x_row gr = zrange ro h /\
    Forall2 (crop_of co ro w h) (nd_bands (x_im gf)) (nd_bands (x_im gr)) /\
    x_band_im gr = x_band_im gf /\
    (forall i j, 0 <= i < h -> 0 <= j < w ->
                 class_at (x_msk gr) i j = class_at (x_msk gf) (ro + i) (co + j)) /\
    opt_rel (Forall2 (crop_of co ro w h)) (x_disparity gf) (x_disparity gr) /\
    x_band_classif gr = x_band_classif gf /\
    opt_rel (Forall2 (crop_of co ro w h)) (x_classif gf) (x_classif gr) /\
    opt_rel (crop_of co ro w h) (x_segm gf) (x_segm gr).
Proof. exact gen_roi_dataset. Qed.

(* the generated function refuses a ROI exactly when no pixel of the image lies in it with its margins,
   raises nothing else, and never refuses a read without a ROI *)
Theorem C16_gen_refused_iff_empty : forall xi r,
  let cf := r_col_first r in let cl := r_col_last r in
  let rf := r_row_first r in let rl := r_row_last r in
  let m0 := r_m_left r in let m1 := r_m_up r in let m2 := r_m_right r in let m3 := r_m_down r in
  let W := rf_width (xi_img xi) in let H := rf_height (xi_img xi) in
  cf - m0 <= cl + m2 -> rf - m1 <= rl + m3 ->
  (G.create_dataset_from_inputs xi (Some r) = CRaiseOutside
   <-> ~ exists c i, in_roi cf cl m0 m2 W c /\ in_roi rf rl m1 m3 H i) /\
  G.create_dataset_from_inputs xi (Some r) <> CRaiseNegative /\
  exists g, G.create_dataset_from_inputs xi None = COk g.
Proof. exact gen_refused_iff_empty. Qed.

(* Non-vacuity: a 2-band 2x3 raster with a NaN sample, a negative mask value and a clipped ROI. *)
Definition ex_band (f : Z -> Z -> sample) : arr sample := mkArr 2 3 f.
Definition ex_inp : inputs :=
  mkIn [ex_band (fun r c => if (r =? 0) && (c =? 1) then SNaN else sz (r + c));
        ex_band (fun r c => sz (10 * r + c))]
       [0; 1] SNaN (Some (mkArr 2 3 (fun r c => if (r =? 1) && (c =? 2) then -5 else 0)))
       (DispPair (-2) 2) None None.
Example C16_example :
  get_window 1 5 (-2) 0 0 0 1 0 3 2 = Window 1 0 2 1 /\
  (let ds := create_dataset ex_inp (Some (1, 0, 2, 1)) in
   d_col ds = [1; 2] /\ d_row ds = [0] /\
   class_at (d_msk ds) 0 0 = PNoData /\ class_at (d_msk ds) 0 1 = PValid) /\
  class_at (d_msk (create_dataset ex_inp None)) 1 2 = PInvalid.
Proof. repeat split. Qed.

(* the same on the generated function: the input section with the mask key, "disp": [-2, 2], no classif /
   segm keys, a clipped ROI; and a ROI outside the image *)
Definition ex_xi : xinputs :=
  mkXin (mkRfile [0; 1] (i_img ex_inp)) SNaN
        (Some (Some (mkRfile [] [mkArr 2 3 (fun r c => if (r =? 1) && (c =? 2) then -5 else 0)])))
        (Some (DispPair (-2) 2)) None (Some None).
Example C16_gen_example :
  (exists g, G.create_dataset_from_inputs ex_xi (Some (mkRoi 1 5 (-2) 0 0 0 1 0)) = COk g /\
             x_col g = [1; 2] /\ x_row g = [0] /\ x_band_im g = Some [0; 1] /\
             class_at (x_msk g) 0 0 = PNoData /\ class_at (x_msk g) 0 1 = PValid /\
             x_no_data_img g = Some minus9999 /\
             x_band_disp g = Some ["min"%string; "max"%string]) /\
  (exists g, G.create_dataset_from_inputs ex_xi None = COk g /\ class_at (x_msk g) 1 2 = PInvalid) /\
  G.create_dataset_from_inputs ex_xi (Some (mkRoi 3 4 0 1 0 0 0 0)) = CRaiseOutside.
Proof. split; [|split]; [eexists; repeat split..|reflexivity]. Qed.

Print Assumptions C16_window_is_clipped_roi.
Print Assumptions C16_window_refused_iff_empty.
Print Assumptions C16_roi_read_is_crop.
Print Assumptions C16_roi_dataset.
Print Assumptions C16_mask_semantics.
Print Assumptions C16_mask_absent_iff.
Print Assumptions C16_samples_unchanged.
Print Assumptions C16_disparity_var.
Print Assumptions C16_gen_add_disparity_eq.
Print Assumptions C16_gen_add_classif_segm_eq.
Print Assumptions C16_gen_add_no_data_eq.
Print Assumptions C16_gen_add_mask_eq.
Print Assumptions C16_gen_create_eq.
Print Assumptions C16_gen_read_dtypes.
Print Assumptions C16_gen_mask_semantics.
Print Assumptions C16_gen_mask_absent_iff.
Print Assumptions C16_gen_samples_unchanged.
Print Assumptions C16_gen_disparity_var.
Print Assumptions C16_gen_roi_dataset.
Print Assumptions C16_gen_refused_iff_empty.
