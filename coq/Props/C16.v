(* C16 -- Image datasets faithfully encode input rasters, masks, nodata and ROI.
   Statements only; proofs are in Proofs/DatasetP.v (hand-written model of
   create_dataset_from_inputs, tied to the code by the correspondence run) and
   Proofs/WindowP.v (get_window as regenerated in Gen/Window.v at every run).
   STAGE (i): the code as found; D6 and D7 make two statements false. *)
From Coq Require Import List Bool ZArith QArith.
From Pandora Require Import Model.Dataset Spec.Dataset Proofs.DatasetP Proofs.WindowP Gen.Window.
Import ListNotations.
Open Scope Z_scope.

Definition C16_window_is_clipped_roi_full : Prop := window_is_clipped_roi_stmt.
Definition C16_window_refused_iff_empty_full : Prop := window_refused_iff_empty_stmt.
Definition C16_mask_semantics_full : Prop := mask_semantics_stmt.

Theorem C16_window_is_clipped_roi_refuted : ~ C16_window_is_clipped_roi_full.
Proof. exact window_is_clipped_roi_refuted. Qed.
Theorem C16_window_refused_iff_empty_refuted : ~ C16_window_refused_iff_empty_full.
Proof. exact window_refused_iff_empty_refuted. Qed.
Theorem C16_mask_semantics_refuted : ~ C16_mask_semantics_full.
Proof. exact mask_semantics_refuted. Qed.

Print Assumptions C16_window_is_clipped_roi_refuted.
Print Assumptions C16_window_refused_iff_empty_refuted.
Print Assumptions C16_mask_semantics_refuted.
