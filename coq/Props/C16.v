(* C16 -- Image datasets faithfully encode input rasters, masks, nodata and ROI.
   Statements only; proofs are in Proofs/DatasetP.v (hand-written model of
   create_dataset_from_inputs, tied to the code by the correspondence run of
   harness/props/c16.py) and Proofs/WindowP.v (img_tools.get_window as REGENERATED in
   Gen/Window.v from the source at every run: if the source changes, these proofs are
   re-checked against the new text).

   Notes.
   * Window theorems assume a non-empty requested interval on each axis
     (first - margin <= last + margin; implied by first <= last and margins >= 0).  ROI bounds
     may be any integers (negative, beyond the image), sizes any integers.
   * With an INFINITE nodata value the code flags infinite samples of both signs (np.isinf);
     mask_semantics / samples_unchanged carry the explicit guard [opposite_inf ... = false]
     for the pixel they speak about.  Nothing else is excluded.
   * D6 (negative mask values were valid) and D7 (a ROI adjacent to the image was not refused)
     were refuted here on the code as found, with witnesses now kept as regression Examples
     (Proofs/DatasetP.v negative_mask_value_is_invalid, Proofs/WindowP.v roi_right_after_last_column_refused etc.). *)
From Coq Require Import List Bool ZArith QArith.
From Pandora Require Import Model.Dataset Spec.Dataset Proofs.DatasetP Proofs.WindowP Gen.Window.
Import ListNotations.
Open Scope Z_scope.

(* When the read is not refused, the window is exactly the set of columns (rows) of the image
   lying in [first - margin, last + margin]; it is not empty and lies inside the image. *)
Theorem C16_window_is_clipped_roi :
  forall cf cl rf rl m0 m1 m2 m3 W H co ro w h,
    cf - m0 <= cl + m2 -> rf - m1 <= rl + m3 ->
    get_window cf cl rf rl m0 m1 m2 m3 W H = Window co ro w h ->
    1 <= w /\ 1 <= h /\ 0 <= co /\ 0 <= ro /\ co + w <= W /\ ro + h <= H /\
    (forall c, co <= c < co + w <-> in_roi cf cl m0 m2 W c) /\
    (forall r, ro <= r < ro + h <-> in_roi rf rl m1 m3 H r).
Proof. exact window_is_clipped_roi. Qed.

(* The read is refused ("Roi specified is outside the image") exactly when no pixel of the
   image is inside the ROI with its margins; no other error is possible. *)
Theorem C16_window_refused_iff_empty :
  forall cf cl rf rl m0 m1 m2 m3 W H,
    cf - m0 <= cl + m2 -> rf - m1 <= rl + m3 ->
    (get_window cf cl rf rl m0 m1 m2 m3 W H = RaiseOutside
     <-> ~ exists c r, in_roi cf cl m0 m2 W c /\ in_roi rf rl m1 m3 H r)
    /\ get_window cf cl rf rl m0 m1 m2 m3 W H <> RaiseNegative.
Proof. exact window_refused_iff_empty. Qed.

(* Reading through a window lying inside the image = cropping the dataset of the whole image:
   coordinates, every band of im, band names, the valid / no-data / invalid classification of
   every pixel (an absent msk meaning "all valid"), disparity, classif, segm. *)
Theorem C16_roi_read_is_crop :
  forall inp W H co ro w h,
    i_img inp <> [] ->
    Forall (fun a => nr a = H /\ nc a = W) (i_img inp) ->
    0 <= co -> 0 <= ro -> co + w <= W -> ro + h <= H ->
    let full := create_dataset inp None in
    let roi := create_dataset inp (Some (co, ro, w, h)) in
    (d_row full = zrange 0 H /\ d_col full = zrange 0 W /\
     d_row roi = zrange ro h /\ d_col roi = zrange co w) /\
    Forall2 (crop_of co ro w h) (d_im full) (d_im roi) /\
    d_band_im roi = d_band_im full /\
    (forall r c, 0 <= r < h -> 0 <= c < w ->
                 class_at (d_msk roi) r c = class_at (d_msk full) (ro + r) (co + c)) /\
    opt_rel (crop2 co ro w h) (d_disp full) (d_disp roi) /\
    opt_rel (crop_classif co ro w h) (d_classif full) (d_classif roi) /\
    opt_rel (crop_of co ro w h) (d_segm full) (d_segm roi).
Proof. exact roi_read_is_crop. Qed.

(* get_window followed by the read: the dataset of a ROI is the crop of the dataset of the whole
   image to [first - margin, last + margin] clipped to the image (composition of the two
   theorems above, so that nothing is lost between them). *)
Theorem C16_roi_dataset :
  forall inp W H cf cl rf rl m0 m1 m2 m3 co ro w h,
    i_img inp <> [] ->
    Forall (fun a => nr a = H /\ nc a = W) (i_img inp) ->
    cf - m0 <= cl + m2 -> rf - m1 <= rl + m3 ->
    get_window cf cl rf rl m0 m1 m2 m3 W H = Window co ro w h ->
    let full := create_dataset inp None in
    let roi := create_dataset inp (Some (co, ro, w, h)) in
    (forall c, In c (d_col roi) <-> in_roi cf cl m0 m2 W c) /\
    (forall r, In r (d_row roi) <-> in_roi rf rl m1 m3 H r) /\
    Forall2 (crop_of co ro w h) (d_im full) (d_im roi) /\
    (forall r c, 0 <= r < h -> 0 <= c < w ->
                 class_at (d_msk roi) r c = class_at (d_msk full) (ro + r) (co + c)).
Proof. exact roi_dataset. Qed.

(* The classification written in msk is the one of the property: no-data iff a sample of some
   band equals the nodata value; else invalid iff the input mask is non-zero; else valid. *)
Theorem C16_mask_semantics :
  forall inp win r c,
    let nd := i_nodata inp in
    let data := data_of inp win in
    let ds := create_dataset inp win in
    (forall a, In a data -> 0 <= r < nr a /\ 0 <= c < nc a) ->
    (forall a, In a data -> opposite_inf nd (px a r c) = false) ->
    class_at (d_msk ds) r c =
    spec_class nd (map (fun a => px a r c) data)
               (option_map (fun m => px (read win m) r c) (i_mask inp)).
Proof. exact mask_semantics. Qed.

(* No msk variable exactly when there is nothing to flag: no mask input and no sample of the
   data that was read passes the nodata test. *)
Theorem C16_mask_absent_iff :
  forall inp win,
    let nd := i_nodata inp in
    d_msk (create_dataset inp win) = None <->
    (i_mask inp = None /\
     forall a r c, In a (data_of inp win) -> 0 <= r < nr a -> 0 <= c < nc a ->
                   nodata_test nd (px a r c) = false).
Proof. exact mask_absent_iff. Qed.

(* The image variable holds the samples that were read, unchanged, except that samples equal to
   a NaN/inf nodata value are replaced by -9999; same shapes; band names from the file. *)
Theorem C16_samples_unchanged :
  forall inp win,
    let nd := i_nodata inp in
    let ds := create_dataset inp win in
    Forall2 (fun out d =>
               nr out = nr d /\ nc out = nc d /\
               forall r c, 0 <= r < nr d -> 0 <= c < nc d ->
                           opposite_inf nd (px d r c) = false ->
                           px out r c = spec_sample nd (px d r c))
            (d_im ds) (data_of inp win)
    /\ d_band_im ds = match data_of inp win with [_] => None | _ => Some (i_names inp) end.
Proof. exact samples_unchanged. Qed.

(* The disparity variable is the [min,max] pair broadcast to the image shape, or the two grid
   bands (windowed like the image); classif and segm are attached unchanged. *)
Theorem C16_disparity_var :
  forall inp win,
    let ds := create_dataset inp win in
    let '(ny, nx) := shape_of (data_of inp win) in
    match i_disp inp with
    | DispNone => d_disp ds = None
    | DispPair a b =>
      exists d1 d2, d_disp ds = Some (d1, d2) /\
        nr d1 = ny /\ nc d1 = nx /\ nr d2 = ny /\ nc d2 = nx /\
        forall r c, px d1 r c = sz a /\ px d2 r c = sz b
    | DispGrid g1 g2 => d_disp ds = Some (read win g1, read win g2)
    end
    /\ d_classif ds = option_map (fun nb => (fst nb, map (read win) (snd nb))) (i_classif inp)
    /\ d_segm ds = option_map (read win) (i_segm inp).
Proof. exact disparity_var. Qed.

(* Non-vacuity: a 2-band 2x3 raster with a NaN sample, a negative mask value and a clipped ROI. *)
Definition ex_band (f : Z -> Z -> sample) : arr sample := mkArr 2 3 f.
Definition ex_inp : inputs :=
  mkIn [ex_band (fun r c => if (r =? 0) && (c =? 1) then SNaN else sz (r + c));
        ex_band (fun r c => sz (10 * r + c))]
       [0; 1] SNaN (Some (mkArr 2 3 (fun r c => if (r =? 1) && (c =? 2) then -5 else 0)))
       (DispPair (-2) 2) None None.
Example C16_example :
  get_window 1 5 (-2) 0 0 0 1 0 3 2 = Window 1 0 2 1 /\
  (let ds := create_dataset ex_inp (Some (1, 0, 2, 1)) in
   d_col ds = [1; 2] /\ d_row ds = [0] /\
   class_at (d_msk ds) 0 0 = PNoData /\ class_at (d_msk ds) 0 1 = PValid) /\
  class_at (d_msk (create_dataset ex_inp None)) 1 2 = PInvalid.
Proof. repeat split. Qed.

Print Assumptions C16_window_is_clipped_roi.
Print Assumptions C16_window_refused_iff_empty.
Print Assumptions C16_roi_read_is_crop.
Print Assumptions C16_roi_dataset.
Print Assumptions C16_mask_semantics.
Print Assumptions C16_mask_absent_iff.
Print Assumptions C16_samples_unchanged.
Print Assumptions C16_disparity_var.
