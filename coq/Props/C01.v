(* C01 -- Accepted pipelines are exactly the documented automaton and run as written.
   Statements only; every proof is `exact <lemma>` from Proofs/MachineP.v,
   instantiated with the transition tables regenerated from /repo (Gen/Tables.v). *)
From Coq Require Import List Bool ZArith.
From Pandora Require Import Model.Machine Spec.Language Proofs.MachineP Gen.Tables.
Import ListNotations.

(* Per-run obligations on the regenerated tables: complete finite computations
   (3 states x 10 kinds x 2 values of the is_not_last_scale condition). *)
Theorem C01_check_table_wf : check_tbl_wf check_table = true.
Proof. vm_compute. reflexivity. Qed.

Theorem C01_run_table_wf : run_tbl_wf run_table = true.
Proof. vm_compute. reflexivity. Qed.

Section C01.
  (* parameter validity of each step is an arbitrary oracle here (C05 decides it) *)
  Variable step_ok : step -> bool -> bool.

  (* The documented language is the regular shape
       [] | MC (Agg|Seg|Opt|Cvc)* | MC (Agg|Seg|Opt|Cvc)* Dsp (Flt|Ref|Val|Msc)*  *)
  Theorem C01_path_iff_shape : forall ks, doc_accepts ks = true <-> shape ks.
  Proof. exact path_iff_shape. Qed.

  (* accepted iff the names spell a documented path and every step is valid
     (for both image orders when a validation step of THIS pipeline triggers the
     second round); nothing of the machine's past is in the condition *)
  Theorem C01_check_accepts_iff : forall m p, clean m ->
    (exists m', check_conf check_table step_ok m p = Accepted m') <->
    (spells_documented_path p
     /\ forallb (fun s => step_ok s false) p = true
     /\ (has_kind Val p = true -> forallb (fun s => step_ok s true) p = true)).
  Proof. exact (check_accepts_iff check_table step_ok C01_check_table_wf). Qed.

  (* after a successful check the machine is back in `begin` with no transition left,
     and its right-disparity request is the one of the checked pipeline *)
  Theorem C01_check_restores : forall m p, clean m ->
    if accept_b step_ok p
    then check_conf check_table step_ok m p
         = Accepted (mkM Begin [] (has_kind Val p) (m_scale m))
    else exists m', check_conf check_table step_ok m p = Rejected m'.
  Proof. exact (check_conf_spec check_table step_ok C01_check_table_wf). Qed.

  (* every documented path runs without sequencing error, for every number of
     scales n, on every clean machine (whatever it checked or ran before); its
     callback trace is exactly the expected one (each step once per processed
     scale, configured order, left then -- iff THIS pipeline has a validation
     step -- right), and the machine is restored *)
  Theorem C01_run_trace_exact : forall m p n d, clean m ->
    path_ok Begin p = Some d ->
    (n >= 1)%nat -> ((n > 1)%nat -> has_kind Msc p = true) ->
    run run_table m p n =
      RunOk (mkM Begin [] (has_kind Val p) 0)
            (expected_trace p n (has_kind Val p)).
  Proof. exact (run_spec run_table C01_run_table_wf). Qed.

  (* EVERY history of check/run calls of ARBITRARY pipelines (each call: any
     pipeline -- accepted or not --, any number of scales) on one machine object
     that starts clean: every call returns exactly what the same call returns on
     a machine that has never been used, as long as the EARLIER calls returned
     successfully (accepted / ran).  The guard is the word "successfully" of the
     property: a rejected check or a failed run raises in the middle of the
     transitions bookkeeping and leaves the object dirty
     (C01_history_guard_needed shows the guard cannot be dropped).  The first
     unsuccessful call itself is still covered (it is the last of its prefix). *)
  Theorem C01_history_any_pipelines : forall h m, clean m ->
    earlier_successful check_table run_table step_ok h = true ->
    ghistory check_table run_table step_ok m h
    = map (fresh_outcome check_table run_table step_ok) h.
  Proof. exact (ghistory_fresh check_table run_table step_ok C01_check_table_wf C01_run_table_wf). Qed.

  (* ... and what a never-used machine returns: accepted iff documented path and
     valid steps; a documented path runs with the expected trace *)
  Theorem C01_fresh_check : forall p,
    fresh_outcome check_table run_table step_ok (GCheck p)
    = if accept_b step_ok p then OAccepted else ORejected.
  Proof. exact (fresh_check check_table run_table step_ok C01_check_table_wf). Qed.

  Theorem C01_fresh_run : forall p n d, path_ok Begin p = Some d ->
    (n >= 1)%nat -> ((n > 1)%nat -> has_kind Msc p = true) ->
    fresh_outcome check_table run_table step_ok (GRun p n)
    = ORan (expected_trace p n (has_kind Val p)).
  Proof. exact (fresh_run check_table run_table step_ok C01_run_table_wf). Qed.

  (* after a history of successful calls the machine is in `begin` with no
     transition left *)
  Theorem C01_history_leaves_clean : forall h m, clean m ->
    forallb (fun c => successful (fresh_outcome check_table run_table step_ok c)) h = true ->
    clean (gfinal check_table run_table step_ok m h).
  Proof. exact (gfinal_clean check_table run_table step_ok C01_check_table_wf C01_run_table_wf). Qed.

  (* corollary (the last sentence of C01): every history of check/run calls of
     one accepted pipeline on one clean machine, whatever that machine did
     before: each call returns what the first one returned *)
  Corollary C01_history_idempotent : forall n p d h m,
    clean m ->
    path_ok Begin p = Some d -> accept_b step_ok p = true ->
    (n >= 1)%nat -> ((n > 1)%nat -> has_kind Msc p = true) ->
    history check_table run_table step_ok n p m h = map (expected_outcome n p) h.
  Proof. exact (history_spec check_table run_table step_ok C01_check_table_wf C01_run_table_wf). Qed.
End C01.

(* The guard of C01_history_any_pipelines is needed: after a REJECTED check
   ([matching_cost; filter]: MachineError raised while the check transitions are
   registered and the state is cost_volume) the accepted pipeline
   [matching_cost; disparity] is rejected on the same object. *)
Definition all_ok : step -> bool -> bool := fun _ _ => true.
Definition ex_bad : list step := [mkStep 0 (Some MC); mkStep 1 (Some Flt)].
Definition ex_good : list step := [mkStep 0 (Some MC); mkStep 1 (Some Dsp)].
Theorem C01_history_guard_needed :
  clean machine0 /\
  ghistory check_table run_table all_ok machine0 [GCheck ex_bad; GCheck ex_good] = [ORejected; ORejected] /\
  map (fresh_outcome check_table run_table all_ok) [GCheck ex_bad; GCheck ex_good] = [ORejected; OAccepted].
Proof. vm_compute. repeat split. Qed.

(* Regression witness of the repaired defect (fix: "a configuration check starts
   from a clean machine ... run_prepare no longer keeps the right-disparity
   request of an earlier pipeline").  On the model of the code BEFORE the fix
   (check_conf_before / run_before keep m_rdm), the history
     check A = [matching_cost; disparity; validation]   then
     run   B = [matching_cost; disparity; filter]        on the same machine
   executes every step of B on the right data too although B has no validation
   step; on the model of the current code the same history gives the trace of a
   fresh machine (left only). *)
Definition ex_A : list step := [mkStep 0 (Some MC); mkStep 1 (Some Dsp); mkStep 2 (Some Val)].
Definition ex_B : list step := [mkStep 0 (Some MC); mkStep 1 (Some Dsp); mkStep 2 (Some Flt)].
Definition right_ev (e : ev) : bool := match e with Ev _ _ _ r => r end.
Theorem C01_rdm_leak_before_fix :
  has_kind Val ex_B = false /\
  (exists mA, check_conf_before check_table all_ok machine0 ex_A = Accepted mA /\
     exists mB tr, run_before run_table mA ex_B 1 = RunOk mB tr /\
       filter right_ev tr = [Ev 0 MC 0 true; Ev 1 Dsp 0 true; Ev 2 Flt 0 true]) /\
  (exists mA, check_conf check_table all_ok machine0 ex_A = Accepted mA /\
     exists mB tr, run run_table mA ex_B 1 = RunOk mB tr /\ filter right_ev tr = []).
Proof.
  split; [reflexivity|]. split.
  - eexists; split; [vm_compute; reflexivity|]. eexists; eexists; split; vm_compute; reflexivity.
  - eexists; split; [vm_compute; reflexivity|]. eexists; eexists; split; vm_compute; reflexivity.
Qed.

(* Non-vacuity: a concrete pipeline with repeated, suffixed steps and three scales. *)
Definition ex_pipeline : list step :=
  [mkStep 0 (Some MC); mkStep 1 (Some Cvc); mkStep 2 (Some Dsp); mkStep 3 (Some Flt);
   mkStep 4 (Some Msc); mkStep 5 (Some Val); mkStep 6 (Some Flt)].
Example C01_example_hyps :
  clean machine0 /\ path_ok Begin ex_pipeline = Some DispMap /\ has_kind Msc ex_pipeline = true
  /\ length (expected_trace ex_pipeline 3 true) = 32%nat.
Proof. repeat split. Qed.

Print Assumptions C01_check_table_wf.
Print Assumptions C01_run_table_wf.
Print Assumptions C01_path_iff_shape.
Print Assumptions C01_check_accepts_iff.
Print Assumptions C01_check_restores.
Print Assumptions C01_run_trace_exact.
Print Assumptions C01_history_any_pipelines.
Print Assumptions C01_fresh_check.
Print Assumptions C01_fresh_run.
Print Assumptions C01_history_leaves_clean.
Print Assumptions C01_history_idempotent.
Print Assumptions C01_history_guard_needed.
Print Assumptions C01_rdm_leak_before_fix.
