(* C01 -- Accepted pipelines are exactly the documented automaton and run as written.
   Statements only; every proof is `exact <lemma>` from Proofs/MachineP.v,
   instantiated with the transition tables regenerated from /repo (Gen/Tables.v). *)
From Coq Require Import List Bool ZArith.
From Pandora Require Import Model.Machine Spec.Language Proofs.MachineP Gen.Tables.
From Pandora Require Import Lib.MachineFlow Proofs.MachineFlowP Gen.MachineFlow Model.MachineGen.
Import ListNotations.

(* Per-run obligations on the regenerated tables: complete finite computations
   (3 states x 10 kinds x 2 values of the is_not_last_scale condition). *)
Theorem C01_check_table_wf : check_tbl_wf check_table = true.
Proof. vm_compute. reflexivity. Qed.

Theorem C01_run_table_wf : run_tbl_wf run_table = true.
Proof. vm_compute. reflexivity. Qed.

Section C01.
  (* parameter validity of each step is an arbitrary oracle here (C05 decides it) *)
  Variable step_ok : step -> bool -> bool.

  (* The documented language is the regular shape
       [] | MC (Agg|Seg|Opt|Cvc)* | MC (Agg|Seg|Opt|Cvc)* Dsp (Flt|Ref|Val|Msc)*  *)
  Theorem C01_path_iff_shape : forall ks, doc_accepts ks = true <-> shape ks.
  Proof. exact path_iff_shape. Qed.

  (* accepted iff the names spell a documented path and every step is valid
     (for both image orders when a validation step of THIS pipeline triggers the
     second round); nothing of the machine's past is in the condition *)
  Theorem C01_check_accepts_iff : forall m p, clean m ->
    (exists m', check_conf check_table step_ok m p = Accepted m') <->
    (spells_documented_path p
     /\ forallb (fun s => step_ok s false) p = true
     /\ (has_kind Val p = true -> forallb (fun s => step_ok s true) p = true)).
  Proof. exact (check_accepts_iff check_table step_ok C01_check_table_wf). Qed.

  (* after a successful check the machine is back in `begin` with no transition left,
     and its right-disparity request is the one of the checked pipeline *)
  Theorem C01_check_restores : forall m p, clean m ->
    if accept_b step_ok p
    then check_conf check_table step_ok m p
         = Accepted (mkM Begin [] (has_kind Val p) (m_scale m))
    else exists m', check_conf check_table step_ok m p = Rejected m'.
  Proof. exact (check_conf_spec check_table step_ok C01_check_table_wf). Qed.

  (* every documented path runs without sequencing error, for every number of
     scales n, on every clean machine (whatever it checked or ran before); its
     callback trace is exactly the expected one (each step once per processed
     scale, configured order, left then -- iff THIS pipeline has a validation
     step -- right), and the machine is restored *)
  Theorem C01_run_trace_exact : forall m p n d, clean m ->
    path_ok Begin p = Some d ->
    (n >= 1)%nat -> ((n > 1)%nat -> has_kind Msc p = true) ->
    run run_table m p n =
      RunOk (mkM Begin [] (has_kind Val p) 0)
            (expected_trace p n (has_kind Val p)).
  Proof. exact (run_spec run_table C01_run_table_wf). Qed.

  (* EVERY history of check/run calls of ARBITRARY pipelines (each call: any
     pipeline -- accepted or not --, any number of scales) on one machine object
     that starts clean: every call returns exactly what the same call returns on
     a machine that has never been used, as long as the EARLIER calls returned
     successfully (accepted / ran).  The guard is the word "successfully" of the
     property: a rejected check or a failed run raises in the middle of the
     transitions bookkeeping and leaves the object dirty
     (C01_history_guard_needed shows the guard cannot be dropped).  The first
     unsuccessful call itself is still covered (it is the last of its prefix). *)
  Theorem C01_history_any_pipelines : forall h m, clean m ->
    earlier_successful check_table run_table step_ok h = true ->
    ghistory check_table run_table step_ok m h
    = map (fresh_outcome check_table run_table step_ok) h.
  Proof. exact (ghistory_fresh check_table run_table step_ok C01_check_table_wf C01_run_table_wf). Qed.

  (* ... and what a never-used machine returns: accepted iff documented path and
     valid steps; a documented path runs with the expected trace *)
  Theorem C01_fresh_check : forall p,
    fresh_outcome check_table run_table step_ok (GCheck p)
    = if accept_b step_ok p then OAccepted else ORejected.
  Proof. exact (fresh_check check_table run_table step_ok C01_check_table_wf). Qed.

  Theorem C01_fresh_run : forall p n d, path_ok Begin p = Some d ->
    (n >= 1)%nat -> ((n > 1)%nat -> has_kind Msc p = true) ->
    fresh_outcome check_table run_table step_ok (GRun p n)
    = ORan (expected_trace p n (has_kind Val p)).
  Proof. exact (fresh_run check_table run_table step_ok C01_run_table_wf). Qed.

  (* after a history of successful calls the machine is in `begin` with no
     transition left *)
  Theorem C01_history_leaves_clean : forall h m, clean m ->
    forallb (fun c => successful (fresh_outcome check_table run_table step_ok c)) h = true ->
    clean (gfinal check_table run_table step_ok m h).
  Proof. exact (gfinal_clean check_table run_table step_ok C01_check_table_wf C01_run_table_wf). Qed.

  (* corollary (the last sentence of C01): every history of check/run calls of
     one accepted pipeline on one clean machine, whatever that machine did
     before: each call returns what the first one returned *)
  Corollary C01_history_idempotent : forall n p d h m,
    clean m ->
    path_ok Begin p = Some d -> accept_b step_ok p = true ->
    (n >= 1)%nat -> ((n > 1)%nat -> has_kind Msc p = true) ->
    history check_table run_table step_ok n p m h = map (expected_outcome n p) h.
  Proof. exact (history_spec check_table run_table step_ok C01_check_table_wf C01_run_table_wf). Qed.
End C01.

(* ---------------------------------------------------------------------------------------------------
   Tie of the CONTROL FLOW to the source (T-gen).  Gen/MachineFlow.v is rewritten at every run from the `ast`
   of PandoraMachine.check_conf / run / run_prepare / run_exit / is_not_last_scale and of pandora.run
   (translator/gen_machine_flow.py) as ordered statement skeletons; Lib/MachineFlow.v gives such skeletons a
   meaning (an interpreter with exceptions, break, return, calls, over the `transitions` semantics [fire] of
   Model/Machine.v).  C01_check_flow_wf / C01_run_flow_wf are the per-run obligations "what the code says now
   is the control flow Model/Machine.v implements" (complete finite computations); C01_gen_*_is_model say that
   the regenerated flow then computes, for ALL machines, pipelines, callback behaviours and numbers of scales,
   what the hand-written model computes, and the headline theorems are restated on the regenerated flow. *)
Theorem C01_check_flow_wf : check_flow_wf flows = true.
Proof. vm_compute. reflexivity. Qed.

Theorem C01_run_flow_wf : run_flow_wf flows = true.
Proof. vm_compute. reflexivity. Qed.

Section C01Gen.
  (* behaviour of the check callbacks (any): None = returns, Some e = raises e; and the three oracles the
     interpreter consults only for flows that are NOT the one of the code *)
  Variable cb : step -> side -> side -> option exn.
  Variable dotted : step -> bool.
  Variable other_kind : step -> selector -> option kind.
  Variable sorted_steps : list step -> list step.

  Notation gcheck := (gen_check_conf cb dotted other_kind sorted_steps).
  Notation grun := (gen_run cb dotted other_kind sorted_steps).
  (* the validity oracle the callbacks induce: step valid (images exchanged or not) iff its callback returns *)
  Notation ok := (step_ok_of cb).

  (* the regenerated check_conf IS the model's check_conf: same verdict, same machine left behind *)
  Theorem C01_gen_check_is_model : forall st p, clean (f_m st) ->
    match check_conf check_table ok (f_m st) p with
    | Accepted m' => gcheck st p = ONormal (mkF m' SL SR (f_scales st) (f_trace st))
    | Rejected m' => exists x st', gcheck st p = ORaise x st' /\ f_m st' = m'
                                   /\ (x = EMachineError \/ uncaught cb p x)
    end.
  Proof.
    exact (fun st p => sem_check_model check_table run_table cb dotted other_kind sorted_steps
                         C01_check_table_wf flows C01_check_flow_wf 2 st p (le_n 2)).
  Qed.

  (* the regenerated pandora.run IS the model's run, on every machine (clean or not), for every pipeline
     (documented or not) and every number of scales *)
  Theorem C01_gen_run_is_model : forall st p n, (n >= 1)%nat -> f_trace st = [] ->
    match run run_table (f_m st) p n with
    | RunOk m' tr => grun st p n = OReturn (RProducts SL SR) (mkF m' (f_left st) (f_right st) (Z.of_nat n) tr)
    | RunError m' tr => exists x, grun st p n = ORaise x (mkF m' (f_left st) (f_right st) (Z.of_nat n) tr)
    end.
  Proof.
    exact (sem_run_model check_table run_table cb dotted other_kind sorted_steps flows C01_run_flow_wf).
  Qed.

  (* C01_check_accepts_iff on the regenerated flow *)
  Theorem C01_gen_check_accepts_iff : forall st p, clean (f_m st) ->
    (exists st', gcheck st p = ONormal st') <->
    (spells_documented_path p
     /\ forallb (fun s => ok s false) p = true
     /\ (has_kind Val p = true -> forallb (fun s => ok s true) p = true)).
  Proof.
    exact (gen_check_accepts_iff check_table run_table cb dotted other_kind sorted_steps
             C01_check_table_wf flows C01_check_flow_wf).
  Qed.

  (* C01_check_restores on the regenerated flow, with two things the hand-written model does not carry: after
     an accepted check self.left_img / self.right_img hold the caller's left / right image again (they were
     exchanged for the second round); what leaves a refused check is MachineError, unless the check callback
     of one of its steps raised a class that `except (MachineError, KeyError, AttributeError)` does not name *)
  Theorem C01_gen_check_restores : forall st p, clean (f_m st) ->
    if accept_b ok p
    then gcheck st p
         = ONormal (mkF (mkM Begin [] (has_kind Val p) (m_scale (f_m st))) SL SR (f_scales st) (f_trace st))
    else exists x st', gcheck st p = ORaise x st' /\ (x = EMachineError \/ uncaught cb p x).
  Proof.
    exact (gen_check_restores check_table run_table cb dotted other_kind sorted_steps
             C01_check_table_wf flows C01_check_flow_wf).
  Qed.

  (* "any other pipeline is rejected with a sequencing error": when the check callbacks raise nothing but
     MachineError / KeyError / AttributeError, whatever leaves check_conf is MachineError *)
  Theorem C01_gen_reject_is_machine_error :
    (forall s a b x, cb s a b = Some x -> catches handled x = true) ->
    forall st p x st', clean (f_m st) -> gcheck st p = ORaise x st' -> x = EMachineError.
  Proof.
    exact (gen_reject_is_machine_error check_table run_table cb dotted other_kind sorted_steps
             C01_check_table_wf flows C01_check_flow_wf).
  Qed.

  (* C01_run_trace_exact on the regenerated flow; the pair returned is (left_disparity, right_disparity) *)
  Theorem C01_gen_run_trace_exact : forall st p n d, clean (f_m st) -> f_trace st = [] ->
    path_ok Begin p = Some d ->
    (n >= 1)%nat -> ((n > 1)%nat -> has_kind Msc p = true) ->
    grun st p n
    = OReturn (RProducts SL SR)
        (mkF (mkM Begin [] (has_kind Val p) 0) (f_left st) (f_right st) (Z.of_nat n)
             (expected_trace p n (has_kind Val p))).
  Proof.
    exact (gen_run_trace_exact check_table run_table cb dotted other_kind sorted_steps
             C01_run_table_wf flows C01_run_flow_wf).
  Qed.
  (* C01_history_any_pipelines on the regenerated flow: EVERY history of check/run calls of arbitrary pipelines
     (each run with n >= 1 scales) through the regenerated check_conf / pandora.run on one machine object that
     starts clean returns, call by call, what the same call returns on a machine that has never been used, as long
     as the earlier calls returned successfully *)
  Theorem C01_gen_history_any_pipelines : forall h st, clean (f_m st) ->
    forallb scales_ok h = true ->
    earlier_successful check_table run_table ok h = true ->
    flow_history check_table run_table cb dotted other_kind sorted_steps flows st h
    = map (fresh_outcome check_table run_table ok) h.
  Proof.
    exact (gen_history_fresh check_table run_table cb dotted other_kind sorted_steps
             C01_check_table_wf C01_run_table_wf flows C01_check_flow_wf C01_run_flow_wf).
  Qed.
End C01Gen.

(* The guard of C01_history_any_pipelines is needed: after a REJECTED check
   ([matching_cost; filter]: MachineError raised while the check transitions are
   registered and the state is cost_volume) the accepted pipeline
   [matching_cost; disparity] is rejected on the same object. *)
Definition all_ok : step -> bool -> bool := fun _ _ => true.
Definition ex_bad : list step := [mkStep 0 (Some MC); mkStep 1 (Some Flt)].
Definition ex_good : list step := [mkStep 0 (Some MC); mkStep 1 (Some Dsp)].
Theorem C01_history_guard_needed :
  clean machine0 /\
  ghistory check_table run_table all_ok machine0 [GCheck ex_bad; GCheck ex_good] = [ORejected; ORejected] /\
  map (fresh_outcome check_table run_table all_ok) [GCheck ex_bad; GCheck ex_good] = [ORejected; OAccepted].
Proof. vm_compute. repeat split. Qed.

(* Regression witness of the repaired defect (fix: "a configuration check starts
   from a clean machine ... run_prepare no longer keeps the right-disparity
   request of an earlier pipeline").  On the model of the code BEFORE the fix
   (check_conf_before / run_before keep m_rdm), the history
     check A = [matching_cost; disparity; validation]   then
     run   B = [matching_cost; disparity; filter]        on the same machine
   executes every step of B on the right data too although B has no validation
   step; on the model of the current code the same history gives the trace of a
   fresh machine (left only). *)
Definition ex_A : list step := [mkStep 0 (Some MC); mkStep 1 (Some Dsp); mkStep 2 (Some Val)].
Definition ex_B : list step := [mkStep 0 (Some MC); mkStep 1 (Some Dsp); mkStep 2 (Some Flt)].
Definition right_ev (e : ev) : bool := match e with Ev _ _ _ r => r end.
Theorem C01_rdm_leak_before_fix :
  has_kind Val ex_B = false /\
  (exists mA, check_conf_before check_table all_ok machine0 ex_A = Accepted mA /\
     exists mB tr, run_before run_table mA ex_B 1 = RunOk mB tr /\
       filter right_ev tr = [Ev 0 MC 0 true; Ev 1 Dsp 0 true; Ev 2 Flt 0 true]) /\
  (exists mA, check_conf check_table all_ok machine0 ex_A = Accepted mA /\
     exists mB tr, run run_table mA ex_B 1 = RunOk mB tr /\ filter right_ev tr = []).
Proof.
  split; [reflexivity|]. split.
  - eexists; split; [vm_compute; reflexivity|]. eexists; eexists; split; vm_compute; reflexivity.
  - eexists; split; [vm_compute; reflexivity|]. eexists; eexists; split; vm_compute; reflexivity.
Qed.

(* Non-vacuity: a concrete pipeline with repeated, suffixed steps and three scales. *)
Definition ex_pipeline : list step :=
  [mkStep 0 (Some MC); mkStep 1 (Some Cvc); mkStep 2 (Some Dsp); mkStep 3 (Some Flt);
   mkStep 4 (Some Msc); mkStep 5 (Some Val); mkStep 6 (Some Flt)].
Example C01_example_hyps :
  clean machine0 /\ path_ok Begin ex_pipeline = Some DispMap /\ has_kind Msc ex_pipeline = true
  /\ length (expected_trace ex_pipeline 3 true) = 32%nat.
Proof. repeat split. Qed.

(* Non-vacuity of the interpreter on the regenerated flow: it runs.  A refused check whose callback raises a
   class outside the except clause lets that class through (so the hypothesis of
   C01_gen_reject_is_machine_error is needed); a documented 3-scale pipeline runs with the 32-entry trace. *)
Definition ex_cb_other : step -> side -> side -> option exn :=
  fun s _ _ => if (s_id s =? 1)%Z then Some EOtherError else None.
Example C01_gen_example_runs :
  (exists st', gen_check_conf (fun _ _ _ => None) (fun _ => false) (fun _ _ => None) (fun l => l)
                 (mkF machine0 SL SR 0 []) ex_good = ONormal st')
  /\ (exists st', gen_check_conf ex_cb_other (fun _ => false) (fun _ _ => None) (fun l => l)
                    (mkF machine0 SL SR 0 []) ex_good = ORaise EOtherError st')
  /\ (exists st', gen_check_conf (fun _ _ _ => None) (fun _ => true) (fun _ _ => None) (fun l => l)
                    (mkF machine0 SL SR 0 []) ex_bad = ORaise EMachineError st')
  /\ (exists st', gen_run (fun _ _ _ => None) (fun _ => false) (fun _ _ => None) (fun l => l)
                    (mkF machine0 SL SR 0 []) ex_pipeline 3 = OReturn (RProducts SL SR) st'
                  /\ length (f_trace st') = 32%nat).
Proof.
  repeat split; eexists; vm_compute; try reflexivity. split; reflexivity.
Qed.

Print Assumptions C01_check_table_wf.
Print Assumptions C01_check_flow_wf.
Print Assumptions C01_run_flow_wf.
Print Assumptions C01_gen_check_is_model.
Print Assumptions C01_gen_run_is_model.
Print Assumptions C01_gen_check_accepts_iff.
Print Assumptions C01_gen_check_restores.
Print Assumptions C01_gen_reject_is_machine_error.
Print Assumptions C01_gen_run_trace_exact.
Print Assumptions C01_gen_history_any_pipelines.
Print Assumptions C01_run_table_wf.
Print Assumptions C01_path_iff_shape.
Print Assumptions C01_check_accepts_iff.
Print Assumptions C01_check_restores.
Print Assumptions C01_run_trace_exact.
Print Assumptions C01_history_any_pipelines.
Print Assumptions C01_fresh_check.
Print Assumptions C01_fresh_run.
Print Assumptions C01_history_leaves_clean.
Print Assumptions C01_history_idempotent.
Print Assumptions C01_history_guard_needed.
Print Assumptions C01_rdm_leak_before_fix.
