(* C01 -- Accepted pipelines are exactly the documented automaton and run as written.
   Statements only; every proof is `exact <lemma>` from Proofs/MachineP.v,
   instantiated with the transition tables regenerated from /repo (Gen/Tables.v). *)
From Coq Require Import List Bool ZArith.
From Pandora Require Import Model.Machine Spec.Language Proofs.MachineP Gen.Tables.
Import ListNotations.

(* Per-run obligations on the regenerated tables: complete finite computations
   (3 states x 10 kinds x 2 values of the is_not_last_scale condition). *)
Theorem C01_check_table_wf : check_tbl_wf check_table = true.
Proof. vm_compute. reflexivity. Qed.

Theorem C01_run_table_wf : run_tbl_wf run_table = true.
Proof. vm_compute. reflexivity. Qed.

Section C01.
  (* parameter validity of each step is an arbitrary oracle here (C05 decides it) *)
  Variable step_ok : step -> bool -> bool.

  (* The documented language is the regular shape
       [] | MC (Agg|Seg|Opt|Cvc)* | MC (Agg|Seg|Opt|Cvc)* Dsp (Flt|Ref|Val|Msc)*  *)
  Theorem C01_path_iff_shape : forall ks, doc_accepts ks = true <-> shape ks.
  Proof. exact path_iff_shape. Qed.

  (* accepted iff the names spell a documented path and every step is valid
     (for both image orders when a validation step triggers the second round) *)
  Theorem C01_check_accepts_iff : forall m p, clean m ->
    (exists m', check_conf check_table step_ok m p = Accepted m') <->
    (spells_documented_path p
     /\ forallb (fun s => step_ok s false) p = true
     /\ (m_rdm m || has_kind Val p = true -> forallb (fun s => step_ok s true) p = true)).
  Proof. exact (check_accepts_iff check_table step_ok C01_check_table_wf). Qed.

  (* after a successful check the machine is back in `begin` with no transition left *)
  Theorem C01_check_restores : forall m p, clean m ->
    if accept_b step_ok (m_rdm m) p
    then check_conf check_table step_ok m p
         = Accepted (mkM Begin [] (m_rdm m || has_kind Val p) (m_scale m))
    else exists m', check_conf check_table step_ok m p = Rejected m'.
  Proof. exact (check_conf_spec check_table step_ok C01_check_table_wf). Qed.

  (* every documented path runs without sequencing error, for every number of
     scales n; its callback trace is exactly the expected one (each step once
     per processed scale, configured order, left then right), and the machine
     is restored *)
  Theorem C01_run_trace_exact : forall m p n d, clean m ->
    path_ok Begin p = Some d ->
    (n >= 1)%nat -> ((n > 1)%nat -> has_kind Msc p = true) ->
    run run_table m p n =
      RunOk (mkM Begin [] (m_rdm m || has_kind Val p) 0)
            (expected_trace p n (m_rdm m || has_kind Val p)).
  Proof. exact (run_spec run_table C01_run_table_wf). Qed.

  (* every history of check/run calls of one accepted pipeline on one machine:
     each call returns what the first one returned *)
  Theorem C01_history_idempotent : forall n p d h m,
    clean m -> (m_rdm m = true -> has_kind Val p = true) ->
    path_ok Begin p = Some d -> accept_b step_ok (has_kind Val p) p = true ->
    (n >= 1)%nat -> ((n > 1)%nat -> has_kind Msc p = true) ->
    history check_table run_table step_ok n p m h = map (expected_outcome n p) h.
  Proof. exact (history_spec check_table run_table step_ok C01_check_table_wf C01_run_table_wf). Qed.
End C01.

(* Non-vacuity: a concrete pipeline with repeated, suffixed steps and three scales. *)
Definition ex_pipeline : list step :=
  [mkStep 0 (Some MC); mkStep 1 (Some Cvc); mkStep 2 (Some Dsp); mkStep 3 (Some Flt);
   mkStep 4 (Some Msc); mkStep 5 (Some Val); mkStep 6 (Some Flt)].
Example C01_example_hyps :
  clean machine0 /\ path_ok Begin ex_pipeline = Some DispMap /\ has_kind Msc ex_pipeline = true
  /\ length (expected_trace ex_pipeline 3 true) = 32%nat.
Proof. repeat split. Qed.

Print Assumptions C01_check_table_wf.
Print Assumptions C01_run_table_wf.
Print Assumptions C01_path_iff_shape.
Print Assumptions C01_check_accepts_iff.
Print Assumptions C01_check_restores.
Print Assumptions C01_run_trace_exact.
Print Assumptions C01_history_idempotent.
