(* C05 -- configuration checking completes, preserves and polices every parameter (in progress) *)
From Coq Require Import List Bool ZArith String.
From Pandora Require Import Model.Json Model.Checker Spec.Domains Gen.Schemas.
Import ListNotations.

Theorem C05_classes_nonempty : List.length classes = 16%nat.
Proof. vm_compute. reflexivity. Qed.

Print Assumptions C05_classes_nonempty.
